import ast, pathlib
SRC = pathlib.Path('/repo/src/odfdo')
trees = {str(p.relative_to(SRC)): ast.parse(p.read_text()) for p in sorted(SRC.rglob('*.py'))}
classes={}
for m,t in trees.items():
    for n in t.body:
        if isinstance(n, ast.ClassDef): classes[n.name]=(n,[ast.unparse(b).split('.')[-1] for b in n.bases])
def init_of(c):
    for f in classes[c][0].body:
        if isinstance(f, ast.FunctionDef) and f.name=='__init__': return f
def accepted(c, seen=()):
    """names accepted along chain; returns (names, open_kwargs_consumer)"""
    if c not in classes or c in seen: return set(), False
    f = init_of(c)
    if f is None:
        names=set(); anyopen=False
        for b in classes[c][1]:
            n,o = accepted(b, seen+(c,)); names|=n; anyopen |= o
        return names, anyopen
    names = {a.arg for a in f.args.args[1:]+f.args.kwonlyargs}
    if f.args.kwarg is None: return names, False
    # forwards kwargs to super?
    fw = any(isinstance(x, ast.Call) and any(k.arg is None for k in x.keywords) and 'super' in ast.unparse(x.func) for x in ast.walk(f))
    if c=='Element': return names|{'tag_or_elem','tag'}, False
    if c=='Style': return names, True   # consumes kwargs as properties
    if fw:
        for b in classes[c][1]:
            n,o = accepted(b, seen+(c,)); names|=n
            if o: return names, True
    return names, False
for m,t in trees.items():
    for n in ast.walk(t):
        if isinstance(n, ast.Call) and isinstance(n.func, ast.Name) and n.func.id in classes and n.keywords:
            names, openk = accepted(n.func.id)
            if openk: continue
            if init_of(n.func.id) is None and not names: continue
            for k in n.keywords:
                if k.arg and k.arg not in names:
                    print(f"SWALLOWED {m}:{n.lineno} {n.func.id}({k.arg}=...) accepted={sorted(names)[:8]}")
