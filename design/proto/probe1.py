import io, datetime, traceback
from odfdo import *
from odfdo.table import import_from_csv
def t(name, f):
    try: print(name, '=>', f())
    except Exception as e: print(name, 'EXC', type(e).__name__, e)
t('Header style', lambda: Header(1,'x',style='S').serialize())
t('TOC name', lambda: TOC(name='N').name)
t('Annotation name', lambda: Annotation('b', creator='c', name='N').name)
t('Style data_style', lambda: Style('table-cell', name='a', data_style='D').serialize())
# C06 meta datetime
d = Document('text')
d.meta.set_user_defined_metadata('k', datetime.datetime(2020,1,2,3,4,5))
t('meta datetime', lambda: d.meta.get_user_defined_metadata()['k'])
# C04 add_full_path dup
m = d.manifest
m.add_full_path('Pictures/x.png','image/png'); m.add_full_path('Pictures/x.png','image/png')
t('manifest dup', lambda: [p for p in map(str,m.get_paths()) if 'x.png' in p])
# C03 set_part ignored
d2 = Document('text'); _=d2.body
raw = d2.container.get_part('content.xml')
d2.set_part('content.xml', raw.replace(b'office:text', b'office:text'))
# C13 merge leaves source empty
a = Document('text'); b = Document('text')
n_before = len(b.get_styles())
a.merge_styles_from(b)
t('merge src styles before/after', lambda: (n_before, len(b.get_styles())))
# C15 markdown mutates
d3 = Document('text'); tb = Table('t', width=3, height=3); tb.set_value((0,0),'x'); d3.body.append(tb)
s0 = d3.body.serialize(); d3.to_markdown(); t('md mutates', lambda: s0 != d3.body.serialize())
# C19 get_columns
tb = Table('t', width=6, height=2)
t('get_columns B:C', lambda: [c.x for c in tb.get_columns('B1:C1')])
t('get_columns (1,2)', lambda: [c.x for c in tb.get_columns((1,2))])
# C20 toc
d4 = Document('text'); d4.body.clear(); toc = TOC(); d4.body.append(toc); d4.body.append(Header(1,'Title'))
toc.fill()
t('toc body', lambda: toc.body.serialize())
# C14
d5 = Document('spreadsheet'); d5.body.append(Table('a"b'))
t('get_table quote', lambda: d5.body.get_table(name='a"b'))
# C11 pretty mutates
d6 = Document('text'); d6.body.append(Paragraph('hello')); s0=d6.body.serialize(); d6.save(io.BytesIO(), pretty=True)
t('pretty mutates', lambda: s0 != d6.body.serialize())
# C10 doc clone after edit
d7 = Document('text'); d7.body.append(Paragraph('EDIT')); c = d7.clone
t('clone has edit', lambda: 'EDIT' in c.body.serialize())
# C18 duration garbage
from odfdo.datatype import Duration
t('Duration garbage', lambda: Duration.decode('PT1Q2S'))
t('Duration garbage2', lambda: Duration.decode('PXYZ'))
# C08 traverse live
tb = Table('t', width=2, height=2); r = next(tb.traverse()); r.set_value(0,'LIVE'); t('traverse live', lambda: tb.get_value((0,0)))
# C01 delete_cell on repeated row
tb = Table('t'); tb.append_row(Row(3, repeated=3)); tb.set_value((0,0),'a');
tb2 = Table('t'); row=Row(); row.set_values([1,2,3]); row.repeated=3; tb2.append_row(row); tb2.delete_cell((0,1)); t('delete_cell rep', lambda: tb2.get_values())
tb3 = Table('t'); row=Row(); row.set_values([1,2,3]); row.repeated=3; tb3.append_row(row); tb3.append_cell(1, Cell(9)); t('append_cell rep', lambda: (tb3.get_values(), tb3.size))
