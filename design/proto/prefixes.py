import ast, pathlib, re
SRC = pathlib.Path('/repo/src/odfdo')
trees = {str(p.relative_to(SRC)): ast.parse(p.read_text()) for p in sorted(SRC.rglob('*.py'))}
# ODF_NAMESPACES keys
ns=set()
for n in ast.walk(trees['element.py']):
    if isinstance(n, ast.Assign) and getattr(n.targets[0],'id','')=='ODF_NAMESPACES':
        ns={k.value for k in n.value.keys}
print(len(ns))
Q = re.compile(r'^([a-z][a-z0-9]*):([A-Za-z][\w\-]*)$')
cnt=0; bad=[]
ATTR_CALLS={'get_attribute','get_attribute_string','get_attribute_integer','set_attribute','del_attribute','set_style_attribute','from_tag','_get_lxml_tag','_get_lxml_tag_or_name','PropDef'}
for m,t in trees.items():
    for n in ast.walk(t):
        consts=[]
        if isinstance(n, ast.Call):
            nm = n.func.attr if isinstance(n.func, ast.Attribute) else getattr(n.func,'id','')
            if nm in ATTR_CALLS:
                for a in n.args[:2]:
                    if isinstance(a, ast.Constant) and isinstance(a.value,str): consts.append(a)
        if isinstance(n, ast.Assign) and isinstance(n.targets[0], ast.Name) and n.targets[0].id=='_tag' and isinstance(n.value, ast.Constant):
            consts.append(n.value)
        for c in consts:
            mm=Q.match(c.value)
            if mm:
                cnt+=1
                if mm.group(1) not in ns: bad.append((m,c.lineno,c.value))
print('checked', cnt, 'bad', bad)
