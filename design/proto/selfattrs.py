import ast, pathlib, collections
SRC = pathlib.Path('/repo/src/odfdo')
trees = {str(p.relative_to(SRC)): ast.parse(p.read_text()) for p in sorted(SRC.rglob('*.py')) if 'scripts' not in p.parts}
classes={}
for m,t in trees.items():
    for n in t.body:
        if isinstance(n, ast.ClassDef): classes[n.name]=(n,[ast.unparse(b).split('.')[-1] for b in n.bases],m)
def mro(c, seen=None):
    seen = seen if seen is not None else []
    if c in seen or c not in classes: return seen
    seen.append(c)
    for b in classes[c][1]: mro(b, seen)
    return seen
subs=collections.defaultdict(set)
for c in classes:
    for k in mro(c): subs[k].add(c)
def members(c):
    out=set()
    node=classes[c][0]
    for n in node.body:
        if isinstance(n, ast.FunctionDef): out.add(n.name)
        if isinstance(n,(ast.Assign,ast.AnnAssign)):
            for tg in (n.targets if isinstance(n, ast.Assign) else [n.target]):
                if isinstance(tg, ast.Name): out.add(tg.id)
                if getattr(tg,'id','')=='_properties' and n.value is not None:
                    for x in ast.walk(n.value):
                        if isinstance(x, ast.Call) and getattr(x.func,'id','')=='PropDef': out.add(x.args[0].value)
    # instance attrs assigned anywhere in class
    for n in ast.walk(node):
        if isinstance(n,(ast.Assign,ast.AnnAssign,ast.AugAssign)):
            for tg in (n.targets if isinstance(n, ast.Assign) else [n.target]):
                for t in ([tg] if not isinstance(tg, ast.Tuple) else tg.elts):
                    if isinstance(t, ast.Attribute) and isinstance(t.value, ast.Name) and t.value.id=='self': out.add(t.attr)
    return out
MEM={c:members(c) for c in classes}
def visible(c):
    # members visible on self in class c: own MRO + (for mixins) all subclasses' MROs
    out=set()
    for k in mro(c): out|=MEM[k]
    for s in subs[c]:
        for k in mro(s): out|=MEM[k]
    return out
BUILTIN={'__class__','__dict__','__doc__','__module__'}
for c,(node,b,m) in classes.items():
    vis=visible(c)
    for f in [x for x in node.body if isinstance(x, ast.FunctionDef)]:
        for n in ast.walk(f):
            if isinstance(n, ast.Attribute) and isinstance(n.value, ast.Name) and n.value.id=='self' and isinstance(n.ctx, ast.Load):
                a=n.attr
                if a.startswith('_'+c+'__') or a.startswith('__'): continue
                if a.startswith('_Element__'): continue
                if a not in vis and a not in BUILTIN:
                    print(f"UNRESOLVED-READ {m}:{n.lineno} {c}.{f.name}: self.{a}")
# dead stores: self.attr assigned (non-property) but never read anywhere in package
reads=collections.Counter()
for m,t in trees.items():
    for n in ast.walk(t):
        if isinstance(n, ast.Attribute) and isinstance(n.ctx, ast.Load): reads[n.attr]+=1
    for n in ast.walk(t):
        if isinstance(n, ast.Call) and getattr(n.func,'id','') in ('getattr','hasattr') and len(n.args)>=2 and isinstance(n.args[1], ast.Constant): reads[n.args[1].value]+=1
for c,(node,b,m) in classes.items():
    for n in ast.walk(node):
        if isinstance(n, ast.Assign):
            for tg in n.targets:
                if isinstance(tg, ast.Attribute) and isinstance(tg.value, ast.Name) and tg.value.id=='self':
                    if reads[tg.attr]==0:
                        print(f"DEAD-STORE {m}:{n.lineno} {c}: self.{tg.attr} = {ast.unparse(n.value)[:40]}")
