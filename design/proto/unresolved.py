import ast, pathlib, collections
SRC = pathlib.Path('/repo/src/odfdo')
trees = {str(p.relative_to(SRC)): ast.parse(p.read_text()) for p in sorted(SRC.rglob('*.py')) if 'scripts' not in p.parts}
classes={}
for m,t in trees.items():
    for n in t.body:
        if isinstance(n, ast.ClassDef): classes[n.name]=(n,[ast.unparse(b).split('.')[-1] for b in n.bases],m)
def mro(c, seen=None):
    seen = seen if seen is not None else []
    if c in seen or c not in classes: return seen
    seen.append(c)
    for b in classes[c][1]: mro(b, seen)
    return seen
subs=collections.defaultdict(set)
for c in classes:
    for k in mro(c): subs[k].add(c)
def members(c):
    out=set(); node=classes[c][0]
    for n in node.body:
        if isinstance(n, ast.FunctionDef): out.add(n.name)
        if isinstance(n,(ast.Assign,ast.AnnAssign)):
            for tg in (n.targets if isinstance(n, ast.Assign) else [n.target]):
                if isinstance(tg, ast.Name): out.add(tg.id)
            v = n.value
            tg = n.targets[0] if isinstance(n, ast.Assign) else n.target
            if getattr(tg,'id','')=='_properties' and v is not None:
                for x in ast.walk(v):
                    if isinstance(x, ast.Call) and getattr(x.func,'id','')=='PropDef': out.add(x.args[0].value)
    for n in ast.walk(node):
        if isinstance(n,(ast.Assign,ast.AnnAssign,ast.AugAssign)):
            for tg in (n.targets if isinstance(n, ast.Assign) else [n.target]):
                for t in ([tg] if not isinstance(tg, ast.Tuple) else tg.elts):
                    if isinstance(t, ast.Attribute) and isinstance(t.value, ast.Name) and t.value.id=='self': out.add(t.attr)
    return out
MEM={c:members(c) for c in classes}
OBJ={'__class__','__dict__','__doc__','__module__','__init__','__new__','__repr__','__str__'}
cnt=0
for c,(node,b,m) in classes.items():
    # candidate visible sets: for each concrete class that includes c in its MRO
    concrete = subs[c]
    for f in [x for x in node.body if isinstance(x, ast.FunctionDef)]:
        for n in ast.walk(f):
            if isinstance(n, ast.Call) and isinstance(n.func, ast.Attribute) and isinstance(n.func.value, ast.Name) and n.func.value.id=='self':
                a=n.func.attr; cnt+=1
                if a.startswith('_Element__'): a = a.replace('_Element','',1)
                if a.startswith('__') and not a.endswith('__'):
                    a2 = a  # private within class
                    if a2 in MEM[c] or ('_'+c+a2) in MEM[c]: continue
                    if 'Element' in mro(c) and a2 in MEM['Element']: continue
                # resolved if for EVERY concrete class the member exists? use ANY-missing
                missing=[k for k in concrete if not any(a in MEM[x] for x in mro(k)) and a not in OBJ]
                if missing and len(missing)==len(concrete):
                    print(f"UNRESOLVED-CALL {m}:{n.lineno} {c}.{f.name}: self.{a}()  (no class in {sorted(concrete)[:3]} defines it)")
print('self-calls checked', cnt)
