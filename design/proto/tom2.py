"""Prototype TOM: table object model abstract interpreter (structured AST walk).
Checks: R01a (row typestate), R02a/b (cache restoration, wrapper coherence), R07b (width sync), R08a (escape).
"""
import ast, copy, pathlib, sys, collections
SRC = pathlib.Path(sys.argv[1] if len(sys.argv) > 1 else '/repo/src/odfdo')
table_tree = ast.parse((SRC/'table.py').read_text())
row_tree = ast.parse((SRC/'row.py').read_text())
Table = [n for n in table_tree.body if isinstance(n, ast.ClassDef) and n.name == 'Table'][0]
methods = {f.name: f for f in Table.body if isinstance(f, ast.FunctionDef)}
# property setters overwrite getters of same name in dict; keep both
allf = [f for f in Table.body if isinstance(f, ast.FunctionDef)]

ROW_CELL_MUT = {'set_cell','set_value','set_values','set_cells','insert_cell','append_cell','delete_cell','extend_cells','rstrip','clear','force_width'}
OWN, FOREIGN, DETACHED, CLONEDEP, EXP = 'OWN','FOREIGN','DETACHED','CLONEDEP','EXP'
MAYBE, UNREP = 'MAYBE','UNREP'

class W:  # wrapper abstract value
    def __init__(s, cls, prov, rep, origin='new', ykey=None):
        s.cls=cls; s.prov=prov; s.rep=rep; s.origin=origin; s.mutated=False; s.synced=True; s.ykey=ykey; s.allrows=False
    def copy(s):
        c = W(s.cls,s.prov,s.rep,s.origin,s.ykey); c.mutated=s.mutated; c.synced=s.synced; c.allrows=s.allrows; return c
    def key(s): return (s.cls,s.prov,s.rep,s.origin,s.mutated,s.synced,s.allrows)
    def __repr__(s): return f"<{s.cls} {s.prov} {s.rep} mut={s.mutated} synced={s.synced}>"

def join_w(a,b):
    if a is None or b is None: return a or b
    if not isinstance(a,W) or not isinstance(b,W): return a if a==b else None
    c=a.copy()
    if a.prov!=b.prov: c.prov = FOREIGN if FOREIGN in (a.prov,b.prov) else (OWN if OWN in (a.prov,b.prov) else a.prov)
    if a.rep!=b.rep: c.rep=MAYBE
    c.mutated = a.mutated or b.mutated
    c.synced = a.synced and b.synced
    return c

class State:
    def __init__(s):
        s.vars={}           # name -> W | ('repcount', varname) | other
        s.cache={'rows_map':'CLEAN','rows_idx':'POP','cols_map':'CLEAN','cols_idx':'POP'}
        s.pending_append=None
        s.dead=False
    def copy(s):
        c=State(); c.vars={k:(v.copy() if isinstance(v,W) else v) for k,v in s.vars.items()}; c.cache=dict(s.cache); c.pending_append=s.pending_append; c.dead=s.dead; return c
def join(a,b):
    if a.dead: return b.copy()
    if b.dead: return a.copy()
    c=State()
    for k in set(a.vars)|set(b.vars):
        va,vb=a.vars.get(k),b.vars.get(k)
        if isinstance(va,W) or isinstance(vb,W): 
            j=join_w(va if isinstance(va,W) else None, vb if isinstance(vb,W) else None)
            if j: c.vars[k]=j
        elif va==vb and va is not None: c.vars[k]=va
    for k in a.cache:
        vs={a.cache[k],b.cache[k]}
        c.cache[k]='DIRTY' if 'DIRTY' in vs else ('STALE' if 'STALE' in vs else ('POP' if 'POP' in vs else ('EMPTY' if 'EMPTY' in vs else 'CLEAN')))
    c.pending_append = a.pending_append or b.pending_append
    return c

findings=[]
def report(rule, fn, node, msg):
    f=(rule, fn, getattr(node,'lineno',0), msg)
    if f not in findings: findings.append(f)

# summaries of Table self-methods: effect on cache at exit, width-sync provided for arg, returns
SUMMARY = {}
COPY_GETTERS = {'get_cell','get_row','get_cells','cells','get_rows','rows','traverse','get_column','get_columns','columns','traverse_columns','get_column_cells'}

def kw(call, name, pos=None, default=None):
    for k in call.keywords:
        if k.arg==name: return k.value
    if pos is not None and len(call.args)>pos: return call.args[pos]
    return default
def const(e):
    return e.value if isinstance(e, ast.Constant) else '?'

class Interp:
    guard_empty_cols=False
    def __init__(s, fn):
        s.fn=fn; s.name=fn.name; s.exits=[]; s.loopctx=[]
        s.params=[a.arg for a in fn.args.args]
    # ---- expression evaluation to abstract wrapper
    def ev(s, e, st):
        if isinstance(e, ast.Name): 
            v=st.vars.get(e.id); return v if isinstance(v,W) else None
        if isinstance(e, ast.Attribute):
            if e.attr=='clone':
                b=s.ev(e.value, st)
                if b: c=b.copy(); c.prov=DETACHED; c.origin='cloned' if b.origin in('fetched','cloned') else b.origin; c.mutated=False; c.allrows=False; return c
            return None
        if isinstance(e, ast.Call):
            f=e.func
            if isinstance(f, ast.Name):
                if f.id=='Row': 
                    rep = MAYBE if kw(e,'repeated',1) is not None else UNREP
                    return W('Row',DETACHED,rep,'new')
                if f.id=='Cell': return W('Cell',DETACHED,MAYBE if kw(e,'repeated') is not None else UNREP,'new')
                if f.id=='Column': return W('Column',DETACHED,MAYBE,'new')
                if f.id in ('set_item_in_vault','insert_item_in_vault'):
                    return W('Row',OWN,MAYBE,'vault')
                if f.id=='next' and e.args: return None
            if isinstance(f, ast.Attribute) and isinstance(f.value, ast.Name) and f.value.id=='self':
                m=f.attr
                if m=='_get_row2_base':
                    st.cache['rows_idx']='POP' if st.cache['rows_idx']=='EMPTY' else st.cache['rows_idx']
                    return W('Row',OWN,MAYBE,'fetched')
                if m in ('_get_row2','get_row'):
                    c=kw(e,'clone',1, ast.Constant(True))
                    if isinstance(c, ast.Constant): return W('Row', DETACHED if c.value else OWN, MAYBE, 'fetched' if not c.value else 'cloned')
                    return W('Row',CLONEDEP,MAYBE,'fetched')
                if m in ('set_row','append_row','insert_row'): return W('Row',OWN,MAYBE,'vault')
                if m=='get_cell': 
                    c=kw(e,'clone',1, ast.Constant(True))
                    if isinstance(c, ast.Constant): return W('Cell', DETACHED if c.value else OWN, MAYBE,'fetched')
                    return W('Cell',CLONEDEP,MAYBE,'fetched')
                if m=='_get_element_idx2': return W('Column',FOREIGN,MAYBE,'fetched')
            if isinstance(f, ast.Attribute):
                b=s.ev(f.value, st)
                if b and b.cls=='Row' and f.attr in ('get_cell','_get_cell2'):
                    c=kw(e,'clone',1, ast.Constant(True))
                    if isinstance(c, ast.Constant): return W('Cell', DETACHED if c.value else OWN, MAYBE,'fetched')
                    return W('Cell',CLONEDEP,MAYBE,'fetched')
                if b and b.cls=='Row' and f.attr in ('set_cell','insert_cell','append_cell'):
                    return W('Cell',OWN,MAYBE,'vault')
        return None
    def iter_elem(s, it, st):
        # abstract value of loop variable
        t=it
        while isinstance(t, ast.Call) and isinstance(t.func, ast.Name) and t.func.id in ('reversed','enumerate','list','iter'):
            t=t.args[0]
        if isinstance(t, ast.Call) and isinstance(t.func, ast.Attribute) and isinstance(t.func.value, ast.Name) and t.func.value.id=='self':
            m=t.func.attr
            if m=='_get_rows': w=W('Row',FOREIGN,MAYBE,'fetched'); w.allrows=True; return w
            if m in ('traverse',): return W('Row',EXP,UNREP,'fetched')
            if m=='_yield_odf_rows': return W('Row',EXP,UNREP,'fetched')
            if m=='_get_columns': w=W('Column',FOREIGN,MAYBE,'fetched'); return w
        if isinstance(t, ast.Name) and t.id=='columns': return W('Column',FOREIGN,MAYBE,'fetched')
        return None
    # ---- statements
    def run(s, body, st):
        for stmt in body:
            if st.dead: break
            st = s.stmt(stmt, st)
        return st
    def refine(s, test, st, branch):
        st=st.copy()
        # r > 1 / r >= 2 where r = repcount of v
        if isinstance(test, ast.Compare) and isinstance(test.left, ast.Name) and len(test.ops)==1:
            v=st.vars.get(test.left.id)
            if isinstance(v, tuple) and v[0]=='repcount':
                tgt=st.vars.get(v[1])
                c=test.comparators[0]
                if isinstance(tgt,W) and isinstance(c, ast.Constant):
                    gt = (isinstance(test.ops[0], ast.Gt) and c.value==1) or (isinstance(test.ops[0], ast.GtE) and c.value==2)
                    if gt and not branch: tgt.rep=UNREP
        return st
    def stmt(s, n, st):
        if isinstance(n, ast.If):
            ge = ast.unparse(n.test) in ('not self._get_columns()','not self._cmap')
            old=s.guard_empty_cols; s.guard_empty_cols = old or ge
            a=s.run(n.body, s.refine(n.test, st, True)); s.guard_empty_cols=old; b=s.run(n.orelse, s.refine(n.test, st, False))
            # idiom: if <repcount test>: v.repeated = None  => v UNREP after
            j=join(a,b)
            if isinstance(n.test, ast.Compare) and isinstance(n.test.left, ast.Name):
                v=st.vars.get(n.test.left.id)
                if isinstance(v,tuple) and v[0]=='repcount' and isinstance(j.vars.get(v[1]),W):
                    aw=a.vars.get(v[1]); bw=b.vars.get(v[1])
                    if isinstance(aw,W) and isinstance(bw,W) and aw.rep==UNREP and bw.rep==UNREP: j.vars[v[1]].rep=UNREP
            return j
        if isinstance(n, (ast.For,)):
            w=s.iter_elem(n.iter, st)
            cur=st.copy()
            for _ in range(2):
                inner=cur.copy()
                tgt=n.target
                names=[tgt] if isinstance(tgt, ast.Name) else [e for e in getattr(tgt,'elts',[]) if isinstance(e, ast.Name)]
                if w is not None and names:
                    inner.vars[names[-1].id]=w.copy()
                s.loopctx.append(w)
                out=s.run(n.body, inner)
                s.loopctx.pop()
                out.dead=False
                cur=join(cur,out)
            return s.run(n.orelse, cur) if n.orelse else cur
        if isinstance(n, ast.While):
            cur=st.copy()
            for _ in range(2):
                out=s.run(n.body, cur.copy()); out.dead=False; cur=join(cur,out)
            return cur
        if isinstance(n, ast.With):
            return s.run(n.body, st)
        if isinstance(n, ast.Try):
            a=s.run(n.body, st.copy())
            outs=[a]+[s.run(h.body, st.copy()) for h in n.handlers]
            r=outs[0]
            for o in outs[1:]: r=join(r,o)
            return s.run(n.finalbody, r) if n.finalbody else r
        if isinstance(n, ast.Return):
            st=st.copy()
            if n.value is not None: s.calls_in(n.value, st, n)
            s.on_exit(st, n, n.value); st.dead=True; return st
        if isinstance(n, ast.Raise):
            st=st.copy(); st.dead=True; return st
        if isinstance(n, ast.Expr) and isinstance(n.value, (ast.Yield,)):
            s.on_yield(st, n, n.value.value); return st
        if isinstance(n, ast.Assign):
            st=st.copy()
            s.calls_in(n.value, st, n)
            val=s.ev(n.value, st)
            for t in n.targets:
                if isinstance(t, ast.Name):
                    if val is not None: st.vars[t.id]=val
                    else:
                        # repcount idiom
                        e=n.value
                        if isinstance(e, ast.BoolOp) and isinstance(e.op, ast.Or) and isinstance(e.values[0], ast.Attribute) and e.values[0].attr=='repeated' and isinstance(e.values[0].value, ast.Name):
                            st.vars[t.id]=('repcount', e.values[0].value.id)
                        else:
                            st.vars.pop(t.id, None)
                elif isinstance(t, ast.Attribute):
                    s.attr_store(t, n.value, st, n)
                elif isinstance(t, ast.Subscript):
                    s.sub_store(t, n.value, st, n)
            return st
        if isinstance(n, ast.Expr):
            st=st.copy(); s.calls_in(n.value, st, n); return st
        if isinstance(n, (ast.AugAssign, ast.AnnAssign)):
            st=st.copy()
            if getattr(n,'value',None) is not None: s.calls_in(n.value, st, n)
            return st
        return st
    def attr_store(s, t, value, st, n):
        base=s.ev(t.value, st)
        if isinstance(t.value, ast.Name) and t.value.id=='self':
            if t.attr in ('_tmap',) : st.cache['rows_map']='CLEAN'
            if t.attr in ('_cmap',) :
                st.cache['cols_map']='CLEAN'
                if 'insert_map_once(self._cmap, len(self._cmap)' in ast.unparse(value) and st.cache['cols_idx']=='STALE': st.cache['cols_idx']='POP'
            return
        if base is not None and t.attr=='repeated':
            if isinstance(value, ast.Constant) and value.value is None: base.rep=UNREP
            if base.prov in (OWN,FOREIGN,EXP) :
                # setter on live item: structural (repeat change); setter recomputes a fresh parent's cache only
                if base.cls=='Row': st.cache['rows_map']='DIRTY'
                if base.cls=='Column': st.cache['cols_map']='DIRTY'
    def sub_store(s, t, value, st, n):
        # self._indexes["_tmap"] = {}
        if isinstance(t.value, ast.Attribute) and t.value.attr=='_indexes' and isinstance(t.slice, ast.Constant):
            if t.slice.value=='_tmap': st.cache['rows_idx']='EMPTY'
            if t.slice.value=='_cmap': st.cache['cols_idx']='EMPTY'
    def calls_in(s, e, st, stmt):
        for c in [x for x in ast.walk(e) if isinstance(x, ast.Call)][::-1]:
            s.call(c, st, stmt)
    def call(s, c, st, stmt):
        f=c.func
        if isinstance(f, ast.Name):
            if f.id in ('set_item_in_vault','insert_item_in_vault','delete_item_in_vault'):
                mapname = const(c.args[-1]) if c.args else '?'
                for k in c.keywords: pass
                names=[const(a) for a in c.args if isinstance(a, ast.Constant)]
                if '_tmap' in names: st.cache['rows_map']='CLEAN'; st.cache['rows_idx']='EMPTY'
                if '_cmap' in names: st.cache['cols_map']='CLEAN'; st.cache['cols_idx']='EMPTY'
            return
        if not isinstance(f, ast.Attribute): return
        m=f.attr
        recv=f.value
        if isinstance(recv, ast.Name) and recv.id=='self':
            args=[s.ev(a, st) for a in c.args]
            if m in ('_append','insert','extend','delete'):
                a0=args[0] if args else None
                cls = a0.cls if a0 else None
                if m=='extend': cls='Row'
                if cls=='Row': st.cache['rows_map']='DIRTY'; 
                if cls=='Column': st.cache['cols_map']='DIRTY'
                if m in ('insert','delete') and cls=='Row' and st.cache['rows_idx']!='EMPTY': st.cache['rows_idx']='STALE'
                if m in ('insert','delete') and cls=='Column' and st.cache['cols_idx']!='EMPTY' and not s.guard_empty_cols: st.cache['cols_idx']='STALE'
                if cls=='Row' and a0 is not None and m=='_append': a0.prov=OWN
                return
            if m=='clear': 
                for k in st.cache: st.cache[k]='CLEAN' if k.endswith('map') else 'EMPTY'
                return
            if m=='_compute_table_cache': st.cache['rows_map']='CLEAN'; st.cache['cols_map']='CLEAN'; return
            if m=='_update_width':
                a0=args[0] if args else None
                if a0 is not None: a0.synced=True
                # may append a column via append_column (self-contained)
                return
            if m in ('set_row','append_row','insert_row'):
                idx = 1 if m!='append_row' else 0
                a=kw(c,'row',idx)
                w=s.ev(a, st) if a is not None else None
                if w is not None:
                    if m=='set_row' and w.rep==MAYBE and w.origin in ('cloned','fetched') and w.mutated:
                        report('R01a-push-repeated', s.name, c, f"row fetched from the table is pushed back with set_row while possibly repeated: {ast.unparse(c)}")
                    w.mutated=False; w.synced=True
                st.cache['rows_map']='CLEAN' if st.cache['rows_map']=='CLEAN' else st.cache['rows_map']
                if m=='set_row': st.cache['rows_idx']='EMPTY'
                return
            if m in SUMMARY:
                for k,v in SUMMARY[m].items():
                    if v in ('DIRTY','STALE'):
                        if not (v=='STALE' and st.cache[k]=='EMPTY'): st.cache[k]=v
                    elif v=='CLEANS': st.cache[k]='CLEAN' if k.endswith('map') else 'EMPTY'
                return
            return
        w=s.ev(recv, st)
        # X.parent.delete(x)
        if m=='delete' and isinstance(recv, ast.Attribute) and recv.attr=='parent':
            b=s.ev(recv.value, st)
            if b is not None:
                if b.cls=='Row':
                    st.cache['rows_map']='DIRTY'
                    if st.cache['rows_idx']!='EMPTY': st.cache['rows_idx']='STALE'
                if b.cls=='Column':
                    st.cache['cols_map']='DIRTY'
                    if st.cache['cols_idx']!='EMPTY': st.cache['cols_idx']='STALE'
            return
        if w is None: return
        if m=='_set_repeated' and w.prov in (OWN,FOREIGN,EXP):
            if w.cls=='Row': st.cache['rows_map']='DIRTY'
            if w.cls=='Column': st.cache['cols_map']='DIRTY'
            return
        if w.cls=='Row' and m in ROW_CELL_MUT:
            if w.rep==MAYBE and not w.allrows:
                report('R01a-edit-repeated', s.name, c, f"cells of a possibly repeated row are edited: {ast.unparse(c)[:60]} (row is {w.prov})")
            w.mutated=True
            if m not in ('delete_cell','rstrip','force_width','clear'): w.synced=False
            if w.prov in (FOREIGN,) and st.cache['rows_idx']!='EMPTY':
                st.cache['rows_idx']='STALE'
            return
    def on_exit(s, st, node, value=None):
        s.exits.append((st.copy(), node))
        for k,v in st.cache.items():
            if v in ('DIRTY','STALE'):
                report('R02-exit-dirty', s.name, node, f"{k} not restored at exit")
        for name,w in st.vars.items():
            if isinstance(w,W) and w.cls=='Row' and w.mutated and w.prov==DETACHED and w.origin in ('cloned','new'):
                report('R01a-lost-update', s.name, node, f"detached row '{name}' edited but not pushed back")
            if isinstance(w,W) and w.cls=='Row' and not w.synced and w.prov in (OWN,):
                report('R07b-width', s.name, node, f"row '{name}' may have grown without width sync")
        if value is not None and s.name in COPY_GETTERS:
            w=s.ev(value, st)
            if w is not None and w.prov in (OWN,FOREIGN,EXP):
                report('R08a-escape', s.name, node, f"returns live {w.cls} ({w.prov})")
    def on_yield(s, st, node, value):
        w=s.ev(value, st) if value is not None else None
        if w is not None and w.prov in (OWN,FOREIGN) and (s.name in COPY_GETTERS or s.name=='_yield_odf_rows'):
            report('R08a-escape', s.name, node, f"yields live {w.cls} ({w.prov})")
    def go(s):
        st=State()
        end=s.run(s.fn.body, st)
        if not end.dead: s.on_exit(end, s.fn)
        return s

# helper summaries first (private helpers that may exit dirty by design)
for h in ('_optimize_width_trim_rows','_optimize_width_length','_optimize_width_rstrip_rows','_optimize_width_adapt_columns'):
    it=Interp(methods[h]); before=len(findings); it.go()
    # convert exit-dirty findings into summary
    summ={}
    for st,_ in it.exits:
        for k,v in st.cache.items():
            if v in ('DIRTY','STALE'): summ[k]=v
    # cleans: assigned CLEAN explicitly? approximate: if method calls _compute_table_cache / sets indexes
    src=ast.unparse(methods[h])
    if '_compute_table_cache' in src:
        summ['rows_map']='CLEANS'; summ['cols_map']='CLEANS'
    if "_indexes['_tmap'] = {}" in src: summ['rows_idx']='CLEANS'
    if "_indexes['_cmap'] = {}" in src: summ['cols_idx']='CLEANS'
    SUMMARY[h]=summ
    del findings[before:]
for f in allf:
    if f.name.startswith('_optimize_width_'): continue
    Interp(f).go()
for x in findings: print(x)
print('methods analysed', len(allf), 'findings', len(findings))
