import ast, pathlib, sys
SRC = pathlib.Path('/repo/src/odfdo')
T, F, U = 'T','F','U'
def truth(test, p, prov):
    # abstract truth of test given param p provided(prov True) or absent (prov False: p is None/False/""/default)
    if isinstance(test, ast.Name):
        if test.id == p: return T if prov else F
        return U
    if isinstance(test, ast.Attribute) and isinstance(test.value, ast.Name) and test.value.id=='self' and test.attr=='_do_init':
        return T
    if isinstance(test, ast.UnaryOp) and isinstance(test.op, ast.Not):
        t = truth(test.operand, p, prov)
        return {T:F,F:T,U:U}[t]
    if isinstance(test, ast.Compare) and len(test.ops)==1 and isinstance(test.left, ast.Name) and test.left.id==p:
        c = test.comparators[0]
        if isinstance(c, ast.Constant) and c.value is None:
            if isinstance(test.ops[0], ast.Is): return F if prov else T   # assumes absent == None
            if isinstance(test.ops[0], ast.IsNot): return T if prov else F
        return U
    if isinstance(test, ast.BoolOp):
        vals = [truth(v, p, prov) for v in test.values]
        if isinstance(test.op, ast.And):
            if F in vals: return F
            if all(v==T for v in vals): return T
            return U
        else:
            if T in vals: return T
            if all(v==F for v in vals): return F
            return U
    return U
def is_effect(stmt):
    # statement with an effect on self or kwargs
    for n in ast.walk(stmt):
        if isinstance(n, (ast.Assign, ast.AugAssign, ast.AnnAssign)):
            tgts = n.targets if isinstance(n, ast.Assign) else [n.target]
            for t in tgts:
                for m in ast.walk(t):
                    if isinstance(m, ast.Name) and m.id in ('self','kwargs'): return True
        if isinstance(n, ast.Call):
            f = n.func
            if isinstance(f, ast.Attribute):
                base = f.value
                while isinstance(base, ast.Attribute): base = base.value
                if isinstance(base, ast.Name) and base.id=='self': return True
                if isinstance(base, ast.Call) and isinstance(base.func, ast.Name) and base.func.id=='super': return True
    return False
def run(body, p, prov, tainted, out):
    for s in body:
        if isinstance(s, ast.If):
            t = truth(s.test, p, prov)
            if t in (T,U): run(s.body, p, prov, tainted, out)
            if t in (F,U): run(s.orelse, p, prov, tainted, out)
            continue
        if isinstance(s, (ast.For, ast.While, ast.With, ast.Try)):
            # record header uses then recurse
            hdr = s.iter if isinstance(s, ast.For) else (s.test if isinstance(s, ast.While) else None)
            for blk in ('body','orelse','finalbody'):
                run(getattr(s, blk, []) or [], p, prov, tainted, out)
            if isinstance(s, ast.Try):
                for h in s.handlers: run(h.body, p, prov, tainted, out)
            if hdr is not None and any(isinstance(n, ast.Name) and n.id in tainted for n in ast.walk(hdr)):
                out.append(('hdr', s))
            continue
        loads = {n.id for n in ast.walk(s) if isinstance(n, ast.Name) and isinstance(n.ctx, ast.Load)}
        uses = bool(loads & tainted)
        if isinstance(s, ast.Assign) and uses:
            for t in s.targets:
                if isinstance(t, ast.Name): tainted.add(t.id)
                if isinstance(t, ast.Tuple):
                    for e in t.elts:
                        if isinstance(e, ast.Name): tainted.add(e.id)
        if is_effect(s) or isinstance(s,(ast.Raise,)):
            out.append((uses, s))
for path in sorted(SRC.rglob('*.py')):
    tree = ast.parse(path.read_text())
    for c in [n for n in ast.walk(tree) if isinstance(n, ast.ClassDef)]:
        for f in c.body:
            if isinstance(f, ast.FunctionDef) and f.name=='__init__':
                params = [a.arg for a in f.args.args[1:]+f.args.kwonlyargs]
                for p in params:
                    e1=[]; run(f.body, p, True, {p}, e1)
                    e0=[]; run(f.body, p, False, {p}, e0)
                    s1 = {id(s) for u,s in e1}; s0={id(s) for u,s in e0}
                    uses1 = any(u is True or u=='hdr' for u,s in e1)
                    if not uses1 and not (s1 - s0):
                        print(f"DEAD-WHEN-PROVIDED {path.relative_to(SRC)}:{f.lineno} {c.name}.__init__({p})")
