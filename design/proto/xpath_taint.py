import ast, pathlib, re
SRC = pathlib.Path('/repo/src/odfdo')
def quoted_ctx(parts, i):
    # parts: list of JoinedStr values; i index of FormattedValue
    prev = parts[i-1] if i>0 else None
    nxt = parts[i+1] if i+1 < len(parts) else None
    p = prev.value if isinstance(prev, ast.Constant) and isinstance(prev.value,str) else ''
    n = nxt.value if isinstance(nxt, ast.Constant) and isinstance(nxt.value,str) else ''
    if p and n and p[-1] in '"\'' and n[0]==p[-1]:
        return True
    return False
def flat(js, parent_concat):
    return js.values
for path in sorted(SRC.rglob('*.py')):
    tree = ast.parse(path.read_text())
    # map node->function
    for fn in [n for n in ast.walk(tree) if isinstance(n,(ast.FunctionDef,))]:
        for n in ast.walk(fn):
            if isinstance(n, ast.JoinedStr):
                for i,v in enumerate(n.values):
                    if isinstance(v, ast.FormattedValue) and quoted_ctx(n.values,i):
                        before = n.values[i-1].value[-30:]
                        print(f"{path.relative_to(SRC)}:{n.lineno} {fn.name}: ...{before!r}{{{ast.unparse(v.value)}}}")
