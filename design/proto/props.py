import ast, pathlib
SRC = pathlib.Path('/repo/src/odfdo')
for p in sorted(SRC.rglob('*.py')):
    t = ast.parse(p.read_text())
    defined = {n.value.func.value.id for n in t.body if isinstance(n, ast.Expr) and isinstance(n.value, ast.Call) and isinstance(n.value.func, ast.Attribute) and n.value.func.attr=='_define_attribut_property' and isinstance(n.value.func.value, ast.Name)}
    for c in [n for n in t.body if isinstance(n, ast.ClassDef)]:
        k=0; names=[]
        for n in c.body:
            if isinstance(n,(ast.Assign,ast.AnnAssign)):
                tg = n.targets[0] if isinstance(n, ast.Assign) else n.target
                if getattr(tg,'id','')=='_properties' and n.value is not None:
                    for x in ast.walk(n.value):
                        if isinstance(x, ast.Call) and getattr(x.func,'id','')=='PropDef':
                            k+=1; names.append(x.args[0].value)
        methods={f.name for f in c.body if isinstance(f, ast.FunctionDef)}
        if k and c.name not in defined: print('NO-DEFINE', p.name, c.name, k)
        col = set(names) & methods
        if col: print('COLLIDE', p.name, c.name, col)
        dup = {n for n in names if names.count(n)>1}
        if dup: print('DUP-PROP', p.name, c.name, dup)
