import io, tempfile, os, shutil
from pathlib import Path
from odfdo import *
def t(name, f):
    try: print(name, '=>', f())
    except Exception as e: print(name, 'EXC', type(e).__name__, e)
tmp = tempfile.mkdtemp()
# 1 Container.clone folder
d = Document('text'); d.body.append(Paragraph('x')); d.save(os.path.join(tmp,'a'), packaging='folder')
d2 = Document(os.path.join(tmp,'a.folder'))
c = d2.clone
t('folder clone parts', lambda: (len(d2.get_parts()), len(c.get_parts())))
out = io.BytesIO()
t('folder clone save', lambda: c.save(out))
import zipfile
t('folder clone saved names', lambda: zipfile.ZipFile(out).namelist())
# 2 XmlPart.clone after edit
d3 = Document('text'); d3.body.append(Paragraph('EDITED'))
pc = d3.content.clone
t('xmlpart clone root has edit', lambda: 'EDITED' in pc.root.serialize())
t('xmlpart clone serialize has edit', lambda: b'EDITED' in pc.serialize())
# 3 drawing-page common
d4 = Document('presentation')
nm = d4.insert_style(Style('drawing-page', name='dpX'))
t('drawing-page lookup', lambda: d4.get_style('drawing-page', 'dpX'))
nm = d4.insert_style(Style('drawing-page', name='dpX'))
t('drawing-page dup count', lambda: len(d4.styles.xpath('//style:style[@style:name="dpX"]')))
# 4 existing in other container
d5 = Document('text')
auto = d5.styles.get_element('//office:automatic-styles')
auto.append(Style('paragraph', name='PZ'))
t('insert common when auto exists', lambda: d5.insert_style(Style('paragraph', name='PZ')))
# 5 del_part manifest
d6 = Document('text'); p = d6.add_file(str(Path('/repo/tests/samples/image.png')))
d6.del_part(p)
t('manifest after del_part', lambda: d6.manifest.get_media_type(p))
# 6 traverse_columns partial
tb = Table('t'); tb.append_column(Column(repeated=3)); 
t('cols partial', lambda: [(c.x, c.repeated) for c in tb.get_columns((2,2))])
tb2 = Row(); tb2.append_cell(Cell(1, repeated=3));
t('cells partial', lambda: [(c.x, c.repeated) for c in tb2.get_cells((2,2))])
# 7 NamedRange dot
d7 = Document('spreadsheet'); tbl = Table('a.b'); d7.body.append(tbl); tbl.set_named_range('nr1', 'A1:B2')
nr = d7.body.get_named_range('nr1')
t('nr attr', lambda: nr.get_attribute('table:cell-range-address'))
from odfdo import Element
t('nr reparse', lambda: (Element.from_tag(nr.serialize()).table_name, Element.from_tag(nr.serialize()).crange))
# 8 partial modification
p = Paragraph('hello world'); s0 = p.serialize()
t('bookmark tuple beyond', lambda: p.set_bookmark('b', position=(2, 999)))
t('partial modified', lambda: s0 != p.serialize())
shutil.rmtree(tmp)
