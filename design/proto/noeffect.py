import ast, pathlib
SRC = pathlib.Path('/repo/src/odfdo')
PURE_STR = {'strip','lstrip','rstrip','lower','upper','replace','split','join','format','encode','decode','title','capitalize'}
for p in sorted(SRC.rglob('*.py')):
    t = ast.parse(p.read_text())
    for fn in [n for n in ast.walk(t) if isinstance(n, ast.FunctionDef)]:
        for n in ast.walk(fn):
            if isinstance(n, ast.Expr):
                v=n.value
                if isinstance(v,(ast.Subscript, ast.Attribute, ast.Name, ast.Compare, ast.BinOp)) :
                    print(f"NOEFFECT {p.name}:{n.lineno} {fn.name}: {ast.unparse(v)[:60]}")
                if isinstance(v, ast.Call) and isinstance(v.func, ast.Attribute) and v.func.attr in PURE_STR and isinstance(v.func.value, ast.Name):
                    print(f"DISCARDED {p.name}:{n.lineno} {fn.name}: {ast.unparse(v)[:60]}")
