import ast, pathlib
SRC = pathlib.Path('/repo/src/odfdo')
t = ast.parse((SRC/'table.py').read_text())
Table=[n for n in t.body if isinstance(n, ast.ClassDef) and n.name=='Table'][0]
X,Y='X','Y'
# consumer specs: (callee attr, receiver-is-self?, {argname/pos: axis})
def consumers(call, recv_is_self, recv_is_row):
    f=call.func.attr
    if recv_is_self and f=='traverse': return {'start':Y,'end':Y,0:Y,1:Y}
    if recv_is_self and f=='traverse_columns': return {'start':X,'end':X,0:X,1:X}
    if recv_is_row and f=='traverse': return {'start':X,'end':X,0:X,1:X}
    if f=='increment': return None
    return {}
n_checked=0
for fn in [f for f in Table.body if isinstance(f, ast.FunctionDef)]:
    env={}
    rows=set()
    for n in ast.walk(fn):
        if isinstance(n, ast.Assign) and isinstance(n.targets[0], ast.Tuple) and isinstance(n.value, ast.Call) and isinstance(n.value.func, ast.Attribute) and n.value.func.attr.startswith('_translate_'):
            names=[e.id for e in n.targets[0].elts if isinstance(e, ast.Name)]
            if len(names)==4:
                for nm,ax in zip(names,(X,Y,X,Y)): env[nm]=ax
            elif len(names)==2: 
                for nm,ax in zip(names,(X,Y)): env[nm]=ax
        if isinstance(n, ast.Assign) and isinstance(n.targets[0], ast.Tuple) and isinstance(n.value, ast.Name) and n.value.id in ('coord','digits'):
            names=[e.id for e in n.targets[0].elts if isinstance(e, ast.Name)]
            if len(names)==4:
                for nm,ax in zip(names,(X,Y,X,Y)): env[nm]=ax
            elif len(names)==2 and 'cell' in fn.name or fn.name in ('set_span','del_span'):
                for nm,ax in zip(names,(X,Y)): env[nm]=ax
        if isinstance(n, ast.For) and isinstance(n.iter, ast.Call) and isinstance(n.iter.func, ast.Attribute) and n.iter.func.attr=='traverse' and isinstance(n.target, ast.Name):
            rows.add(n.target.id)
    if not env: continue
    for n in ast.walk(fn):
        if isinstance(n, ast.Call) and isinstance(n.func, ast.Attribute):
            recv=n.func.value
            is_self=isinstance(recv, ast.Name) and recv.id=='self'
            is_row=isinstance(recv, ast.Name) and recv.id in rows|{'row'}
            spec=consumers(n, is_self, is_row)
            if spec:
                for k in n.keywords:
                    if k.arg in spec and isinstance(k.value, ast.Name) and k.value.id in env:
                        n_checked+=1
                        if env[k.value.id]!=spec[k.arg]: print(f"AXIS {fn.name}:{n.lineno} {ast.unparse(n)} : {k.arg}={k.value.id} is {env[k.value.id]}, needs {spec[k.arg]}")
            # row.get_cells(coord=(a,b)) / row.get_values((a,b))
            if is_row and n.func.attr in ('get_cells','get_values'):
                tup = n.args[0] if n.args else next((k.value for k in n.keywords if k.arg=='coord'), None)
                if isinstance(tup, ast.Tuple):
                    for e in tup.elts:
                        if isinstance(e, ast.Name) and e.id in env:
                            n_checked+=1
                            if env[e.id]!=X: print(f"AXIS {fn.name}:{n.lineno} {ast.unparse(n)[:50]}: {e.id} is {env[e.id]} needs X")
        if isinstance(n, ast.Call) and isinstance(n.func, ast.Name) and n.func.id=='increment' and len(n.args)==2 and isinstance(n.args[0], ast.Name):
            v=n.args[0].id; ln=ast.unparse(n.args[1])
            ax = env.get(v) or {'x':X,'z':X,'y':Y,'t':Y}.get(v)
            need = X if 'width' in ln else (Y if 'height' in ln else None)
            if ax and need:
                n_checked+=1
                if ax!=need: print(f"AXIS {fn.name}:{n.lineno} increment({v},{ln})")
print('checked', n_checked)
