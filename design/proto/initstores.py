import ast, pathlib
SRC = pathlib.Path('/repo/src/odfdo')
trees = {str(p.relative_to(SRC)): ast.parse(p.read_text()) for p in sorted(SRC.rglob('*.py'))}
classes={}
for m,t in trees.items():
    for n in t.body:
        if isinstance(n, ast.ClassDef): classes[n.name]=(n,[ast.unparse(b).split('.')[-1] for b in n.bases],m)
def mro(c, seen=None):
    seen = seen or []
    if c in seen or c not in classes: return seen
    seen.append(c)
    for b in classes[c][1]: mro(b, seen)
    return seen
def is_elem(c): return 'Element' in mro(c)
def setters(c):
    out=set()
    for k in mro(c):
        node=classes[k][0]
        for n in node.body:
            if isinstance(n, ast.FunctionDef):
                for d in n.decorator_list:
                    if ast.unparse(d).endswith('.setter'): out.add(n.name)
            if isinstance(n,(ast.Assign,ast.AnnAssign)):
                tg = n.targets[0] if isinstance(n, ast.Assign) else n.target
                if getattr(tg,'id','')=='_properties' and n.value is not None:
                    for x in ast.walk(n.value):
                        if isinstance(x, ast.Call) and getattr(x.func,'id','')=='PropDef': out.add(x.args[0].value)
    return out
for c,(node,b,m) in classes.items():
    if not is_elem(c): continue
    S=setters(c)
    for f in node.body:
        if isinstance(f, ast.FunctionDef) and f.name=='__init__':
            params={a.arg for a in f.args.args[1:]+f.args.kwonlyargs}
            for n in ast.walk(f):
                if isinstance(n, ast.Assign):
                    for t in n.targets:
                        if isinstance(t, ast.Attribute) and isinstance(t.value, ast.Name) and t.value.id=='self':
                            loads={x.id for x in ast.walk(n.value) if isinstance(x, ast.Name)}
                            if t.attr not in S and (loads & params) and not t.attr.startswith('_'):
                                print(f"PY-ATTR {m}:{n.lineno} {c}.__init__: self.{t.attr} = {ast.unparse(n.value)[:40]}")
