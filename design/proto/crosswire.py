import ast, pathlib, collections
SRC = pathlib.Path('/repo/src/odfdo')
trees = {str(p.relative_to(SRC)): ast.parse(p.read_text()) for p in sorted(SRC.rglob('*.py')) if 'scripts' not in p.parts}
classes={}
for m,t in trees.items():
    for n in t.body:
        if isinstance(n, ast.ClassDef): classes[n.name]=(n,[ast.unparse(b).split('.')[-1] for b in n.bases],m)
def mro(c, seen=None):
    seen = seen if seen is not None else []
    if c in seen or c not in classes: return seen
    seen.append(c)
    for b in classes[c][1]: mro(b, seen)
    return seen
def props(c):
    out=set()
    for k in mro(c):
        for n in classes[k][0].body:
            if isinstance(n, ast.FunctionDef):
                for d in n.decorator_list:
                    if ast.unparse(d).endswith('.setter'): out.add(n.name)
            if isinstance(n,(ast.Assign,ast.AnnAssign)):
                tg = n.targets[0] if isinstance(n, ast.Assign) else n.target
                if getattr(tg,'id','')=='_properties' and n.value is not None:
                    for x in ast.walk(n.value):
                        if isinstance(x, ast.Call) and getattr(x.func,'id','')=='PropDef': out.add(x.args[0].value)
    return out
# attribute reads anywhere in package
reads=collections.Counter()
for m,t in trees.items():
    for n in ast.walk(t):
        if isinstance(n, ast.Attribute) and isinstance(n.ctx, ast.Load): reads[n.attr]+=1
for c,(node,b,m) in classes.items():
    if 'Element' not in mro(c): continue
    P=props(c)
    for f in node.body:
        if isinstance(f, ast.FunctionDef) and f.name=='__init__':
            params=[a.arg for a in f.args.args[1:]+f.args.kwonlyargs]
            stores=collections.defaultdict(list)  # attr -> exprs
            for n in ast.walk(f):
                if isinstance(n, ast.Assign):
                    for t in n.targets:
                        if isinstance(t, ast.Attribute) and isinstance(t.value, ast.Name) and t.value.id=='self':
                            stores[t.attr].append(n)
            for attr, ns in stores.items():
                for n in ns:
                    loads={x.id for x in ast.walk(n.value) if isinstance(x, ast.Name)}
                    ps = loads & set(params)
                    # R12g: store of a param into something that is neither property nor read anywhere
                    if ps and attr not in P and reads[attr]==0:
                        print(f"R12g {m}:{n.lineno} {c}: self.{attr} = {ast.unparse(n.value)[:40]} (not a property, never read)")
                    # R12h: cross-wired
                    for p in ps:
                        if p!=attr and p in P and attr in P:
                            own = any(p in {x.id for x in ast.walk(k.value) if isinstance(x, ast.Name)} for k in stores.get(p,[]))
                            if not own:
                                print(f"R12h {m}:{n.lineno} {c}: parameter '{p}' stored into property '{attr}' while property '{p}' is never assigned from it")
