"""Prototype R01b: index-kind typing for element_cached.py vault functions."""
import ast, pathlib, sys
SRC = pathlib.Path(sys.argv[1] if len(sys.argv)>1 else '/repo/src/odfdo')
tree = ast.parse((SRC/'element_cached.py').read_text())
POS,CNT,OIDX,CIDX,INT,MAP,OBJ,NONE = 'POS','CNT','OIDX','CIDX','INT','MAP','OBJ','NONE'
# signatures: name -> (param kinds by name/position, return kind)
SIG = {
 'find_odf_idx': ([MAP,POS], OIDX),
 'insert_map_once': ([MAP,OIDX,CNT], MAP),
 '_erase_map_once': ([MAP,OIDX], MAP),
 'len': ([MAP], OIDX),
}
METH = {  # method name -> (arg kinds, ret)
 '_get_element_idx2': ([OBJ, OIDX], OBJ),
 'index': ([OBJ], CIDX),
 '_set_repeated': ([CNT], NONE),
}
KW = {'insert': {'position': CIDX}}
PARAMS = {'position':POS, 'odf_idx':OIDX, 'repeated':CNT, 'orig_map':MAP, 'cache_map':MAP, 'vault_map':MAP}
findings=[]
def arith(op, a, b, node):
    if INT in (a,b):
        o = b if a==INT else a
        return o
    if isinstance(op, ast.Sub):
        if a==POS and b==POS: return CNT
        if a==POS and b==CNT: return POS
        if a==CNT and b==CNT: return CNT
        if a==OIDX and b==OIDX: return CNT
    if isinstance(op, ast.Add):
        if {a,b}=={POS,CNT}: return POS
        if a==CNT and b==CNT: return CNT
    findings.append((node.lineno, f"arithmetic {a} {type(op).__name__} {b}: {ast.unparse(node)}"))
    return INT
def check(expected, got, node, what):
    if got in (INT, None) or expected in (OBJ,None): return
    if expected!=got:
        findings.append((node.lineno, f"{what}: expected {expected}, got {got}: {ast.unparse(node)}"))
for fn in [n for n in tree.body if isinstance(n, ast.FunctionDef)]:
    env = {a.arg: PARAMS.get(a.arg, OBJ) for a in fn.args.args}
    def ev(e):
        if isinstance(e, ast.Constant): return INT if isinstance(e.value,int) else OBJ
        if isinstance(e, ast.Name): return env.get(e.id, OBJ)
        if isinstance(e, ast.UnaryOp): return ev(e.operand)
        if isinstance(e, ast.BinOp): return arith(e.op, ev(e.left), ev(e.right), e)
        if isinstance(e, ast.BoolOp):
            ks=[ev(v) for v in e.values]; ks=[k for k in ks if k not in (INT,OBJ)]
            return ks[0] if ks else INT
        if isinstance(e, ast.Attribute):
            if e.attr=='repeated': return CNT
            return OBJ
        if isinstance(e, ast.Subscript):
            b=ev(e.value)
            if b==MAP:
                if isinstance(e.slice, ast.Slice):
                    for x in (e.slice.lower, e.slice.upper):
                        if x is not None: check(OIDX, ev(x), x, 'map slice bound')
                    return MAP
                check(OIDX, ev(e.slice), e.slice, 'map subscript')
                return POS
            if isinstance(e.value, ast.Name) and e.value.id=='cache':
                check(OIDX, ev(e.slice), e.slice, 'index-cache key'); return OBJ
            return OBJ
        if isinstance(e, ast.ListComp):
            # [(x - 1) for x in vault_map[...]]
            for g in e.generators:
                if ev(g.iter)==MAP and isinstance(g.target, ast.Name): env[g.target.id]=POS
            k=ev(e.elt)
            return MAP if k==POS else OBJ
        if isinstance(e, ast.Compare):
            l=ev(e.left)
            for op,c in zip(e.ops, e.comparators):
                r=ev(c)
                if isinstance(op,(ast.In,ast.NotIn)):
                    if isinstance(c, ast.Name) and c.id=='cache': check(OIDX, l, e.left, 'index-cache membership')
                    continue
                if l not in (INT,OBJ,NONE) and r not in (INT,OBJ,NONE) and l!=r and not ({l,r}=={OIDX} ):
                    findings.append((e.lineno, f"comparison {l} vs {r}: {ast.unparse(e)}"))
            return INT
        if isinstance(e, ast.Call):
            f=e.func
            if isinstance(f, ast.Name):
                if f.id=='getattr': return MAP
                if f.id in SIG:
                    ks,ret=SIG[f.id]
                    for a,k in zip(e.args, ks):
                        g=ev(a)
                        if k!=MAP: check(k,g,a,f"arg of {f.id}")
                    return ret
                for a in e.args: ev(a)
                return OBJ
            if isinstance(f, ast.Attribute):
                ev(f.value)
                if f.attr in METH:
                    ks,ret=METH[f.attr]
                    for a,k in zip(e.args, ks): check(k, ev(a), a, f"arg of .{f.attr}")
                    return ret
                for k in e.keywords:
                    if f.attr in KW and k.arg in KW[f.attr]: check(KW[f.attr][k.arg], ev(k.value), k.value, f"{k.arg}= of .{f.attr}")
                for a in e.args: ev(a)
                return OBJ
        return OBJ
    def run(body):
        for s in body:
            if isinstance(s, ast.Assign):
                k=ev(s.value)
                for t in s.targets:
                    if isinstance(t, ast.Name):
                        if t.id in env and env[t.id] not in (OBJ,INT) and k not in (OBJ,INT) and env[t.id]!=k:
                            findings.append((s.lineno, f"variable {t.id} rebinding {env[t.id]} -> {k}"))
                        env[t.id]=k if k!=INT or t.id not in env else env[t.id]
            elif isinstance(s, ast.AugAssign):
                if isinstance(s.target, ast.Name):
                    k=arith(s.op, env.get(s.target.id,INT), ev(s.value), s.value)
                    # x += k keeps kind
            elif isinstance(s, ast.Expr): ev(s.value)
            elif isinstance(s, ast.Return) and s.value is not None: ev(s.value)
            elif isinstance(s, (ast.If, ast.While)):
                ev(s.test); run(s.body); run(s.orelse)
            elif isinstance(s, ast.For):
                if isinstance(s.target, ast.Tuple) and ast.unparse(s.iter)=='idx_repeated_seq':
                    env[s.target.elts[0].id]=OIDX; env[s.target.elts[1].id]=CNT
                run(s.body)
            elif isinstance(s, ast.Try):
                run(s.body)
                for h in s.handlers: run(h.body)
    run(fn.body); run(fn.body)
for f in sorted(set(findings)): print(f)
print('findings', len(set(findings)))
