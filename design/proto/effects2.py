"""Prototype v2: XML-mutation effect analysis with kind inference."""
import ast, pathlib, collections, sys, re
SRC = pathlib.Path('/repo/src/odfdo')
mods = {}
for p in sorted(SRC.rglob('*.py')):
    if 'scripts' in p.parts: continue
    mods[str(p.relative_to(SRC))] = ast.parse(p.read_text())
funcs = {}; classes = {}
for m, tree in mods.items():
    for n in tree.body:
        if isinstance(n, ast.ClassDef):
            classes[n.name] = (n, [ast.unparse(b).split('.')[-1] for b in n.bases], m)
            for f in n.body:
                if isinstance(f, ast.FunctionDef):
                    kind = 'method'
                    for d in f.decorator_list:
                        ds = ast.unparse(d)
                        if ds == 'property': kind = 'getter'
                        elif ds.endswith('.setter'): kind = 'setter'
                        elif ds == 'staticmethod': kind = 'static'
                        elif ds == 'classmethod': kind = 'classm'
                    funcs[f"{n.name}.{f.name}" + ('=' if kind=='setter' else '')] = (f, n.name, m, kind)
                elif isinstance(f, ast.Assign) and len(f.targets)==1 and isinstance(f.targets[0], ast.Name) and isinstance(f.value,(ast.Name,ast.Attribute)):
                    pass
        elif isinstance(n, ast.FunctionDef):
            funcs[n.name] = (n, None, m, 'func')
            for sub in ast.walk(n):
                if sub is not n and isinstance(sub, ast.FunctionDef):
                    funcs[f"{n.name}.<{sub.name}>"] = (sub, None, m, 'func')
# aliases: append = __append ; append = append_cell
ALIASES = {('Element','append'):'Element.__append', ('Row','append'):'Row.append_cell'}
def is_elem_class(name, seen=()):
    if name == 'Element': return True
    if name not in classes or name in seen: return False
    return any(is_elem_class(b, seen+(name,)) for b in classes[name][1])
ELEM = {c for c in classes if is_elem_class(c)}
by_name = collections.defaultdict(list)
for q,(f,c,m,k) in funcs.items():
    by_name[(f.name, k=='setter')].append(q)
by_name[('append',False)] += ['Element.__append','Row.append_cell']
setter_names = {f.name for q,(f,c,m,k) in funcs.items() if k=='setter'}
getter_ret = {}
def ann_kind(a):
    if a is None: return 'UNK'
    s = ast.unparse(a)
    s = s.replace(' | None','').replace('None | ','').strip()
    if s in ('str','bytes','str | bytes','EText'): return 'STR'
    if s in ('int','float','bool','Decimal','int | str','str | int'): return 'SCALAR'
    if s.startswith(('list','List','Iterable','Iterator','tuple','Tuple')): 
        inner = s[s.find('[')+1:s.rfind(']')] if '[' in s else ''
        return 'LIST:' + ('ELEM' if any(x in inner for x in list(ELEM)+['Element']) else 'PY')
    if s.startswith(('dict','Dict','set','Set')): return 'PYCOLL'
    if s in ELEM or s=='Element' or any(x in ELEM for x in re.split(r'\W+', s)): return 'ELEM'
    if s in ('XmlPart','Content','Styles','Meta','Manifest'): return 'PART'
    if s in ('Container',): return 'CONT'
    if s in ('Document',): return 'DOC'
    if '_Element' in s: return 'LXML'
    if s in ('Callable','Any','object'): return 'UNK'
    if s in ('datetime','date','timedelta','Path','re.Pattern','Unit','Style'): return 'SCALAR' if s!='Style' else 'ELEM'
    return 'UNK'
ret_kind = collections.defaultdict(set)
for q,(f,c,m,k) in funcs.items():
    ret_kind[f.name].add(ann_kind(f.returns))
def rk(name):
    ks = ret_kind.get(name)
    if not ks: return 'UNK'
    if len(ks)==1: return next(iter(ks))
    ks2 = ks - {'UNK'}
    if len(ks2)==1 and all(k.startswith(('STR','SCALAR','PYCOLL','LIST:PY')) for k in ks2) and 'UNK' not in ks: return next(iter(ks2))
    if all(k in ('STR','SCALAR','PYCOLL','LIST:PY') for k in ks): return 'SCALAR'
    return 'UNK'
BUILTIN_SCALAR = {'str','int','len','bool','float','repr','max','min','sum','any','all','isinstance','hasattr','type','Decimal','round','abs','ord','chr','divmod','format','bytes','id','callable','issubclass'}
BUILTIN_COLL = {'list','dict','set','tuple','sorted','frozenset'}
STR_METHODS = {'lower','upper','strip','lstrip','rstrip','split','join','encode','decode','format','startswith','endswith','replace','splitlines','rsplit','partition','rpartition','isalpha','isdigit','isalnum','find','index','capitalize','title','zfill','ljust','rjust','isspace'}
LXML_MUT_CALLS = {'append','insert','remove','replace','extend','clear','addnext','addprevious','set'}
LXML_MUT_ATTRS = {'text','tail','tag'}
AMBIG = {'append','insert','remove','replace','extend','clear','set','delete','rstrip','strip','pop','update','add','index','sort'}
FRESH_FUNCS = {'deepcopy','fromstring','lxml_Element','parse','tostring'}
def fresh_call_name(name): return name in FRESH_FUNCS or name in ELEM or name in ('from_tag','make_etree_element','PageBreak')

class FnInfo: pass
def analyze(q):
    f, cls, m, kind = funcs[q]
    info = FnInfo(); info.sites=[]; info.calls=[]; info.unresolved=[]
    params = [a for a in f.args.args + f.args.kwonlyargs]
    K = {}; F = {}   # kind, fresh
    for i,a in enumerate(params):
        if i==0 and kind in ('method','getter','setter') and cls:
            K[a.arg] = 'ELEM' if (cls in ELEM or cls.startswith('MD') or cls.endswith(('Mix','Mixin'))) else ('PART' if cls in ('XmlPart','Content','Styles','Meta','Manifest') else ('DOC' if cls in ('Document','MDDocument') else ('CONT' if cls=='Container' else 'OBJ')))
            F[a.arg]=False
        else:
            K[a.arg] = ann_kind(a.annotation); F[a.arg]=False
    def kof(e):
        """return (kind, fresh)"""
        if isinstance(e, ast.Name): return K.get(e.id,'UNK'), F.get(e.id, False)
        if isinstance(e, (ast.Constant, ast.JoinedStr)): 
            return ('STR' if isinstance(e, ast.JoinedStr) or isinstance(getattr(e,'value',None), (str,bytes)) else 'SCALAR'), True
        if isinstance(e, (ast.List, ast.ListComp, ast.Tuple, ast.GeneratorExp)):
            elts = getattr(e,'elts',None)
            if isinstance(e,(ast.ListComp, ast.GeneratorExp)):
                k,fr = kof_comp(e)
                return 'LIST:'+('ELEM' if k in ('ELEM','LXML','UNK') else 'PY'), fr
            ks=[kof(x) for x in (elts or [])]
            if any(k in ('ELEM','LXML','UNK') for k,_ in ks): return 'LIST:ELEM', all(fr for _,fr in ks)
            return 'LIST:PY', True
        if isinstance(e, (ast.Dict, ast.DictComp, ast.Set, ast.SetComp)): return 'PYCOLL', True
        if isinstance(e, (ast.Compare, ast.UnaryOp)): return 'SCALAR', True
        if isinstance(e, ast.BinOp):
            l=kof(e.left); 
            if l[0]=='STR' or kof(e.right)[0]=='STR': return 'STR', True
            if l[0].startswith('LIST'): return l
            return 'SCALAR', True
        if isinstance(e, ast.BoolOp):
            ks=[kof(v) for v in e.values]
            for k,fr in ks:
                if k in ('ELEM','LXML','PART','DOC','CONT'): return k, all(f2 for _,f2 in ks if _ in ('ELEM','LXML'))
            return ks[0]
        if isinstance(e, ast.IfExp):
            a=kof(e.body); b=kof(e.orelse)
            return (a[0] if a[0]!='UNK' else b[0]), a[1] and b[1]
        if isinstance(e, ast.Subscript):
            k,fr = kof(e.value)
            if k.startswith('LIST:'): return ('ELEM' if k=='LIST:ELEM' else 'SCALAR'), fr
            if k=='STR': return 'STR', True
            if k=='PYCOLL': return 'UNK', False
            if k=='LXML': return 'LXML', fr
            return 'UNK', fr
        if isinstance(e, ast.Attribute):
            bk,bf = kof(e.value)
            a = e.attr
            if a=='clone': return 'ELEM', True
            if a in ('_Element__element','__element'): return 'LXML', bf
            if bk in ('STR','SCALAR'): return 'SCALAR', True
            if a in ('text','tail','tag','name','style','inner_text','text_recursive','text_content','attrib','mimetype','path','part_name','x','y','width','height','size','repeated','family','level','url'):
                return ('PYCOLL' if a=='attrib' else 'STR'), True
            if a in ('parent','root','body','document_body','children','content','styles','meta','manifest','container','tables','headers','paragraphs','spans','rows','cells','columns'):
                k2 = {'children':'LIST:ELEM','tables':'LIST:ELEM','headers':'LIST:ELEM','paragraphs':'LIST:ELEM','spans':'LIST:ELEM','content':'PART','styles':'PART','meta':'PART','manifest':'PART','container':'CONT'}.get(a,'ELEM')
                if a in ('rows','cells','columns'): return 'LIST:ELEM', False
                return k2, bf
            r = rk(a)
            return r, False
        if isinstance(e, ast.Call):
            fn=e.func
            if isinstance(fn, ast.Name):
                n=fn.id
                if n in BUILTIN_SCALAR: return 'SCALAR', True
                if n in BUILTIN_COLL or n in ('reversed','enumerate','zip','zip_longest','chain','iter','filter','map'):
                    if e.args:
                        k,fr=kof(e.args[0])
                        if k.startswith('LIST:'): return k, fr
                        if k in ('STR','PYCOLL','SCALAR'): return 'LIST:PY', True
                        if k=='LXML': return 'LIST:ELEM', fr
                    return 'LIST:PY' if not e.args else 'LIST:ELEM', True
                if fresh_call_name(n): return ('LXML' if n in ('deepcopy','fromstring','lxml_Element','parse') else 'ELEM'), True
                if n in funcs and funcs[n][1] is None: return ann_kind(funcs[n][0].returns), False
                if n in ('getattr',): return 'UNK', False
                if n in ('xpath_compile','XPath','re','compile'): return 'SCALAR', True
                if n in classes: return 'OBJ', True
                return 'UNK', False
            if isinstance(fn, ast.Attribute):
                bk,bf = kof(fn.value)
                n=fn.attr
                if bk=='STR' or (bk in ('SCALAR',) ): return ('LIST:PY' if n in ('split','splitlines','rsplit','findall','finditer') else 'STR'), True
                if bk.startswith('LIST:') or bk=='PYCOLL':
                    if n in ('get','pop','setdefault') : return 'UNK', False
                    return 'SCALAR', True
                if n in STR_METHODS and bk=='UNK' and n not in AMBIG: return 'STR', True
                if fresh_call_name(n): return 'ELEM', True
                if n in ('getparent','getprevious','getnext','getroot','getroottree','iterchildren','iterdescendants'): return ('LXML' if not n.startswith('iter') else 'LIST:ELEM'), bf
                if n in ('serialize','pretty_serialize','get_attribute','get_attribute_string','get_attribute_integer','get_formatted_text'): return 'STR', True
                r = rk(n)
                # getters with clone flag default True
                if n in ('get_cell','get_row','get_column','_get_row2','_get_cell2'):
                    c=[k.value for k in e.keywords if k.arg=='clone']
                    fresh = not c or (isinstance(c[0], ast.Constant) and c[0].value is True)
                    return 'ELEM', fresh
                if n in ('traverse','traverse_columns','get_cells','get_columns','get_column_cells'): return 'LIST:ELEM', n!='traverse' or False
                return r, (bf if r in ('ELEM','LIST:ELEM','LXML') else True)
            return 'UNK', False
        if isinstance(e, ast.Await): return 'UNK', False
        if isinstance(e, ast.NamedExpr):
            k=kof(e.value); bind(e.target, k); return k
        if isinstance(e, ast.Starred): return kof(e.value)
        return 'UNK', False
    def kof_comp(e):
        for g in e.generators:
            k,fr = kof(g.iter)
            bind(g.target, elem_kind(k, fr))
        return kof(e.elt)
    def elem_kind(k, fr):
        if k.startswith('LIST:'): return ('ELEM' if k=='LIST:ELEM' else 'SCALAR'), fr
        if k=='STR': return 'STR', True
        if k=='PYCOLL': return 'UNK', False
        if k=='LXML': return 'LXML', fr
        if k=='ELEM': return 'ELEM', fr   # iterating an Element? unlikely
        return 'UNK', False
    def bind(t, kf):
        k,fr = kf
        if isinstance(t, ast.Name):
            if t.id in K and K[t.id]!=k and K[t.id]!='UNK' and k!='UNK':
                # join
                if {K[t.id],k} <= {'STR','SCALAR'}: K[t.id]='SCALAR'
                elif 'ELEM' in (K[t.id],k): K[t.id]='ELEM'
                else: K[t.id]=k
                F[t.id] = F.get(t.id,False) and fr
            elif t.id in K and k=='UNK': pass
            else:
                K[t.id]=k; F[t.id]=fr if t.id not in F else (F[t.id] and fr)
        elif isinstance(t,(ast.Tuple,ast.List)):
            for x in t.elts:
                bind(x, ('UNK', False) if not k.startswith('LIST:PY') and k not in ('STR','SCALAR') else ('SCALAR',True))
    for _ in range(3):
        for n in ast.walk(f):
            if isinstance(n, ast.Assign):
                kf=kof(n.value)
                for t in n.targets: bind(t,kf)
            elif isinstance(n, ast.AnnAssign):
                ak=ann_kind(n.annotation)
                if isinstance(n.target, ast.Name):
                    if ak!='UNK': K[n.target.id]=ak; F[n.target.id]= kof(n.value)[1] if n.value is not None else False
                    elif n.value is not None: bind(n.target,kof(n.value))
            elif isinstance(n, ast.For):
                k,fr=kof(n.iter)
                if isinstance(n.iter, ast.Call) and isinstance(n.iter.func, ast.Name) and n.iter.func.id=='enumerate' and isinstance(n.target, ast.Tuple):
                    bind(n.target.elts[0], ('SCALAR',True)); bind(n.target.elts[1], elem_kind(k,fr))
                else: bind(n.target, elem_kind(k,fr))
            elif isinstance(n, (ast.ListComp, ast.GeneratorExp, ast.SetComp, ast.DictComp)):
                for g in n.generators:
                    k,fr=kof(g.iter); bind(g.target, elem_kind(k,fr))
            elif isinstance(n, ast.withitem) and n.optional_vars is not None:
                bind(n.optional_vars, ('OBJ', True))
            elif isinstance(n, ast.NamedExpr):
                bind(n.target, kof(n.value))
    info.K=K; info.F=F
    LIVEK = ('ELEM','LXML','PART','DOC','CONT','LIST:ELEM','OBJ')
    own_nested = [x for x in ast.walk(f) if x is not f and isinstance(x,(ast.FunctionDef,))]
    nested_nodes=set()
    for x in own_nested:
        for y in ast.walk(x): nested_nodes.add(id(y))
    for n in ast.walk(f):
        if id(n) in nested_nodes: continue
        tg=[]
        if isinstance(n, ast.Assign): tg=n.targets
        elif isinstance(n,(ast.AugAssign,ast.AnnAssign)): tg=[n.target]
        elif isinstance(n, ast.Delete): tg=n.targets
        for t in tg:
            for tt in (t.elts if isinstance(t,(ast.Tuple,ast.List)) else [t]):
                if isinstance(tt, ast.Attribute):
                    k,fr=kof(tt.value)
                    if fr: continue
                    if k=='LXML' and tt.attr in LXML_MUT_ATTRS: info.sites.append((n.lineno,'prim',ast.unparse(tt)))
                    elif k in ('ELEM',) and (tt.attr in setter_names):
                        info.calls.append((n.lineno, tt.attr, True, ast.unparse(tt)))
                    elif k=='UNK' and tt.attr in setter_names and tt.attr not in ('x','y'):
                        info.unresolved.append((n.lineno, ast.unparse(tt)))
                elif isinstance(tt, ast.Subscript):
                    v=tt.value
                    if isinstance(v, ast.Attribute) and v.attr=='attrib':
                        k,fr=kof(v.value)
                        if not fr: info.sites.append((n.lineno,'prim',ast.unparse(tt)))
                    else:
                        k,fr=kof(v)
                        if k=='LXML' and not fr: info.sites.append((n.lineno,'prim',ast.unparse(tt)))
                        if isinstance(v, ast.Attribute) and v.attr in ('_Container__parts','__parts') and q!='Container.get_part' and not q.startswith('Container._get') and not q.startswith('Container._read') and q!='Container.__init__':
                            info.sites.append((n.lineno,'parts',ast.unparse(tt)))
        if isinstance(n, ast.Call):
            fn=n.func
            if isinstance(fn, ast.Attribute):
                k,fr=kof(fn.value)
                if fr: continue
                name=fn.attr
                if k=='LXML':
                    if name in LXML_MUT_CALLS: info.sites.append((n.lineno,'prim',ast.unparse(fn)))
                    continue
                if k in ('STR','SCALAR','PYCOLL','LIST:PY') : continue
                if k.startswith('LIST:'): continue   # list methods
                if k=='UNK':
                    if name in AMBIG or name in STR_METHODS: 
                        if name in AMBIG and (by_name.get((name,False))): info.unresolved.append((n.lineno, ast.unparse(fn)))
                        continue
                info.calls.append((n.lineno, name, False, ast.unparse(fn)))
            elif isinstance(fn, ast.Name):
                if fn.id in funcs and funcs[fn.id][1] is None:
                    # module function: live if any arg live
                    live=False
                    for a in n.args:
                        k,fr=kof(a)
                        if k in LIVEK and not fr: live=True
                    if live or not n.args: info.calls.append((n.lineno, fn.id, False, fn.id))
                elif f"{f.name}.<{fn.id}>" in funcs:
                    info.calls.append((n.lineno, f"{f.name}.<{fn.id}>", False, fn.id))
    return info
infos={q:analyze(q) for q in funcs}
MUT={q: bool(infos[q].sites) for q in funcs}
WHY={q:(('prim',)+infos[q].sites[0] if infos[q].sites else None) for q in funcs}
def resolve(name,is_setter):
    if name in funcs and '<' in name: return [name]
    if is_setter: return by_name.get((name,True),[])
    return [q for q in by_name.get((name,False),[]) if funcs.get(q,(0,0,0,'method'))[3]!='getter'] + ([name] if name in funcs and funcs[name][1] is None else [])
changed=True
while changed:
    changed=False
    for q,info in infos.items():
        if MUT[q]: continue
        for (ln,name,is_setter,txt) in info.calls:
            for t in resolve(name,is_setter):
                if MUT.get(t):
                    MUT[q]=True; WHY[q]=('call',ln,txt,t); changed=True; break
            if MUT[q]: break
def explain(q,seen=None):
    seen=seen or set(); w=WHY[q]
    if not w or q in seen: return q
    seen.add(q)
    if w[0]=='prim': return f"{q}: {w[2]} {w[3]} @{w[1]}"
    return f"{q} -[{w[2]}@{w[1]}]-> "+explain(w[3],seen)
ro = re.compile(r'^(get_|is_|as_|to_|search|match$|text_at$|serialize$|show_|iter_values$|traverse|__str__$|__repr__$|get_formatted|_md_|_get_formatted)')
n=0; flagged=[]
for q in sorted(funcs):
    f,cls,m,kind=funcs[q]
    if kind=='setter' or '<' in q: continue
    if ro.match(f.name) or kind=='getter':
        n+=1
        if MUT[q]: flagged.append(q)
# group by terminal site
groups=collections.defaultdict(list)
for q in flagged:
    e=explain(q); groups[e.split(' -[')[-1].split(']-> ')[-1] if ' -[' in e else e].append(e)
for g,es in sorted(groups.items()):
    print('SITE', g, ' entries:', len(es))
    print('    e.g.', min(es,key=len)[:400])
print('entries', n, 'flagged', len(flagged), 'unresolved calls', sum(len(i.unresolved) for i in infos.values()))
