import ast, pathlib, collections
SRC = pathlib.Path('/repo/src/odfdo')
n_pairs=0
for p in sorted(SRC.rglob('*.py')):
    t = ast.parse(p.read_text())
    for c in [n for n in ast.walk(t) if isinstance(n, ast.ClassDef)]:
        getters={}; setters={}
        for f in c.body:
            if isinstance(f, ast.FunctionDef):
                decs=[ast.unparse(d) for d in f.decorator_list]
                if 'property' in decs: getters[f.name]=f
                if any(d.endswith('.setter') for d in decs): setters[f.name]=f
        for name in getters.keys() & setters.keys():
            def consts(fn, calls):
                out=set()
                for n in ast.walk(fn):
                    if isinstance(n, ast.Call) and isinstance(n.func, ast.Attribute) and n.func.attr in calls and n.args and isinstance(n.args[0], ast.Constant) and isinstance(n.args[0].value,str) and ':' in n.args[0].value:
                        out.add(n.args[0].value)
                return out
            g=consts(getters[name], {'get_attribute','get_attribute_string','get_attribute_integer','get_element','_get_inner_text','get_elements'})
            s=consts(setters[name], {'set_attribute','set_style_attribute','del_attribute','_set_inner_text','get_element'})
            if g and s:
                n_pairs+=1
                if not (g & s): print(f"MISMATCH {p.name} {c.name}.{name}: getter {sorted(g)} setter {sorted(s)}")
print('pairs compared', n_pairs)
