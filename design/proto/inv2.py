import ast, pathlib, collections, re
SRC = pathlib.Path('/repo/src/odfdo')
trees = {str(p.relative_to(SRC)): ast.parse(p.read_text()) for p in sorted(SRC.rglob('*.py'))}
classes={}
for m,t in trees.items():
    for n in t.body:
        if isinstance(n, ast.ClassDef):
            classes[n.name]=(n,[ast.unparse(b).split('.')[-1] for b in n.bases],m)
def is_elem(c,seen=()):
    if c=='Element': return True
    if c not in classes or c in seen: return False
    return any(is_elem(b,seen+(c,)) for b in classes[c][1])
elems=[c for c in classes if is_elem(c)]
print('element classes', len(elems))
# registered
reg=collections.Counter(); regcalls=0
for m,t in trees.items():
    for n in t.body:
        if isinstance(n, ast.Expr) and isinstance(n.value, ast.Call) and getattr(n.value.func,'id','').startswith('register_element_class'):
            regcalls+=1; reg[n.value.args[0].id]+=1
print('register calls', regcalls, 'distinct classes registered', len(reg))
print('elem classes not registered', [c for c in elems if c not in reg])
# ctor params
np=0; nc=0
for c in elems:
    node=classes[c][0]
    for f in node.body:
        if isinstance(f, ast.FunctionDef) and f.name=='__init__':
            ps=[a.arg for a in f.args.args[1:]+f.args.kwonlyargs]
            np+=len(ps); nc+=1
print('ctors', nc, 'params', np)
# propdefs
npd=0; cls_with=0
for c,(node,b,m) in classes.items():
    k=0
    for n in ast.walk(node):
        if isinstance(n, ast.Call) and getattr(n.func,'id','')=='PropDef': k+=1
    if k: cls_with+=1; npd+=k
print('classes with PropDef', cls_with, 'PropDefs', npd)
dap=sum(1 for m,t in trees.items() for n in t.body if isinstance(n, ast.Expr) and isinstance(n.value, ast.Call) and getattr(n.value.func,'attr','')=='_define_attribut_property')
print('define calls', dap)
# Table/Row public methods
for cname in ('Table','Row'):
    node=classes[cname][0]
    pub=[f.name for f in node.body if isinstance(f, ast.FunctionDef) and not f.name.startswith('_')]
    allm=[f.name for f in node.body if isinstance(f, ast.FunctionDef)]
    print(cname,'public',len(pub),'all',len(allm))
# is_text branch pairs
cnt=0
for m,t in trees.items():
    for n in ast.walk(t):
        if isinstance(n, ast.If):
            s=ast.unparse(n.test)
            if 'is_text' in s and n.orelse: cnt+=1; print('  is_text if', m, n.lineno, s)
print('is_text pairs', cnt)
# slices of same var
for m,t in trees.items():
    for fn in [x for x in ast.walk(t) if isinstance(x, ast.FunctionDef)]:
        sl=collections.defaultdict(list)
        for n in ast.walk(fn):
            if isinstance(n, ast.Subscript) and isinstance(n.slice, ast.Slice) and isinstance(n.value, ast.Name):
                sl[n.value.id].append(ast.unparse(n))
        for k,v in sl.items():
            if len(set(v))>=2 and k in ('text','text_str','data1','data'):
                print('  slices', m, fn.name, sorted(set(v)))
