import random, sys
from odfdo import Row, Cell, Element
random.seed(int(sys.argv[1]) if len(sys.argv)>1 else 0)
bad=0; n=0
for it in range(3000):
    row = Row(); model=[]
    for _ in range(random.randint(1,5)):
        v=random.randint(0,9); r=random.randint(1,3)
        row.append_cell(Cell(v, repeated=r)); model += [v]*r
    for step in range(3):
        x=random.randint(0,len(model)+1); v=random.randint(10,19); r=random.randint(1,4)
        row.set_cell(x, Cell(v, repeated=r))
        while len(model) < x: model.append(None)
        for i in range(r):
            if x+i < len(model): model[x+i]=v
            else: model.append(v)
        got=row.get_values(); fresh=Element.from_tag(row.serialize()).get_values()
        n+=1
        if got!=model or fresh!=model:
            bad+=1
            if bad<4: print('MISMATCH', model, got, fresh)
            break
print('steps', n, 'bad', bad)
