from odfdo import *
def mk():
    t = Table('t')
    for i in range(6):
        r = Row(); r.set_values([i]); t.append_row(r)
    return t
t = mk()
print(t.get_values(), t.serialize()[:120])
r = Row(); r.set_values(['X']); r.repeated = 3
t.set_row(1, r)
print('after set repeated row at 1:', t.get_values(), t.height)
# row-level (cells) same op
row = Row(); row.set_values([0,1,2,3,4,5])
c = Cell('X', repeated=3)
row.set_cell(1, c)
print('row-level:', row.get_values(), row.width)
