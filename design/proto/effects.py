"""Prototype: XML-mutation effect analysis (name-based call graph, freshness of receivers)."""
import ast, pathlib, collections, sys
SRC = pathlib.Path('/repo/src/odfdo')
mods = {}
for p in sorted(SRC.rglob('*.py')):
    if 'scripts' in p.parts: continue
    mods[str(p.relative_to(SRC))] = ast.parse(p.read_text())

# collect functions: key qualname
funcs = {}   # qual -> (node, clsname or None, mod)
classes = {} # name -> (node, bases, mod)
for m, tree in mods.items():
    for n in tree.body:
        if isinstance(n, ast.ClassDef):
            classes[n.name] = (n, [ast.unparse(b).split('.')[-1] for b in n.bases], m)
            for f in n.body:
                if isinstance(f, (ast.FunctionDef,)):
                    kind = 'method'
                    for d in f.decorator_list:
                        ds = ast.unparse(d)
                        if ds == 'property': kind = 'getter'
                        elif ds.endswith('.setter'): kind = 'setter'
                        elif ds == 'staticmethod': kind = 'static'
                        elif ds == 'classmethod': kind = 'classm'
                    funcs[f"{n.name}.{f.name}" + ('=' if kind=='setter' else '')] = (f, n.name, m, kind)
                    # nested defs
        elif isinstance(n, ast.FunctionDef):
            funcs[n.name] = (n, None, m, 'func')
by_name = collections.defaultdict(list)
for q,(f,c,m,k) in funcs.items():
    by_name[(f.name, k=='setter')].append(q)
setter_names = {f.name for q,(f,c,m,k) in funcs.items() if k=='setter'}
getter_names = {f.name for q,(f,c,m,k) in funcs.items() if k=='getter'}

LXML_MUT_CALLS = {'append','insert','remove','replace','extend','clear','addnext','addprevious','set'}
LXML_MUT_ATTRS = {'text','tail','tag'}
AMBIG = {'append','insert','remove','replace','extend','clear','set','delete','rstrip','strip','pop','update','add','index','sort'}
FRESH_CALLS = {'deepcopy','fromstring','lxml_Element','make_etree_element','from_tag','from_tag_for_clone','parse','tostring'}
ELEMENT_CLASSES = set()
def is_elem_class(name, seen=()):
    if name == 'Element': return True
    if name not in classes or name in seen: return False
    return any(is_elem_class(b, seen+(name,)) for b in classes[name][1])
ELEMENT_CLASSES = {c for c in classes if is_elem_class(c)}
MIXINS = {c for c in classes if c.startswith('MD') or c.endswith('Mix') or c.endswith('Mixin')}
PART_CLASSES = {'XmlPart','Content','Styles','Meta','Manifest'}

def rawname(e):
    # strip mangling
    return e

class FnInfo:
    def __init__(s): s.prims=[]; s.calls=[]  # prims: (lineno, desc, recv_kind); calls: (lineno, name, is_setter, recv_kind, argkinds)

def analyze(q):
    f, cls, m, kind = funcs[q]
    info = FnInfo()
    params = [a.arg for a in f.args.args]
    # local kinds: 'self','param','fresh','pylist','scalar','derived','unknown'
    kinds = {}
    for i,a in enumerate(params):
        kinds[a] = 'self' if (i==0 and kind not in ('static','func')) else 'param'
    in_elem = cls in ELEMENT_CLASSES or cls in MIXINS or cls in PART_CLASSES or cls in ('Document','Container','MDDocument')
    def kind_of(e):
        if isinstance(e, ast.Name):
            return kinds.get(e.id, 'unknown')
        if isinstance(e, ast.Attribute):
            if e.attr == 'clone': return 'fresh'
            base = kind_of(e.value)
            if e.attr in ('_Element__element','__element'): return base if base!='unknown' else 'derived'
            if base in ('self','param','derived'): return 'derived'
            return base
        if isinstance(e, ast.Call):
            fn = e.func
            name = fn.attr if isinstance(fn, ast.Attribute) else (fn.id if isinstance(fn, ast.Name) else '')
            if name in FRESH_CALLS: 
                return 'fresh'
            if name in classes and name in ELEMENT_CLASSES: return 'fresh'
            if name in ('list','dict','set','tuple','sorted','reversed','enumerate','zip','zip_longest','chain','iter','str','int','len','bool','float','repr','range','max','min','sum','any','all','isinstance','getattr','hasattr','type','join','format','Decimal'):
                if name in ('list','reversed','enumerate','zip','iter','sorted','zip_longest','chain') and e.args:
                    return 'coll:' + kind_of(e.args[0]).replace('coll:','')
                return 'scalar'
            if isinstance(fn, ast.Attribute):
                base = kind_of(fn.value)
                if name in ('serialize','get_attribute','get_attribute_string','get_attribute_integer','get_value','get_values','inner_text','lower','strip','split','join','encode','decode','format','startswith','endswith','get_formatted_text','search','match'):
                    return 'scalar'
                if base in ('self','param','derived') or base.startswith('coll:'): return 'derived'
                return base
            return 'unknown'
        if isinstance(e, (ast.List, ast.ListComp, ast.Dict, ast.DictComp, ast.Set, ast.SetComp, ast.Tuple, ast.GeneratorExp)):
            return 'pycoll'
        if isinstance(e, (ast.Constant, ast.JoinedStr, ast.BinOp, ast.Compare, ast.BoolOp, ast.UnaryOp)):
            if isinstance(e, ast.BoolOp):
                ks = {kind_of(v) for v in e.values}
                if ks & {'self','param','derived'}: return 'derived'
            return 'scalar'
        if isinstance(e, ast.Subscript):
            base = kind_of(e.value)
            if base.startswith('coll:'): return base[5:] if base[5:]!='' else 'unknown'
            if base == 'pycoll': return 'unknown'
            return base
        if isinstance(e, ast.IfExp):
            return kind_of(e.body)
        return 'unknown'
    def bind(t, k):
        if isinstance(t, ast.Name):
            kinds[t.id] = k
        elif isinstance(t, (ast.Tuple, ast.List)):
            for x in t.elts: bind(x, 'unknown' if k=='pycoll' else k)
    def elem_of_iter(k):
        if k.startswith('coll:'): k = k[5:]
        if k in ('self','param'): return 'derived'
        return k
    # two passes for loops
    for _ in range(2):
        for n in ast.walk(f):
            if isinstance(n, ast.Assign):
                k = kind_of(n.value)
                for t in n.targets: bind(t, k)
            elif isinstance(n, ast.AnnAssign) and n.value is not None:
                bind(n.target, kind_of(n.value))
            elif isinstance(n, (ast.For, ast.comprehension)):
                bind(n.target, elem_of_iter(kind_of(n.iter)))
            elif isinstance(n, ast.NamedExpr):
                bind(n.target, kind_of(n.value))
            elif isinstance(n, ast.withitem) and n.optional_vars is not None:
                bind(n.optional_vars, kind_of(n.context_expr))
    def live(k): return k in ('self','param','derived') or k.startswith('coll:')
    for n in ast.walk(f):
        if n is not f and isinstance(n, (ast.FunctionDef, ast.Lambda)):
            pass
        # attribute stores
        tgts = []
        if isinstance(n, ast.Assign): tgts = n.targets
        elif isinstance(n, (ast.AugAssign, ast.AnnAssign)): tgts = [n.target]
        elif isinstance(n, ast.Delete): tgts = n.targets
        for t in tgts:
            for tt in (t.elts if isinstance(t,(ast.Tuple,ast.List)) else [t]):
                if isinstance(tt, ast.Attribute):
                    rk = kind_of(tt.value)
                    if tt.attr in LXML_MUT_ATTRS or tt.attr in setter_names:
                        info.calls.append((n.lineno, tt.attr, True, rk, ast.unparse(tt)))
                elif isinstance(tt, ast.Subscript):
                    # del x.attrib[..], x[:] , self.__parts[...] = 
                    v = tt.value
                    if isinstance(v, ast.Attribute) and v.attr == 'attrib':
                        info.prims.append((n.lineno, ast.unparse(tt), kind_of(v.value)))
                    elif isinstance(n, ast.Delete) and kind_of(v) in ('self','param','derived') and isinstance(tt.slice, ast.Slice):
                        info.prims.append((n.lineno, ast.unparse(tt), kind_of(v)))
        if isinstance(n, ast.Call):
            fn = n.func
            if isinstance(fn, ast.Attribute):
                rk = kind_of(fn.value)
                info.calls.append((n.lineno, fn.attr, False, rk, ast.unparse(fn)))
            elif isinstance(fn, ast.Name):
                info.calls.append((n.lineno, fn.id, False, 'func', fn.id))
    return info, kinds

infos = {q: analyze(q) for q in funcs}
# primitive mutators: Element methods that touch self.__element via lxml mutation
def prim_sites(q):
    f, cls, m, kind = funcs[q]
    out = []
    for n in ast.walk(f):
        tg = []
        if isinstance(n, ast.Assign): tg = n.targets
        elif isinstance(n, ast.AugAssign): tg=[n.target]
        elif isinstance(n, ast.Delete): tg = n.targets
        for t in tg:
            if isinstance(t, ast.Attribute) and t.attr in LXML_MUT_ATTRS:
                # receiver must be lxml-ish: name contains element/current/parent/prev/... or attr __element
                r = ast.unparse(t.value)
                if '__element' in r or r in LXMLVARS.get(q,set()):
                    out.append((n.lineno, ast.unparse(t)))
            if isinstance(t, ast.Subscript):
                r = ast.unparse(t.value)
                if r.endswith('.attrib') or (r in LXMLVARS.get(q,set())):
                    out.append((n.lineno, ast.unparse(t)))
        if isinstance(n, ast.Call) and isinstance(n.func, ast.Attribute) and n.func.attr in LXML_MUT_CALLS:
            r = ast.unparse(n.func.value)
            if '__element' in r or r in LXMLVARS.get(q,set()):
                out.append((n.lineno, ast.unparse(n.func)))
    return out
# lxml-typed locals: assigned from X.__element / getparent / getprevious / getnext / iterchildren / xpath on lxml
LXMLVARS = {}
for q,(f,cls,m,kind) in funcs.items():
    s=set()
    for _ in range(3):
        for n in ast.walk(f):
            if isinstance(n, ast.Assign) and len(n.targets)==1 and isinstance(n.targets[0], ast.Name):
                v = ast.unparse(n.value)
                if v.endswith('__element') or any(v.endswith(x) for x in ('.getparent()','.getprevious()','.getnext()','.getroot()')) or (isinstance(n.value, ast.Name) and n.value.id in s) or (isinstance(n.value, ast.Subscript) and ast.unparse(n.value.value) in s) or v.startswith('deepcopy(') and False:
                    s.add(n.targets[0].id)
            if isinstance(n, ast.For) and isinstance(n.target, ast.Name):
                it = ast.unparse(n.iter)
                if any(x in it for x in s) and ('iterchildren' in it or it in s or 'iter' in it or '[' in it):
                    s.add(n.target.id)
    # params of module functions in container.py typed _Element
    for a in f.args.args:
        if a.annotation is not None and '_Element' in ast.unparse(a.annotation): s.add(a.arg)
    LXMLVARS[q]=s
PRIMS = {q: prim_sites(q) for q in funcs}
# fixpoint: MUT[q] = set of 'self'/'param' roles mutated (coarse: True/False on live receivers)
MUT = {q: bool(PRIMS[q]) for q in funcs}
WHY = {q: (('prim',)+PRIMS[q][0] if PRIMS[q] else None) for q in funcs}
def resolve(name, is_setter, caller_cls):
    return by_name.get((name, is_setter), []) if is_setter else [q for q in by_name.get((name, False), []) if funcs[q][3] != 'getter'] + ([name] if name in funcs and funcs[name][1] is None else [])
changed = True
while changed:
    changed = False
    for q,(info,kinds) in infos.items():
        if MUT[q]: continue
        for (ln, name, is_setter, rk, txt) in info.calls:
            if not (rk in ('self','param','derived','func') or rk.startswith('coll:')): 
                continue
            if rk=='func':
                tg = [name] if name in funcs and funcs[name][1] is None else []
                # module-level function call: args liveness ignored (coarse)
            else:
                tg = resolve(name, is_setter, funcs[q][1])
            if name in AMBIG and not is_setter:
                # need evidence receiver is element: rk self/param/derived counts
                pass
            for t in tg:
                if t in MUT and MUT[t]:
                    MUT[q] = True; WHY[q] = ('call', ln, txt, t); changed=True; break
            if MUT[q]: break
def explain(q, depth=0, seen=None):
    seen = seen or set()
    w = WHY[q]
    if not w or q in seen: return ''
    seen.add(q)
    if w[0]=='prim': return f"{q}: prim {w[2]} @{w[1]}"
    return f"{q} -[{w[2]}@{w[1]}]-> " + explain(w[3], depth+1, seen)
if __name__ == '__main__':
    import re
    ro = re.compile(r'^(get_|is_|as_|to_|search|match$|text_at$|serialize$|show_|_md_|__str__$|__repr__$|iter_values$|traverse|_get_formatted|get_formatted)')
    n=0
    for q in sorted(funcs):
        f,cls,m,kind = funcs[q]
        nm = f.name
        if kind=='setter': continue
        if ro.match(nm) or kind=='getter':
            n+=1
            if MUT[q]:
                print('MUT', explain(q))
    print('entries', n, 'funcs', len(funcs), 'mut total', sum(MUT.values()))
