import ast, pathlib
SRC = pathlib.Path('/repo/src/odfdo')
doc = ast.parse((SRC/'document.py').read_text())
sty = ast.parse((SRC/'styles.py').read_text())
con = ast.parse((SRC/'content.py').read_text())
sc = ast.parse((SRC/'utils/style_constants.py').read_text())
# fold constants in style_constants
env={}
for n in sc.body:
    if isinstance(n, ast.Assign) and isinstance(n.targets[0], ast.Name):
        try:
            env[n.targets[0].id]=eval(compile(ast.Expression(n.value),'<c>','eval'),{},dict(env))
        except Exception as e: pass
FAMILY_MAPPING=env['FAMILY_MAPPING']
CONTEXT_MAPPING=None
for n in sty.body:
    if isinstance(n, ast.Assign) and n.targets[0].id=='CONTEXT_MAPPING': CONTEXT_MAPPING=ast.literal_eval(n.value)
Document=[n for n in doc.body if isinstance(n, ast.ClassDef) and n.name=='Document'][0]
dm={f.name:f for f in Document.body if isinstance(f, ast.FunctionDef)}
class Ret(Exception):
    def __init__(s,v): s.v=v
class Rais(Exception): pass
def ev(e, env):
    if isinstance(e, ast.Constant): return e.value
    if isinstance(e, ast.Name):
        if e.id in env: return env[e.id]
        if e.id=='FAMILY_MAPPING': return FAMILY_MAPPING
        raise KeyError(e.id)
    if isinstance(e, ast.Compare):
        l=ev(e.left, env)
        for op,c in zip(e.ops,e.comparators):
            r=ev(c, env)
            ok={ast.Eq:lambda:l==r, ast.NotEq:lambda:l!=r, ast.In:lambda:l in r, ast.NotIn:lambda:l not in r, ast.Is:lambda:l is r, ast.IsNot:lambda:l is not r}[type(op)]()
            if not ok: return False
            l=r
        return True
    if isinstance(e, ast.BoolOp):
        if isinstance(e.op, ast.And):
            v=True
            for x in e.values:
                v=ev(x, env)
                if not v: return v
            return v
        for x in e.values:
            v=ev(x, env)
            if v: return v
        return v
    if isinstance(e, ast.UnaryOp) and isinstance(e.op, ast.Not): return not ev(e.operand, env)
    if isinstance(e, ast.Attribute):
        s=ast.unparse(e)
        if s=='style_element.__class__.__name__': return env['__clsname__']
        if s=='style_element.family': return env['family']
        return ('ATTR', s)
    if isinstance(e, ast.Tuple): return tuple(ev(x, env) for x in e.elts)
    if isinstance(e, ast.Call):
        f=e.func
        s=ast.unparse(f)
        if s.startswith('self._insert_style'):
            callee=dm[f.attr]
            params=[a.arg for a in callee.args.args[1:]]
            args=[ev(a, env) for a in e.args]
            loc=dict(zip(params,args)); loc['__clsname__']=env['__clsname__']
            try: run(callee.body, loc)
            except Ret as r: return r.v
            return None
        if s in ('self.styles.get_element','self.content.get_element'):
            return (s.split('.')[1], ev(e.args[0], env))
        if s in ('self.styles.get_style','self.content.get_style'):
            return ('LOOKUP', s.split('.')[1], tuple(ev(a, env) for a in e.args))
        if s=='self._pseudo_style_attribute': return env.get('name_attr','N')
        if s=='isinstance': return True
        if s=='hasattr': return True
        if s=='self._set_automatic_name': return None
        return ('CALL', s)
    return ('?', ast.unparse(e))
def run(body, env):
    for st in body:
        if isinstance(st, ast.If):
            if ev(st.test, env): run(st.body, env)
            else: run(st.orelse, env)
        elif isinstance(st, ast.Assign):
            v=ev(st.value, env)
            t=st.targets[0]
            if isinstance(t, ast.Name): env[t.id]=v
            elif isinstance(t, ast.Tuple):
                for x,vv in zip(t.elts, v): env[x.id]=vv
        elif isinstance(st, ast.Return): raise Ret(ev(st.value, env) if st.value else None)
        elif isinstance(st, ast.Raise): raise Rais()
        elif isinstance(st, ast.Expr): 
            try: ev(st.value, env)
            except KeyError: pass
def lookup_contexts(family):
    # Content: (font-face-decls,) if font-face else (font-face-decls, automatic-styles); Styles: CONTEXT_MAPPING.get or default ; not family -> all
    c = {('content','office:font-face-decls')} | (set() if family=='font-face' else {('content','office:automatic-styles')})
    if not family:
        s={('styles',x) for x in ('office:automatic-styles','office:styles','office:master-styles','office:font-face-decls')}
    else:
        q=CONTEXT_MAPPING.get(family) or ("//office:styles","//office:automatic-styles")
        s={('styles',x.lstrip('/')) for x in q}
    return c|s
ins=dm['insert_style']
fams=list(FAMILY_MAPPING)+['']
rows=0
for fam in fams:
    for mode,(auto,default,name) in {'common':(False,False,'N'),'automatic':(True,False,'N'),'automatic-unnamed':(True,False,''),'default':(False,True,'N')}.items():
        env={'style':'S','name':name,'automatic':auto,'default':default,'style_element':'S','family':fam,'__clsname__':'DrawFillImage' if fam=='' else 'Style','name_attr':name}
        # run the body from "family = style_element.family"
        body=[s for s in ins.body if not (isinstance(s, ast.Expr) and isinstance(s.value, ast.Constant))]
        try:
            # skip the first if (isinstance str) statements: emulate
            start=[i for i,s in enumerate(body) if isinstance(s, ast.Assign) and ast.unparse(s.targets[0])=='family'][0]
            run(body[start:], env)
        except Rais: continue
        except Ret: pass
        dest=env.get('style_container'); ex=env.get('existing')
        rows+=1
        lc=lookup_contexts(fam)
        tag = 'OK ' if dest in lc else 'MISS'
        exscope = ex
        if tag!='OK ': print(tag, repr(fam), mode, dest, 'lookup=', sorted(lc))
print('cells evaluated', rows)
