import ast, pathlib, shutil, subprocess, tempfile, sys
SRC = pathlib.Path('/repo/src/odfdo')
def variant(edit):
    d = pathlib.Path(tempfile.mkdtemp(prefix='odfsa_'))
    shutil.copytree(SRC, d/'odfdo')
    p = d/'odfdo'/'table.py'
    s = p.read_text()
    s2 = edit(s)
    assert s2 != s, 'edit did not apply'
    p.write_text(s2)
    out = subprocess.run(['/venv/bin/python','/tmp/proto/tom2.py', str(d/'odfdo')], capture_output=True, text=True).stdout
    shutil.rmtree(d)
    return [l for l in out.splitlines() if l.startswith('(')]
base = set(variant(lambda s: s + "\n# neutral\n"))
def show(name, edit):
    r = set(variant(edit))
    new = sorted(r - base); gone = sorted(base - r)
    print(f"== {name}: new={len(new)} gone={len(gone)}")
    for x in new: print('   +', x)
    for x in gone: print('   -', x)
show('neutral unparse', lambda s: ast.unparse(ast.parse(s)))
show('insert_cell: drop row.repeated=None', lambda s: s.replace("        row.y = y\n        row.repeated = None\n        cell_back = row.insert_cell", "        row.y = y\n        cell_back = row.insert_cell"))
show('rstrip: drop _compute_table_cache', lambda s: s.replace('        # raz cache of columns\n        self._indexes["_cmap"] = {}\n        self._compute_table_cache()\n\n    def optimize_width', '        # raz cache of columns\n        self._indexes["_cmap"] = {}\n\n    def optimize_width'))
show('rstrip: drop _indexes[_tmap] reset', lambda s: s.replace('        # raz cache of rows\n        self._indexes["_tmap"] = {}\n        # Step 3', '        # Step 3'))
show('set_cell: drop _update_width', lambda s: s.replace("                cell_back = row.set_cell(x, cell, clone=clone)\n                # Update width if necessary, since we don't use set_row\n                self._update_width(row)", "                cell_back = row.set_cell(x, cell, clone=clone)"))
show('set_values: drop set_row push', lambda s: s.replace("                style=style,\n            )\n            self.set_row(y, row, clone=False)\n            self._update_width(row)", "                style=style,\n            )\n            self._update_width(row)"))
show('get_row: return live', lambda s: s.replace("        if clone:\n            return row.clone\n        return row", "        return row"))
show('set_cell: test >= 1', lambda s: s.replace("            repeated = row.repeated or 1\n            if repeated > 1:\n                row = row.clone", "            repeated = row.repeated or 1\n            if repeated > 2:\n                row = row.clone"))
