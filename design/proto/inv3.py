import ast, pathlib
SRC = pathlib.Path('/repo/src/odfdo')
t = ast.parse((SRC/'table.py').read_text())
MUT = {'set_cell','set_value','set_values','set_cells','insert_cell','append_cell','delete_cell','extend_cells','rstrip','clear','force_width'}
STRUCT = {'_append','insert','extend','delete','clear','_set_repeated','set_item_in_vault','insert_item_in_vault','delete_item_in_vault','append_row','set_row','insert_row','append_column','extend_rows','extend_cells'}
for c in [n for n in t.body if isinstance(n, ast.ClassDef) and n.name=='Table']:
    rowmut=[]; structm=set(); ws=set()
    for f in c.body:
        if not isinstance(f, ast.FunctionDef): continue
        for n in ast.walk(f):
            if isinstance(n, ast.Call) and isinstance(n.func, ast.Attribute):
                r = ast.unparse(n.func.value)
                if n.func.attr in MUT and r not in ('self',) and ('row' in r):
                    rowmut.append((f.name, n.lineno, ast.unparse(n.func)))
                if n.func.attr in STRUCT and (r=='self' or r.endswith('parent')):
                    structm.add(f.name)
                if n.func.attr in ('_update_width',): ws.add(f.name)
            if isinstance(n, ast.Call) and isinstance(n.func, ast.Name) and n.func.id in STRUCT: structm.add(f.name)
    print('row-mutating call sites', len(rowmut), 'in methods', len({a for a,_,_ in rowmut}))
    for x in rowmut: print('  ', x)
    print('methods with structural mutation (direct)', len(structm), sorted(structm))
    print('methods calling _update_width', len(ws), sorted(ws))
r = ast.parse((SRC/'row.py').read_text())
for c in [n for n in r.body if isinstance(n, ast.ClassDef)]:
    s=set()
    for f in c.body:
        if isinstance(f, ast.FunctionDef):
            for n in ast.walk(f):
                if isinstance(n, ast.Call) and ((isinstance(n.func, ast.Attribute) and n.func.attr in STRUCT and ast.unparse(n.func.value)=='self') or (isinstance(n.func, ast.Name) and n.func.id in STRUCT)):
                    s.add(f.name)
    print('Row methods with structural mutation', len(s), sorted(s))
