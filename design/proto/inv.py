import ast, pathlib, collections
SRC = pathlib.Path('/repo/src/odfdo')
trees = {str(p.relative_to(SRC)): ast.parse(p.read_text()) for p in sorted(SRC.rglob('*.py'))}
print('modules', len(trees), 'functions', sum(isinstance(n,(ast.FunctionDef)) for t in trees.values() for n in ast.walk(t)), 'classes', sum(isinstance(n,ast.ClassDef) for t in trees.values() for n in ast.walk(t)))
# isinstance chains
TYPES = {'bool','int','float','Decimal','date','datetime','dtdate','timedelta','str','bytes','Float'}
def chain_tests(ifnode):
    out=[]; n=ifnode
    while True:
        out.append(n.test)
        if len(n.orelse)==1 and isinstance(n.orelse[0], ast.If): n=n.orelse[0]
        else: break
    return out
seen=set()
for m,t in trees.items():
    for fn in [n for n in ast.walk(t) if isinstance(n, ast.FunctionDef)]:
        for n in ast.walk(fn):
            if isinstance(n, ast.If) and id(n) not in seen:
                tests = chain_tests(n)
                cur=n
                while len(cur.orelse)==1 and isinstance(cur.orelse[0], ast.If):
                    cur=cur.orelse[0]; seen.add(id(cur))
                tys=[]
                for ts in tests:
                    for c in ast.walk(ts):
                        if isinstance(c, ast.Call) and getattr(c.func,'id','')=='isinstance' and len(c.args)==2:
                            names = [x.id for x in ast.walk(c.args[1]) if isinstance(x, ast.Name)]
                            tys.append((ast.unparse(c.args[0]), tuple(names)))
                vals = [t for t in tys if set(t[1]) & TYPES]
                if len(vals)>=2:
                    print(f"CHAIN {m}:{n.lineno} {fn.name}: {vals}")
# repeat attr writers
for m,t in trees.items():
    for fn in [n for n in ast.walk(t) if isinstance(n, ast.FunctionDef)]:
        for c in ast.walk(fn):
            if isinstance(c, ast.Call) and isinstance(c.func, ast.Attribute) and c.func.attr in ('set_attribute','set','del_attribute') and c.args and isinstance(c.args[0], ast.Constant) and 'repeated' in str(c.args[0].value):
                print(f"REPEATW {m}:{c.lineno} {fn.name} {c.func.attr}({c.args[0].value!r})")
    for c in ast.walk(t):
        if isinstance(c, ast.Constant) and isinstance(c.value,str) and '-repeated=' in c.value:
            print('REPEAT-LITERAL', m, c.lineno, c.value[:80])
# xpath sinks
SINKS={'xpath','get_elements','get_element','_filtered_elements','_filtered_element','xpath_compile','XPath','_get_element_idx','make_xpath_query'}
cnt=collections.Counter()
for m,t in trees.items():
    for c in ast.walk(t):
        if isinstance(c, ast.Call):
            nm = c.func.attr if isinstance(c.func, ast.Attribute) else getattr(c.func,'id','')
            if nm in SINKS: cnt[nm]+=1
print('xpath sink calls', dict(cnt), sum(cnt.values()))
