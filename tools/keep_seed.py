#!/usr/bin/env python3
"""Confirm an independently written breaking change and keep it under /verif/seeded/<name>/.
usage: keep_seed.py <name> <prop> <outdir> <worktree> "<needs>" [--missed-first "<what was added>"]
Confirms, in the scratch worktree (change applied there): demo fails with the change, whole suite passes with it,
demo passes without it; then applies the patch to /repo, runs every quick check, undoes it."""
import json, subprocess, sys, shutil, os, re
from pathlib import Path

name, prop, outdir, wt, needs = sys.argv[1:6]
missed = sys.argv[7] if len(sys.argv) > 7 and sys.argv[6] == "--missed-first" else None
VERIF = Path(__file__).resolve().parent.parent
out = Path(outdir)
env = dict(os.environ, PYTHONPATH=f"{wt}/src")
ran = []

def sh(cmd, cwd=wt, ok=None):
    r = subprocess.run(cmd, shell=True, cwd=cwd, env=env, capture_output=True, text=True)
    ran.append({"cmd": cmd, "exit": r.returncode, "tail": (r.stdout + r.stderr).strip().splitlines()[-1:]})
    return r

patch = subprocess.run(["git", "-C", wt, "diff", "--", "src"], capture_output=True, text=True).stdout
if not patch.strip():
    sys.exit("no change applied in the worktree")
(out / "patch.diff").write_text(patch)
r1 = sh(f"/venv/bin/python {out}/demo.py")
r2 = sh("/venv/bin/python -m pytest -q -p no:cacheprovider -n %s -x 2>&1 | tail -1" % os.environ.get("KEEP_SUITE_N", "8")) if True else ("")
# (no git stash here: the stash stack is shared by all worktrees of a repository, parallel jobs would swap their changes)
sh("git checkout -- src")
try:
    r3 = sh(f"/venv/bin/python {out}/demo.py")
finally:
    sh(f"git apply {out}/patch.diff")
suite_ok = " passed" in "".join(r2.stdout) and "failed" not in r2.stdout and "error" not in r2.stdout.lower()
confirmed = r1.returncode != 0 and suite_ok and r3.returncode == 0
print("demo with change:", r1.returncode, "| suite:", r2.stdout.strip(), "| demo without:", r3.returncode, "| confirmed:", confirmed)
if not confirmed:
    sys.exit("NOT CONFIRMED")
t = subprocess.run([str(VERIF / "tools/try_seed.py"), str(out / "patch.diff")] + ([prop] if os.environ.get("KEEP_OWN_ONLY") else []), capture_output=True, text=True)  # KEEP_OWN_ONLY=1: own check only (detected_by then lists that check alone)
print(t.stdout)
detected = re.findall(r"^(C\d+): exit 1 (\[.*?\])", t.stdout, re.M)
dst = VERIF / "seeded" / name
dst.mkdir(parents=True, exist_ok=True)
shutil.copy(out / "patch.diff", dst / "patch.diff")
shutil.copy(out / "demo.py", dst / "demo.py")
if (out / "notes.md").exists():
    shutil.copy(out / "notes.md", dst / "notes.md")
meta = {
    "property": prop,
    "written_by": "independent sub-agent given only the property text and a scratch worktree",
    "needs_to_manifest": needs,
    "confirmed": {"demo_with_change_exit": r1.returncode, "suite_with_change": r2.stdout.strip(), "demo_without_change_exit": r3.returncode},
    "commands_run": ran,
    "detected_by": [{"check": c, "rules": r} for c, r in detected],
    "missed_at_first": missed,
    "how_to_rerun": "git -C /repo apply seeded/%s/patch.diff && ./check %s ; git -C /repo checkout -- ." % (name, prop),
}
(dst / "meta.json").write_text(json.dumps(meta, indent=1))
print("kept", dst, "detected by", detected or "NOTHING")
