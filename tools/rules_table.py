#!/venv/bin/python
"""Print the rules table of DESIGN.md section 7.3 from the evidence files of the last run.

Usage: tools/rules_table.py            (markdown rows on stdout)
"""
import json
import pathlib

ROOT = pathlib.Path(__file__).resolve().parent.parent


def main():
    print("| id | rule | obligation | instances (floor) |")
    print("|----|------|------------|-------------------|")
    for p in sorted((ROOT / "evidence").glob("C*.json")):
        d = json.loads(p.read_text())
        pid = d["property_id"]
        for r in d["coverage"].get("rules", []):
            text = r["text"].replace("|", "\\|")
            print(f"| {pid} | {r['rule']} | {text} | {r['instances']} ({r['floor']}) |")


if __name__ == "__main__":
    main()
