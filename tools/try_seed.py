#!/usr/bin/env python3
"""Apply a seeded patch to /repo, run the quick checks, undo the patch.
usage: try_seed.py <patch.diff> [PROP ...]     (default: all claimed properties)
Prints, per property, exit code and the rules that fired."""
import fcntl, json, re, subprocess, sys
from pathlib import Path
from concurrent.futures import ThreadPoolExecutor

VERIF = Path(__file__).resolve().parent.parent
patch = str(Path(sys.argv[1]).resolve())
props = sys.argv[2:] or [c["property_id"] for c in json.loads((VERIF / "MANIFEST.json").read_text())["checks"]]
_lock = open("/tmp/.odfsa_try_seed.lock", "w")
fcntl.flock(_lock, fcntl.LOCK_EX)  # one patch in /repo at a time
st = subprocess.run(["git", "-C", "/repo", "status", "--porcelain", "--untracked-files=no"], capture_output=True, text=True).stdout.strip()
if st:
    sys.exit(f"/repo is not clean:\n{st}")
if subprocess.run(["git", "-C", "/repo", "apply", "--check", patch], capture_output=True).returncode != 0:
    sys.exit("PATCH-DOES-NOT-APPLY " + patch)
subprocess.check_call(["git", "-C", "/repo", "apply", patch])
try:
    def run(p):
        r = subprocess.run([str(VERIF / "check"), p, "--tier", "quick", "--no-evidence"], capture_output=True, text=True, cwd=VERIF)
        rules = sorted(set(re.findall(r": (R\d+[a-z]?): in ", r.stdout)))
        first = [l for l in r.stdout.splitlines() if re.search(r": R\d+[a-z]?: in ", l)][:2]
        err = [l for l in r.stdout.splitlines() if l.startswith("ANALYSIS-ERROR")]
        return p, r.returncode, rules, first, err
    with ThreadPoolExecutor(8) as ex:
        res = list(ex.map(run, props))
finally:
    subprocess.check_call(["git", "-C", "/repo", "checkout", "--", "."])
hit = False
for p, rc, rules, first, err in res:
    if rc != 0:
        hit = hit or rc == 1
        print(f"{p}: exit {rc} {rules} {err[:1]}")
        for l in first:
            print("     ", l[:230])
print("DETECTED" if hit else "MISSED", "by", [p for p, rc, *_ in res if rc == 1])
