#!/usr/bin/env python3
"""Maintain known_findings.json by hand (never used by checks at run time).
usage: kf.py fixed|open PROP RULE COMMIT-or-'-' "what" identity [identity ...]"""
import json, sys
from pathlib import Path
p = Path(__file__).resolve().parent.parent / "known_findings.json"
d = json.loads(p.read_text())
status, prop, rule, commit, what, *ids = sys.argv[1:]
e = {"property": prop, "rule": rule, "identities": ids, "status": status, "what": what}
if status == "fixed":
    e["commit"] = commit
    e["record"] = f"fixed: property={prop} {commit} {what}"
d["findings"].append(e)
p.write_text(json.dumps(d, indent=1, ensure_ascii=False) + "\n")
print("added", status, prop, rule, len(ids), "identities")
