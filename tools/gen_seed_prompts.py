#!/usr/bin/env python3
"""Write the prompts for a round of independently seeded changes (one or two sub-agents per property).

usage: gen_seed_prompts.py <round> <outdir> <worktree-root> [suffixes, default "a b"]

A prompt contains ONLY the text of the property (title, statement, quantifier) and the names of the changes
already kept under /verif/seeded (as a do-not-repeat list) — nothing else from /verif.  Each agent gets its own
scratch worktree <worktree-root>/<key>; create them with
    git -C /repo worktree add --detach <worktree-root>/<key> HEAD
and remove them afterwards (git -C /repo worktree remove --force …).
"""
import json
import sys
from pathlib import Path

VERIF = Path(__file__).resolve().parent.parent
rnd, outdir, wtroot = sys.argv[1], Path(sys.argv[2]), sys.argv[3]
suffixes = sys.argv[4:] or ["a", "b"]
outdir.mkdir(parents=True, exist_ok=True)
props = [json.loads(line) for line in (VERIF / "properties.jsonl").read_text().splitlines() if line.strip()]
avoid: dict[str, list[str]] = {}
for d in sorted((VERIF / "seeded").iterdir()):
    m = d / "meta.json"
    if m.exists():
        prop = json.loads(m.read_text())["property"]
        avoid.setdefault(prop, []).append(d.name.split("-", 1)[1].replace("-", " "))

HINT = {
    "a": "This time prefer a change inside one of the central functions that implement the property (but not one already listed).",
    "b": "This time prefer a change in a helper, a sibling class, a rarely used entry point or a data table that the central functions rely on — a part of the library that none of the listed changes touches.",
    "c": "This time prefer a change that only shows after a particular history (something cached, cloned, saved or reopened earlier), in code none of the listed changes touches.",
}

for p in props:
    q = p["quantifier"]["text"] if isinstance(p["quantifier"], dict) else str(p["quantifier"])
    for sfx in suffixes:
        key = f"{p['id']}{sfx}"
        wt = f"{wtroot}/{key}"
        out = f"{outdir}/{key}"
        Path(out).mkdir(parents=True, exist_ok=True)
        text = f"""You are helping to test a verification tool for the open-source Python library jdum/odfdo (a pure-Python library for reading, editing and writing OpenDocument files, built on lxml). You work ONLY inside your own scratch git worktree of the library at {wt} (source under {wt}/src/odfdo, tests under {wt}/tests). Do NOT read, list or modify anything under /repo or /verif, and do not look at any other directory under {wtroot}.

Here is a semantic property of the library that is supposed to hold for every input / history:

---
{p['title']}

{p['statement']}

It must hold {q}
---

Your job: produce ONE realistic change to the library's source (under {wt}/src/odfdo) that BREAKS this property, while
 (a) the code still imports/compiles, and
 (b) the ENTIRE existing test suite still passes with the change, and
 (c) the breakage needs something specific to manifest — a particular multi-step sequence of operations, an unusual input, a particular state (e.g. a cached value populated earlier, a repeated row/cell, a name with special characters, a document opened from a folder, a second save…), or two cooperating sites that each look fine alone. It must NOT be something ordinary use or the existing tests expose at once.
The change should look like something a developer could plausibly commit by mistake (an optimisation, a refactoring, a forgotten invalidation/copy/check, a swapped argument, an off-by-one in a rarely taken branch, an over-eager early return…). Keep it small (typically 1–15 changed lines). Other engineers have ALREADY produced the following changes (short descriptions), so do NOT repeat them or touch the same functions; pick a clearly different mechanism, function or file: {'; '.join(avoid.get(p['id'], [])) or '(none yet)'}. Changes already made for OTHER properties of the same library (avoid these mechanisms too, they are known): {'; '.join(n for k, v in sorted(avoid.items()) if k != p['id'] for n in v)}. {HINT.get(sfx, HINT['a'])} Read the relevant source first to find where the property is actually enforced, and pick a spot the tests do not pin.

How to run things (the library is normally installed from another checkout, so ALWAYS set PYTHONPATH to your worktree):
  cd {wt} && PYTHONPATH={wt}/src /venv/bin/python -m pytest -q -p no:cacheprovider -n 6 -x          # whole suite, 2-4 minutes; must pass WITH your change
  cd {wt} && PYTHONPATH={wt}/src /venv/bin/python your_demo.py
(There is no network. Do not install anything. Do NOT use `git stash` — the stash is shared between worktrees; to test without your change, save it with `git -C {wt} diff -- src > {out}/patch.diff`, run `git -C {wt} checkout -- src`, test, then `git -C {wt} apply {out}/patch.diff`.)

Deliverables — write them to {out}/ :
  1. patch.diff   — output of `git -C {wt} diff -- src` for your change (source change only, no new tests inside the diff).
  2. demo.py      — a small standalone program (uses `import odfdo`, run with PYTHONPATH={wt}/src) that exits 0 and prints "PROPERTY HOLDS" when the property holds for the scenario, and exits 1 printing "PROPERTY VIOLATED: <what>" when it does not. It MUST exit 0 on the unmodified source and exit 1 with your change applied.
  3. notes.md     — 5–15 lines: what you changed and where, why it breaks the property, exactly what is needed for it to manifest, and the commands you ran with their results (suite result with the change: N passed; demo result without / with the change). If, while reading, you notice that the UNMODIFIED library already violates the property somewhere, add a short section "Upstream defect noticed" with the input that shows it.

Process: (1) explore the code, (2) decide the change, (3) write demo.py and confirm it passes on the unmodified tree, (4) apply the change, (5) confirm demo.py now fails, (6) run the whole test suite with the change — if any test fails, choose a different change and repeat, (7) write the three files. Leave your change applied in the worktree when you finish. In your final answer, summarise the change in 3–4 lines and state the test-suite result.
"""
        (outdir / f"{key}.prompt.txt").write_text(text)
print(f"round {rnd}: {len(props) * len(suffixes)} prompts in {outdir}")
