#!/usr/bin/env python3
"""Regenerate /verif/MANIFEST.json from the table below (kept in one place so it stays valid)."""
import json
from pathlib import Path

VERIF = Path(__file__).resolve().parent.parent
PROPS = [json.loads(l)["id"] for l in (VERIF / "properties.jsonl").read_text().splitlines() if l.strip()]

# property -> (technique, level text, level note, design ref)
CLAIMED = {
    "C01": (
        "abstract interpretation (table object model: provenance/repeatedness typestate with context-sensitive inlining); unit type system over index kinds; guard extraction; affine-form evaluation of the run-splitting arithmetic",
        "Partial, structural. Decides for every Table/Row method, with all in-class callees inlined, that a row fetched from the table is "
        "un-repeated before its cells are edited and that edited copies are pushed back (the 'one row only' clause); that positions, counts, item "
        "indices and raw child indices are never confused in the vault functions; that insert_column/delete_column use the one guard that shifts "
        "every row alike; that a run with one repetition left is kept; and, by affine evaluation over (position, repeat, run start, run length), "
        "that the parts a run is split into in set/insert/delete add up to the run. The overlap loop, bisect and bulk stepping are not decided.",
        "Trusted: lxml child indexing; XPath [$idx] item selection; maps consistent with the XML at entry (C02).",
        "DESIGN.md §4 C01"),
    "C02": (
        "abstract interpretation (table object model: map/index state machine per owner, interprocedural by inlining); CFG must-pass-through on the vault functions; scheme/attribute/key table comparisons",
        "Partial, structural. Decides the property's own clause 'no read may be served from position maps or cached row/cell objects that an "
        "earlier operation has made obsolete' in its structural form: on every normal exit of every public Table/Row method all maps are restored "
        "and no wrapper index is stale, no map is read while obsolete, the vault functions reset index and map on every path after a mutation, the "
        "rebuilds read the scheme and attribute the getters and _set_repeated use, and clear() resets everything. Equality of an incrementally "
        "patched map with a rebuilt one is arithmetic and not decided.",
        "Trusted: vault axioms are justified by R02c in the same run; public repeated setters are treated as plain mutations inside the package.",
        "DESIGN.md §4 C02"),
    "C03": (
        "CFG path queries (dominators, must-pass-through, pairing) over the save chain; cache-drop obligation in Document.set_part",
        "Partial, structural. Decides on every path of the current source that unread parts are fetched before any writer runs, that every "
        "parsed XML part is re-serialised into the container before container.save (no filter but None), that the zip writer writes each live "
        "part exactly once and skips deleted parts (folder writer likewise), that a raw write of an XML part drops the stale parsed copy, and that "
        "names/encodings agree between readers and writers. Does not decide infoset equality of lxml output, byte identity or the readers.",
        "Trusted: zipfile, pathlib and lxml primitives; R11/R15 give purity of serialize().",
        "DESIGN.md §4 C03"),
    "C04": (
        "CFG dominance on the zip writer; part<->manifest pairing analysis; control-dependence of the manifest append; constant resolution of ZIP_STORED",
        "Partial, structural. Decides that 'mimetype' is written exactly once, first (dominates every other writestr) and with zipfile.ZIP_STORED, "
        "that nothing is written after the manifest, that every non-XML part written into / deleted from the container in document.py is paired "
        "with manifest.add_full_path / del_full_path on the same path expression on every normal path (or is manifest-driven), that add_full_path "
        "appends only under the entry's absence, and that the template path updates the root media type. Manifests of opened documents are not decided.",
        "Trusted: zipfile entry order; Document.set_part/Container.set_part themselves are the raw pass-through API (frozen exception).",
        "DESIGN.md §4 C04"),
    "C05": (
        "affine evaluation of the run-length encoder over N = len(run); encoder/decoder table extraction for text:s, text:tab, text:line-break (regexes tabulated with re._parser); shape check of the text accessor; CFG must-pass-through on append_plain_text",
        "Partial, structural, and deliberately narrow. Decides that every place where Paragraph._sub_merge_spaces encodes a run of N blanks emits pieces that decode to "
        "exactly N blanks (literal blanks + Spacer count, as affine forms in N, with the only-blanks test and count >= 1 in force); that the text:s codec agrees with itself "
        "(count stored from 2 up, default 1 when absent, decoded as that many blanks); that the splitter regex, the encoder arms and the decoders of text:tab and "
        "text:line-break name the same characters; that inner_text is own text + each child's str() and tail in order; and that append_plain_text applies expand → merge → "
        "replace once each on the whole content on every normal path. Does NOT decide the position-dependent case analysis (which runs are first, last or inner, for all "
        "strings and all ways of splitting them into append calls): that is a property of the string algorithm over all inputs, for which no sound static argument is in "
        "reach here (DESIGN.md §5) — most of the property's quantifier is therefore out of this check's reach.",
        "Trusted: ODF 1.2 §6.1.2 white-space processing; re.split with a capturing group; lxml text/tail model.",
        "DESIGN.md §4 C05"),
    "C06": (
        "ast table extraction: isinstance-chain lattice order; encoder/decoder attribute+codec table agreement; sibling dispatcher agreement",
        "Partial, structural. Decides for every isinstance dispatch chain in the package that no arm is shadowed by a superclass arm "
        "(the bool/int and datetime/date mechanism the property names), that each value type's attribute and codec written by "
        "set_value_and_type / set_user_defined_metadata is the one every reader reads, and that the three Python-type dispatchers agree. "
        "Does not decide value domains (huge ints, Decimal text, time zones, microseconds).",
        "Trusted: Python class lattice of the stdlib types, lxml attribute storage; codec value behaviour is only partly covered (C18).",
        "DESIGN.md §4 C06"),
    "C07": (
        "who-may-write rule with control-dependence on the guard constant; table-object-model width-sync obligation; CFG dominance on append_row; regex AST tabulation (re._parser) against a frozen spec table; exact folding of the forbidden named-range character set",
        "Partial, structural. Decides that the repeat attributes are written only by the three _set_repeated methods and only under "
        "not(repeated is None or repeated < 2); that every live row that may have gained cells reaches a width-sync event before a public Table "
        "method returns; that appending the first row declares the columns at child position 0; that height/width are the last map entry + 1; and "
        "that the accepted table names and named-range names are exactly those of the frozen spec tables. "
        "'Rows contain only cells' for documents built outside the API and shapes reachable only through arithmetic errors are not decided.",
        "Trusted: the frozen table of characters office applications reject in sheet names; TOM's recognition of the width-sync idiom.",
        "DESIGN.md §4 C07"),
    "C08": (
        "abstract interpretation (table object model escape analysis with default flags, coordinate-stamp tracking); structural sibling comparison of the expanding traversals; outside-area arm checks",
        "Partial, structural. Decides for the 16 getters documented as returning copies that every returned or yielded wrapper is a clone or a new "
        "object under the default flags, through all inlined helpers, and carries its coordinates; that both expanding traversals clone, stamp, "
        "clear the repeat (run > 1 or range starting inside a run, tested on the stamped x) and only then advance; and that reads outside the "
        "populated area return a fresh empty object and call nothing else. Coordinate values, ranges and filters are not decided.",
        "Trusted: Element.clone deep-copies (R10c); maps consistent with the XML (C02).",
        "DESIGN.md §4 C08"),
    "C09": (
        "text-conservation rules: slice-tiling and def-use to sinks at every cut site; slot-discipline extraction on is_text branch pairs; structural checks of tail preservation in delete and of the append order in the strip functions",
        "Partial, structural. Decides the mechanism of every insertion and removal: at the four places where a text node's string is cut, the "
        "slices chain [:a][a:b][b:] and each piece reaches a .text/.tail store or the wrapped builder; set_span/set_link place both match and tail; "
        "the text before the new element is written back into the slot the node came from and the element is placed first child / next sibling "
        "accordingly; Element.delete(keep_tail) moves the tail into prev.tail or parent.text on every path; _strip_tags/strip_tags append text, "
        "children and tail in order. Whether the offset/regex addressed the right substring and atomicity of two-step insertions are not decided.",
        "Trusted: lxml text/tail model; Element.__append(str) semantics.",
        "DESIGN.md §4 C09"),
    "C10": (
        "aliasing and state-coverage analysis of every clone implementation: by-value copy of list/dict state, _do_init control dependence of cache rebuilds, lazily-loaded vs pre-loaded packaging table, reset/copy coherence of derived caches",
        "Partial, structural. Decides that clone overrides copy lists/dicts by value and carry the coordinates; that Table/Row rebuild caches "
        "for re-wrapped nodes; that Element.clone is from_tag(deepcopy(node)); that Container.clone pre-loads every packaging get_part loads "
        "lazily before its deepcopy and detaches the clone from the path; that Document.clone flushes the parsed parts into the cloned container; "
        "and that XmlPart.clone never keeps a cached root while resetting its tree. Independence beyond the enumerated state is not decided.",
        "Trusted: copy.deepcopy of lxml trees and of the bytes dict.",
        "DESIGN.md §4 C10"),
    "C11": (
        "interprocedural effect analysis of Document.save under all flag constants; freshness check at pretty_indent call sites; control-dependence analysis inside pretty_indent; TEXT_CONTENT table comparison with the registry and a frozen ODF schema table",
        "Partial, structural. Decides that Document.save (pretty None/True/False), Container.save and the XmlPart serialisers reach no write into "
        "the in-memory XML except the generator stamp; that pretty_indent is only applied to private copies; that inside pretty_indent every tail "
        "write is unreachable under a textual parent and every text write unreachable for a textual element (one open known finding: the tail "
        "written after a non-textual child of a textual parent); that TEXT_CONTENT contains the tags of the package's paragraph-like classes and "
        "all 123 text-bearing elements of the frozen ODF 1.2 table; and that both flush arms serialise the same parts. "
        "That indentation is the only difference of the output is value-level and not decided.",
        "Trusted: the frozen list of ODF 1.2 elements with character content; ODF consumers ignore white space only in element-only content.",
        "DESIGN.md §4 C11"),
    "C12": (
        "whole-registry static enumeration: registry replica in import order, PropDef/define pairing, constructor-argument flow by three-valued abstract execution, keyword-acceptance chains along the MRO, store-target resolution, getter/setter attribute agreement, namespace-prefix resolution",
        "Partial, structural, over the whole registry (not a sample): every Element subclass is registered once with an effective tag and is reachable "
        "by import; every class with PropDefs defines them; each of the ~270 constructor parameters reaches an effect when provided; no keyword "
        "passed to a constructor inside the package is swallowed by **kwargs; wrappers are only built through from_tag; all ~590 prefix:name constants "
        "resolve; constructor stores land on real properties and are not cross-wired; explicit getter/setter pairs name a common attribute. "
        "Equality of infosets and value conversions inside getters are not decided.",
        "Trusted: import-order replay of module-level statements; Python attribute lookup along the MRO; two open known findings (TabStopStyle shadowed, Style.data_style unused).",
        "DESIGN.md §4 C12"),
    "C13": (
        "symbolic evaluation of the insert_style dispatch over the finite family x mode domain and of the lookup contexts; row-by-row table comparison; schema 'holds' table for existence-check scope; CFG dominance for delete-before-append; cross-document taint (clone-before-attach)",
        "Partial, structural. For each of 27 families (plus the fill-image pseudo style) and each mode, the container insert_style chooses is "
        "computed from the code and shown to be one the document lookup for that family searches; each helper's existence check is shown not to "
        "exceed its destination by a container that could hold such a style; delete-before-append dominates the append in insert_style and "
        "merge_styles_from; nodes of another document are cloned before being attached; automatic names are max+1 after a scan of both parts. "
        "Numeric name collisions, 'other document wins' ordering and reload are not decided.",
        "Trusted: the frozen ODF 1.2 table of which container can hold which style tag; lxml re-parenting semantics.",
        "DESIGN.md §4 C13"),
    "C14": (
        "taint analysis: string-builder flattening, quoted/predicate field detection, local def-use closure, interprocedural sink-parameter and query-return summaries (fixpoint)",
        "Decides the mechanism of the property for every lookup: no run-time string reaches an XPath sink between quote characters or "
        "directly after '=' in a predicate unless it is a constant, an integer, a member of a frozen literal collection or quoted by a function "
        "whose definition excludes the quote character (guard or split+concat). All 1072 functions and ~300 sink call sites are enumerated on "
        "every run. Does not decide XPath's own matching semantics nor which attribute each setter uses beyond make_xpath_query's table.",
        "Trusted: lxml XPath evaluation; XPath 1.0 has no escape inside literals; callees resolved by name for derived sinks (only unambiguous names).",
        "DESIGN.md §4 C14"),
    "C15": (
        "interprocedural XML-mutation effect analysis (worklist fixpoint over function summaries with kind inference, root/freshness tracking and flag-constant contexts) from every read-only entry point",
        "Decides the mechanism of the property for all ~440 read-only entry points enumerated from the current source (getters, searches, exports, "
        "string conversion, serialisation, replace() without a replacement): no lxml write and no write to the container's part table outside the "
        "lazy loaders is reachable on a value that is not fresh, under the default flags. Also checks that the Markdown export resets its module state "
        "on every normal path. Does not decide byte-for-byte equality under lxml's own lazy behaviours, nor exceptions leaving module state set.",
        "Trusted: lxml read accessors are pure; Python-level caches are not content; three frozen get-or-create / lazy-load exceptions; "
        "calls on receivers of unknown kind with ambiguous method names are counted as unresolved, not reported.",
        "DESIGN.md §4 C15"),
    "C16": (
        "effect analysis of replace() under the constant new=None; slot-discipline and accumulator extraction; registry table comparison for the formatted gate; accessor agreement of the search family; argument-order check at script call sites",
        "Partial, structural. Decides that counting without a replacement reaches no write and adds len(findall) per descendant text node; that the "
        "substituted string is written to container.text exactly when the node is its parent's text and to container.tail otherwise, and the count adds "
        "subn's number; that formatted re-normalisation is gated by exactly the tags of the classes implementing append_plain_text; that the five "
        "search functions read one accessor; and that the scripts pass their arguments in the method's order. Agreement with `re` at node edges and "
        "what the positions index are not decided.",
        "Trusted: re.subn/findall semantics; XPath descendant::text() enumerates each text run once.",
        "DESIGN.md §4 C16"),
    "C17": (
        "CFG dominance/control-dependence on set_span; set_span/del_span table agreement; guard analysis of the strip loops; table-object-model end state of the bulk edits",
        "Partial, structural. Decides that set_span checks the whole area for an existing span before any write and changes values only under "
        "merge; that set_span and del_span write/remove the same attributes, swap the same tag pair over the same cells and push back with the same "
        "call; that span extents are (z-x+1, t-y+1); that every row/cell deletion of the strip functions is control-dependent on an emptiness test "
        "of that item (or a counter fed only by such tests) in a reversed scan that stops at the first non-empty item; and that the bulk edits end "
        "with restored caches. Involution, idempotence, value preservation and the CSV round trip are not decided.",
        "Trusted: is_empty/is_spanned semantics; set_cells placement (C01).",
        "DESIGN.md §4 C17"),
    "C18": (
        "ast table extraction and comparison: decoder dispatch exhaustiveness, encoder/decoder literal, designator and unit tables, exhaustive validation of the literal colour table",
        "Partial, structural. Decides that decoders reject unknown characters (dispatch ends in a raising arm), that the literals/designators/"
        "sign/unit divisors written by Boolean, Duration, DateTime and Date encoders are the ones their decoders read, and validates all 147 "
        "CSS colour entries plus the format fields and slices of rgb2hex/hex2rgb (the 'all CSS colour names' quantifier is enumerated completely). "
        "Does not decide inverse-ness over the date/duration value domains, time zones, microseconds, or Unit values given as floats with an exponent.",
        "Trusted: stdlib isoformat/fromisoformat; W3C values of the 17 basic colours; ISO 8601 unit sizes.",
        "DESIGN.md §4 C18"),
    "C19": (
        "axis typing by abstract interpretation (x/y tags from unpack position, translating helper or paired length) with sink checks; delimiter-table comparison of the named-range address writer and reader; dominance query on the rename; call-graph reachability of the coordinate parser",
        "Partial, structural. Decides for every coordinate-derived integer in Table, Row and NamedRange methods that column components feed only "
        "column ranges/widths/x stamps and row components only row ranges/heights/y stamps (187 sink sites), that transpose writes back the "
        "transposed rectangle, that the named-range address writer quotes what its reader splits on (open known finding), that a rename retargets "
        "named ranges before overwriting the name, and that all 47 public coordinate parameters reach the one parser. "
        "Does not decide the letters<->numbers bijection nor convert_coordinates' parsing.",
        "Trusted: the documented (x, y, z, t) component order; ODF address grammar for quoting.",
        "DESIGN.md §4 C19"),
    "C20": (
        "registry-typed __str__ decoration check on formatted element content; CFG dominance queries on TOC.fill; guard extraction; constant-table comparison of the two numbering functions",
        "Partial, structural. Decides that no element with a decorated __str__ is formatted into element content (the cause of extra line breaks in "
        "entries), that a refill clears the old index body before appending and re-inserts the saved title first, that entries are appended once per "
        "heading in document order behind exactly the outline-level filter read from the TOC source, and that TOC._header_numbering and the "
        "odfdo-headers script share all numbering constants. The numbering function over all level sequences is not decided.",
        "Trusted: XPath document order; registry typing of descendant::text:h as Header.",
        "DESIGN.md §4 C20"),
}

# clauses added after the independently seeded changes of DESIGN.md section 8 (appended to the level text)
EXTRA = {
    "C01": "Also decides (added later): the append declarations declare the repeat of the item appended (R01f), position lookup is bisect_left with None beyond the end (R01g), "
           "bulk setters advance by the width of what they set (R01h), and C02's cache rules R02a-c, which are necessary conditions here too. Round 3: R08f (rows read through Table.traverse are complete, stamped with their position and one fresh copy each). Round 4: R19a (axis typing, incl. the components of Table.size) is evaluated here too. Round 5: the reset of the wrapper indexes, per key or as a whole attribute, gives every index its own new dict (R02f shared); R02h is evaluated here too. Round 6: R10h (a setter attaches a copy unless told otherwise; a method without a clone flag never hands its own parameter over with clone=False) is evaluated here too. Round 7: a position beyond the extent is reached by a filler of (position − extent) repetitions, the signs of that difference derived from the tests in force (R01i). Round 8: every normal path of a set_/insert_/append_ method reaches its write — no early return on a test of the value or the extent (R01j). Round 9: the whole-row setters of Table fill a freshly constructed Row (R01k). Round 10: table code never selects cells by the plain cell tag (R01l); raw lxml remove() only inside Element.delete (R09i shared).",
    "C03": "Also decides that each save wrapper cleans (backup/unlink) exactly the location it then writes and that the folder writer always starts from a cleaned location (R03f). Round 3: no file-like save target is repositioned without being truncated (R03g). Round 4: class lookup, parsed-part cache and container call see the same definition of the part path (R03h). Round 5: the serialiser is handed the part's tree, not its root element (R03e). Round 6: Container.get_part overwrites an existing entry of the part table only if it loaded that entry from disk itself (R03i); R11h and R11d/e are evaluated here too (reopen parses without dropping content; an indented save keeps mixed content). Round 7: bulk loaders store every member of the source (R03j); Container.save's pre-load loop is recognised through local aliases. Round 8: the writers filter no part by its name and the folder dump helper has no early return (R03c); ODF_EXTENSIONS and ODF_MIMETYPES have no duplicate key and are inverse of each other (R03l). Round 9: a member read from disk on demand is filed in the part table on every path that returns it (R03m).",
    "C04": "Also decides the reverse pairing (a manifest entry only for a part written on every path; dedupe never drops a distinct path) and that bulk loaders never overwrite "
           "a part already in memory, deleted ones included (R10f, with alias resolution). Round 4: R03b (every parsed part, the manifest included, is flushed on every path to container.save) is evaluated here too. Round 5: every path that marks a part deleted also removes its manifest entry (R04b reverse pairing). Round 6: the manifest names a part by the path it is stored under — attribute API, no encoding, not pasted into XML text (R04e); no decision by a membership test on the member list of the file on disk (R04f; expected count 0, fixture on every run); every writer of the mimetype part updates the manifest root entry (R04d); R10d is evaluated here too. Round 7: a part stored through Document.set_part is filed in the manifest under the normalised name (R04h); R14f (a path is matched by equality, never by prefix) is evaluated here too. Round 8: every Blob constructor leaves with a media type (R04i). Round 10: a media type is tested against ODF_MIMETYPES exactly as it is kept (R04j). Round 11: the zip writer filters no part by its name (R03c shared).",
    "C06": "Also decides that the value-type attribute is written wherever a typed value is written (R06d) and that every input value of a bulk setter reaches its own "
           "typed-value encoder call on every path — none skipped, merged by Python equality, or filtered (R06e). Round 3: the codec rules R18a/R18b/R18d are evaluated here too. Round 5: on the way to office:value a number is rendered without precision format, round() or int(float()) (R06f). Round 6: the numeric arm of the type-dispatching readers returns Decimal of the attribute text with the digits untouched (R06f, reader side). Round 7: the loop of a bulk setter is not skipped on a comparison of values, metadata bulk setter included (R06e); type-dispatching readers test raw text with `is None` only (R06g). Round 8: the encoder of a typed setter is chosen by the type of the value, never by its fields (R06h); serialize() edits tags only (R12o shared). Round 9: on the typed-value path a test for int is reached only after bool has been excluded (R06i). Round 10: value options passed positionally land on the parameter of the same name (R06j). Round 11: no stored value is replaced by a default through `or` (R06k).",
    "C07": "Also decides that a column declaration inserted by position goes to child 0 or next to an existing column declaration (R07f, reaching definitions). Round 3: every test in _table_name_check sees the definition of the name that is returned (R07e). Round 4: the column-trim loops keep R - D columns on a kept element and carry D - R after a removed one (R07g, affine). Round 5: the width synchronisation after a bulk append iterates the table's own rows (R07h); the cache rules R02a/R02b are evaluated here too. Round 6: the hand-written cell-address automaton of the NamedRange.name setter is extracted and shown equivalent to letters+digits+ over all class strings up to length 8 (R07i). Round 7: Row.minimized_width sums every run and reduces the last one only when the last cell tests empty (R17i shared); R01f (declared run length = repeat of the item) is evaluated here too. Round 8: the target width of optimize_width is the maximum over every stored row (R17i). Round 10: outside class Table rows reach a table through its row API, not through element primitives (R07j).",
    "C08": "Also decides for Table.traverse that the producer yields `repeated or 1` copies of every XML row from row 0, that the stamp counter starts at the matching constant "
           "and advances once per item, and that the range tests on it are strict and precede the yield (R08f). Round 3: the run arithmetic of the expanding traversals starts from before = x - 1 (R08c, affine) and each yielded row is its own copy (R08f). Round 5: R19g is evaluated here too (a getter addressed through a Table method reaches the row with a coordinate already resolved against the table). Round 7: plural readers take cells from the expanding traversal or from get_cell(keep_repeated=False) (R08g); every copy of a run is cloned from the stored item (R08c); R02d is evaluated here too. Round 9: a wrapper index is read and written under the item index the element is fetched with (R02i shared). Round 10: clear() drops the cell map with the cells (R02j shared).",
    "C09": "Also decides that three-way cuts are ordered: the end of a cut is its start plus a provably non-negative length, or both are one regex match span (R09d, sign analysis). Round 4: the element handed to _insert() is newly built, never a node already in the tree (R09e). Round 5: the occurrence counter of the regex-driven inserters accumulates, and start and end mark use one position (R09f). Round 6: P.delete(C) is asked of the element C was found under (R09g); R16i(b) is evaluated here too. Round 7: the position helpers return an entry of the finditer list of the chosen node, the last one for -1 (R09h). Round 8: raw lxml remove() only inside Element.delete (R09i); the text-node queries are compiled text() XPaths (R09j). Round 9: strip_tags is handed collections of tag names, never a bare string (R09k). Round 10: constructors store the text they are given untidied (R09l). Round 11: a node placed with lxml's addnext has both tails rewritten after it (R09m).",
    "C10": "Also decides that bulk loaders of the part table keep entries already in memory (R10f). Round 3: clone builders hand the clone only copies on every path; Element.clone's holder is local (R10g). Round 4: setters with a clone flag attach a copy whenever the flag may be true (R10h). Round 6: a method without a clone flag passes clone=False only for objects it made or read itself (R10h). Round 8: the pre-load before a container clone is guarded only by packaging, path and absence from the table (R10d); an XmlPart class stores no node of its tree on itself besides tree and root (R10i). Round 9: every attribute a parsed part keeps outside its bytes is carried over by Document.clone (R10j; one upstream site repaired); a clone receives new empty wrapper indexes (R02f shared). Round 10: a copy made under the clone flag protects only the attaches that are under the same other conditions (R10h). Round 11: a constructor call that only replaces a missing argument does not make the parameter a fresh object (R10h).",
    "C11": "Also decides that indented bytes are stored in the container only for parts whose parsed tree stays in the document's cache (R11g). Round 3: nothing is parsed with a content-dropping parser (R11h). Round 4: the flat-XML writer gives every replaced image its own new node (R11i); R11h also covers module-level parsers. Round 5: R03a (what is written is what is in memory) is evaluated here too. Round 7: the encoded image takes the place of the image (R11i); a str method on a node's tag is preceded by a test that the tag is a string (R11j); XmlPart parses its bytes once (R11k). Round 9: no serialisation is remembered on a part (R14i shared). Round 10: the flat-XML writer moves every top-level child of every part (R11l).",
    "C02": "Round 3: every reset of a wrapper index assigns its own new empty dict (R02f). Round 4: a wrapper is cached under an item index computed after the last renumbering (R02g). Round 5: R02f also reads whole-attribute assignments of _indexes; no answer of a table class is memoised outside the governed caches (R02h: no cache decorator, no store on self but _indexes[…] in a read-only method; expected count 0, fixture on every run); in the table abstract interpreter the deletion of an unclassified child dirties every map and index. Round 6: R10h is evaluated here too (attaching the caller's own row moves a node while the map counts a new item). Round 9: a wrapper index is read and written under the item index the element is fetched with; index stores through a local alias are followed (R02i, R02g). Round 10: CachedElement.clear resets each position map on its own (R02j).",
    "C12": "Also decides that no constructor store that may rebuild the element (self.clear() reachable) follows another store on self (R12j), and that no traversal memoises "
           "registry lookups (R12e). Round 3: R10c/R10g (clone is one of the access paths). Round 4: element classes and their mixins query relative to self (R12k); R11h is evaluated here too. Round 5: the six generic attribute accessors of Element carry the value verbatim (R12l); no hand-written property getter/setter applies a lossy string call, two documented exceptions frozen by symbol (R12m). Round 6: R18b/R18d are evaluated here too (constructor arguments include dates and durations). Round 7: raw attribute values are tested with `is None` only (R12l); the qualified-name helpers keep the spelling of names (R12n). Round 8: _strip_namespaces edits tags only (R12o); a setter that maintains a memo assigns it on every path (R12p); retagging stays within one registered class (R12q). Round 10: no keyword argument is fed from a sibling parameter that the callee also declares (R12r). Round 11: Element.from_tag builds every wrapper with the class looked up in the registry (R12s).",
    "C13": "Also decides that merge_styles_from looks for the style to replace in the whole destination part — neither one container nor the whole document (R13c). Round 5: insert_style returns the name read from the style after the append (R13f). Round 6: a caller-given name is written onto the style before it is placed, whatever name it carried (R13g); Element.get_style filters by the family it was given and reads the name of the object it was given (R13h). Round 7: insert_style is handed a style that was built or cloned, never the object a lookup returned (R13i); a name is looked up as a name, a display name as a display name (R13j). Round 8: style:style families are looked up in both office:styles and office:automatic-styles (R13k); an insert helper answers \"nothing to replace\" only after generating an unused name (R13l). Round 9: no method of Document or of an XmlPart class is latched by a done-flag it sets itself (R13m). Round 10: outside __init__ a Document method stores only into the governed caches (R13n). Round 11: Styles._get_style_contexts walks the CONTEXT_MAPPING entry of the family in its own order (R13o).",
    "C14": "Also decides that the string-literal helper denotes exactly its argument (R14c) and that neither an identifier nor a finished query passes through a lossy string "
           "transformation on its way to an XPath sink (R14d; expected count 0, fixture on every run). Round 3: no identifier parameter is compared with a bool-decoding attribute property (R14e). Round 4: R19b (address writer and reader agree on quoting the table name) is evaluated here too. Round 5: R14d also knows function-form rewrites (normalize, re.sub …) and checks the query builders themselves; R19f (a name is matched whole, never as a substring) is evaluated here too. Round 6: R14d also reports run-time text used as a %-template or str.format template. Round 7: every quoted identifier is the right-hand side of `=` (R14f) and a `str | int` parameter is told apart by type, never by its digits (R14g) — both expected count 0 with a fixture on every run; an element of unknown class is undetermined in R14e, never reported. Round 8: no str-predicate test on lookup criteria (R14h); no lookup of an XmlPart class keeps a memo of its answers (R14i). Round 9: an attribute saved across self.clear() is restored on every path, conditional at most on `is not None` (R14j). Round 10: names are compared as they stand, without case or blank folding (R14k). Round 11: a get_* method does not rewrite the name it is given (R14l).",
    "C15": "Wrapping an existing node (every Element __init__ under _do_init False) is analysed as a read-only entry point; parameters that merely default to None are analysed both ways. Round 3: local collections keep the roots of the tree values stored into them. Round 5: attaching a node that already has a parent is a mutation of the tree it came from (lxml moves it); no report shares per-call state — nested-mutable module/class constants leave a function only through deepcopy, no mutable default is changed or handed on (R15c; expected count 0, fixture on every run).",
    "C16": "Also decides that the per-text-node loop is on every normal path of replace() (R16a), that nothing restructures the tree while its pre-collected text nodes are "
           "iterated (R16f), and that append_plain_text re-reads the whole container on every normal path (R16g). Round 3: the text accessors behind search are not memoised (R16h). Round 5: the content reader of append_plain_text hands on the live children, and a regular expression substituted on the append path consumes U+0020 only (R16i). Round 6: no class of the Element hierarchy defines __len__ or __bool__ (R16j). Round 7: the search family passes no flags (R16d); the Element.text / Element.tail setters store the string they are given (R16k). Round 8: every return of inner_text has the shape text + Σ(str(child) + tail) (R05d shared). Round 10: the splitter of append_plain_text isolates exactly the characters the encoder arms handle (R05c shared).",
    "C17": "Also decides that value, children and span membership make a cell non-empty regardless of `aggressive` (R17g) and that no positional collection is built from "
           "stored row/cell/column elements without their repeat count (R17h). Round 3: shrinking a repeat count needs the same emptiness evidence as a delete (R17d); R01a is evaluated here too. Round 4: the span scan of set_span covers the whole matrix that is pushed back (R17a). Round 5: what csv.reader is fed keeps its line ends and is not rewritten (R17f). Round 6: the repeat-shrink clause of R17d reads subscripted receivers; R08c is evaluated here too. Round 7: to_csv writes every value it appended (R17f); minimized_width (R17i); is_spanned tests every mark of a span (R17j). Round 8: del_span read cell by cell drops every repeat count (R17c); no table container is emptied with the element-level clear(), which removes its attributes (R17k; three upstream sites repaired); no filter in front of the CSV importer's numeric attempts rejects a numeral the exporter writes (R17l). Round 9: a translated coordinate is never tested for truth (R19l shared). Round 10: the aggressive flag is forwarded to every callee that takes it (R17m). Round 11: table code never selects cells by the plain cell tag (R01l shared).",
    "C18": "Also decides that Date/DateTime encoders return isoformat() on every path (R18b) and, by affine evaluation over (days, seconds, microseconds), that Duration.encode "
           "splits |T| with the sign of T (R18d). Round 5: Unit writes the stored Decimal by plain str() followed by the unit; its parser takes digits and '.' as the number (R18e). Round 6: encoders leave the whole text to isoformat() (no hand-made offset or field arithmetic); decoders try fromisoformat() on the string as given before any fallback (R18b). Round 7: the colour table holds the 147 CSS3 names, every gray with its grey (R18c). Round 10: rgb2hex formats the tuple it is given (R18f).",
    "C19": "Also decides that alpha_to_digit/digit_to_alpha use one base and inverse offsets (R19e) and that no name is matched by `in` on a parameter that may be a bare str (R19f). Round 3: R08c is evaluated here too (a range bounds the result on both sides). Round 4: Table methods hand rows only coordinates already resolved against the table (R19g). Round 5: neither column conversion refuses a value for its length or magnitude — both have the same unbounded domain (R19e). Round 6: a Table method that uses the row components of a translated area resolves it with the table translator, one that uses the column components only with the column translator (R19h). Round 7: named-range listing and lookup search the same path (R19i). Round 8: symbolic evaluation of the four coordinate translators on every argument form (R19j; one open finding: Row reads a single string reference as a range); Table methods write addresses from translated coordinates only (R19k). Round 9: a translated coordinate is never tested for truth (R19l); every normal path of Table.set_named_range writes the table name and the area it was given (R19m).",
    "C05": "Round 5: constructors and append() of paragraph, heading and span store caller text only through the encoder or _unformatted (R05f); every str chunk of the rebuilt content is re-encoded, with no positional exemption (R05g); a regular expression substituted on the append path consumes U+0020 only (R16i, shared with C16). Round 7: a `$`-anchored pattern is applied only by match() to pieces of the blank splitter (R05h); the test in front of the encoder call looks at the text as given (R05f).",
    "C20": "Also decides that the numbering counters advance only for headings that pass the level filter, in TOC.fill and in the sibling script (R20c). Round 3: the entry text excludes the heading's tail (R20c). Round 4: R12k is evaluated here too (TOC.outline_level reads this TOC's own source). Round 5: TOC.fill and the heading-listing script read the heading text through the same accessor (R20e). Round 6: the TOC.outline_level setter stores the request unchanged on every path (R20f). Round 7: the TOC.body setter removes the previous index body whatever is assigned (R20g). Round 8: an outline level written from a parameter is that parameter, not a loop counter of the same name (R20h, reaching definitions). Round 9: the XmlPart.body setter refills the existing body element instead of replacing it (R20i). Round 10: the helper classes of toc.py inherit the full-text __str__ that fill() judges the title by (R20j). Round 11: TOC.fill builds its entries with the default, white-space preserving formatting (R20k).",
}

NOT_APPLICABLE = {}
NOT_YET = "check not built yet in this round (rules specified in DESIGN.md §4, build order §7); not claimed until the check exists"


def main():
    checks = []
    for pid in PROPS:
        if pid not in CLAIMED:
            continue
        tech, text, note, ref = CLAIMED[pid]
        checks.append({
            "property_id": pid,
            "quick_cmd": f"./check {pid} --tier quick",
            "thorough_cmd": f"./check {pid} --tier thorough",
            "evidence_file": f"/verif/evidence/{pid}.json",
            "replay_cmd_template": f"./check {pid} --replay {{path}}",
            "engine": "odfsa",
            "level_claimed": {"category": "other", "text": (text + " " + EXTRA[pid]) if pid in EXTRA else text, "design_ref": ref},
            "level_note": note,
            "technique": "static analysis: " + tech,
        })
    na = []
    for pid in PROPS:
        if pid in CLAIMED:
            continue
        na.append({"property_id": pid, "reason": NOT_APPLICABLE.get(pid, NOT_YET)})
    man = {
        "version": 1,
        "setup_cmd": "test -d /repo/src/odfdo && (test -x /venv/bin/python || command -v python3) >/dev/null && ./check --help >/dev/null",
        "hooks": {
            "guard": "ODFDO_VERIF",
            "enable": "none needed: the checks only parse /repo/src/odfdo, nothing is instrumented or executed",
            "baseline_off_cmd": "cd /repo && /venv/bin/python -m pytest -ra -q -p no:cacheprovider --timeout=900 --continue-on-collection-errors",
            "source_commits": [],
            "add_only": True,
        },
        "engines": [{
            "name": "odfsa",
            "path": "/verif/odfsa",
            "serves_properties": sorted(CLAIMED),
            "kind_free_text": "repository-specific static analyser (stdlib ast): symbol/class tables, registry replica, statement CFG "
                              "with dominators, abstract interpreters (table object model, XML-mutation effects, taint, affine index forms), "
                              "table extraction and comparison",
        }],
        "checks": checks,
        "notes": "All checks are static: they parse /repo's current working tree on every run and never import odfdo. "
                 "Exit 0 held / 1 VIOLATION / 2 ANALYSIS-ERROR. Known findings in /verif/known_findings.json.",
        "not_applicable": na,
    }
    (VERIF / "MANIFEST.json").write_text(json.dumps(man, indent=1) + "\n")
    print("claimed", sorted(CLAIMED), "not claimed", [x["property_id"] for x in na])


if __name__ == "__main__":
    main()
