#!/venv/bin/python
"""Regenerate the generated blocks of DESIGN.md:
   <!-- BEGIN rules-table --> … <!-- END rules-table -->     from evidence/*.json (last run)
   <!-- BEGIN seeds-table --> … <!-- END seeds-table -->     from seeded/*/meta.json (refresh with tools/reeval_seeds.py first)
"""
import json
import pathlib
import re

ROOT = pathlib.Path(__file__).resolve().parent.parent


def rules_table() -> str:
    out = ["| id | rule | obligation | instances (floor) |", "|----|------|------------|-------------------|"]
    for p in sorted((ROOT / "evidence").glob("C*.json")):
        d = json.loads(p.read_text())
        for r in d["coverage"].get("rules", []):
            out.append(f"| {d['property_id']} | {r['rule']} | {r['text'].replace('|', chr(92) + '|')} | {r['instances']} ({r['floor']}) |")
    return "\n".join(out)


def seeds_table() -> str:
    out = ["| seeded change (`/verif/seeded/…`) | property | what it takes to manifest | caught by (quick tier) | first seen as |",
           "|---|---|---|---|---|"]
    for d in sorted((ROOT / "seeded").iterdir()):
        mp = d / "meta.json"
        if not mp.exists():
            continue
        m = json.loads(mp.read_text())
        det = m.get("detected_by_now") or m.get("detected_by") or []
        dets = "; ".join(f"{x['check']} {x['rules'].strip('[]').replace(chr(39), '')}" for x in det) or "**MISSED**"
        first = "missed → rule added (see notes below)" if m.get("missed_at_first") else "caught"
        out.append(f"| `{d.name}` | {m['property']} | {m.get('needs_to_manifest', '').replace('|', '/')} | {dets} | {first} |")
    notes = ["", "What was missing when a change was first missed, and what was added:", ""]
    for d in sorted((ROOT / "seeded").iterdir()):
        mp = d / "meta.json"
        if mp.exists():
            m = json.loads(mp.read_text())
            if m.get("missed_at_first"):
                notes.append(f"* `{d.name}` — {m['missed_at_first']}")
    return "\n".join(out + notes)


def main():
    p = ROOT / "DESIGN.md"
    s = p.read_text()
    for name, fn in (("rules-table", rules_table), ("seeds-table", seeds_table)):
        pat = re.compile(rf"(<!-- BEGIN {name} -->\n).*?(\n<!-- END {name} -->)", re.S)
        if not pat.search(s):
            raise SystemExit(f"marker {name} not found in DESIGN.md")
        s = pat.sub(lambda m: m.group(1) + fn() + m.group(2), s)
    p.write_text(s)
    print("DESIGN.md updated")


if __name__ == "__main__":
    main()
