#!/usr/bin/env python3
"""Print a source file without docstrings (keeps line numbers). usage: nodoc.py file [start] [end]"""
import ast, sys
p = sys.argv[1]
src = open(p).read()
lines = src.splitlines()
skip = set()
for n in ast.walk(ast.parse(src)):
    if isinstance(n, (ast.FunctionDef, ast.ClassDef, ast.AsyncFunctionDef, ast.Module)):
        b = n.body
        if b and isinstance(b[0], ast.Expr) and isinstance(b[0].value, ast.Constant) and isinstance(b[0].value.value, str):
            for i in range(b[0].lineno, b[0].end_lineno + 1):
                skip.add(i)
s = int(sys.argv[2]) if len(sys.argv) > 2 else 1
e = int(sys.argv[3]) if len(sys.argv) > 3 else len(lines)
for i, l in enumerate(lines, 1):
    if i < s or i > e or i in skip or not l.strip():
        continue
    print(f"{i}\t{l}")
