#!/venv/bin/python
"""Whole-package neutrality probe (not part of any registered check): applies one behaviour-preserving transformation of odfsa.selftest
(alpha_rename | invert_if_else | insert_noop) to EVERY module of /repo in memory and compares the findings of one check with the clean tree.
usage: tools/neutral_all.py C07 alpha_rename"""
import sys, pathlib, importlib, traceback
sys.path.insert(0,'/verif')
from odfsa.core import Repo, AnalysisError
from odfsa.report import Ctx
from odfsa import selftest
root=pathlib.Path('/repo')
fn=getattr(selftest, sys.argv[2])
ov={}
for f in (root/'src/odfdo').rglob('*.py'):
    rel=str(f.relative_to(root)); ov[rel]=fn(f.read_text())
prop=sys.argv[1]
mod=importlib.import_module(f'odfsa.rules.{prop.lower()}')
def ids(repo):
    ctx=Ctx(prop,repo,'quick'); mod.run(ctx); ctx.check_floors(); return {f.identity:f for f in ctx.findings}
base=ids(Repo(root))
try:
    new=ids(Repo(root,overrides=ov))
except AnalysisError as e:
    print(prop,'ANALYSIS-ERROR',e); sys.exit()
except Exception as e:
    print(prop,'CRASH',repr(e)); traceback.print_exc(); sys.exit()
add=[i for i in new if i not in base]; gone=[i for i in base if i not in new]
print(prop,'new',len(add),'gone',len(gone))
for i in add[:8]: print('   +',i[:220])
for i in gone[:4]: print('   -',i[:220])
