#!/usr/bin/env python3
"""Re-run the quick checks against every kept seeded change and refresh meta.json['detected_by_now'];
prints the table used in DESIGN.md section 8."""
import json, re, subprocess, sys
from pathlib import Path
VERIF = Path(__file__).resolve().parent.parent
rows = []
args = sys.argv[1:]
OWN = "--own" in args  # run only the check of the seed's own property (fast: the guarantee that matters)
only = [a for a in args if a != "--own"]
for d in sorted((VERIF / "seeded").iterdir()):
    if not (d / "patch.diff").exists() or (only and d.name not in only):
        continue
    meta = json.loads((d / "meta.json").read_text())
    t = subprocess.run([str(VERIF / "tools/try_seed.py"), str(d / "patch.diff")] + ([meta["property"]] if OWN else []), capture_output=True, text=True)
    if "PATCH-DOES-NOT-APPLY" in (t.stdout + t.stderr):
        print(f"| `{d.name}` | PATCH DOES NOT APPLY to the current tree — rebase it |")
        continue
    det = re.findall(r"^(C\d+): exit 1 (\[.*?\])", t.stdout, re.M)
    err = re.findall(r"^(C\d+): exit 2", t.stdout, re.M)
    if OWN:
        others = [x for x in meta.get("detected_by_now", meta.get("detected_by", [])) if x["check"] != meta["property"]]
        meta["detected_by_now"] = [{"check": c, "rules": r} for c, r in det] + others
    else:
        meta["detected_by_now"] = [{"check": c, "rules": r} for c, r in det]
    meta["own_property_check_fires"] = any(c == meta["property"] for c, _ in det)
    (d / "meta.json").write_text(json.dumps(meta, indent=1))
    rows.append((d.name, meta["property"], "; ".join(f"{c} {r}" for c, r in det) or "MISSED", meta.get("missed_at_first"), err))
for name, prop, det, missed, err in rows:
    print(f"| `{name}` | {prop} | {det} | {'added after a miss' if missed else ''} |" + (f" exit2: {err}" if err else ""))
