"""Static replica of odfdo's element class registry.

Replays the module-level statements in the order the interpreter would run them
(depth-first over import statements from odfdo/__init__.py), collecting
register_element_class(C) / register_element_class_list(C, tags) and
C._define_attribut_property() calls.  First registration of a tag wins, as in
`_register_element_class`.
"""

from __future__ import annotations

import ast
from dataclasses import dataclass, field

from .core import PKG, UNKNOWN, AnalysisError, ClassInfo, ModuleInfo, Repo


@dataclass
class Registration:
    cls: ClassInfo
    tag: str
    module: ModuleInfo
    node: ast.AST
    shadowed_by: ClassInfo | None = None  # earlier registration that wins


@dataclass
class Registry:
    order: list[str] = field(default_factory=list)  # module execution order
    regs: list[Registration] = field(default_factory=list)
    tag2cls: dict[str, ClassInfo] = field(default_factory=dict)
    define_calls: dict[str, list[ast.AST]] = field(default_factory=dict)  # class name -> nodes
    define_order: list[tuple[str, ModuleInfo, ast.AST]] = field(default_factory=list)
    unfoldable: list[tuple[ModuleInfo, ast.AST]] = field(default_factory=list)

    def classes_registered(self) -> set[str]:
        return {r.cls.name for r in self.regs}

    def effective(self, cls_name: str) -> list[str]:
        return [t for t, c in self.tag2cls.items() if c.name == cls_name]


def build_registry(repo: Repo) -> Registry:
    reg = Registry()
    started: set[str] = set()

    def run_module(name: str) -> None:
        if name in started or name not in repo.modules:
            return
        started.add(name)
        # parent packages execute first
        if "." in name:
            run_module(name.rsplit(".", 1)[0])
        m = repo.modules[name]
        reg.order.append(name)
        for st in m.tree.body:
            run_stmt(m, st)

    def run_stmt(m: ModuleInfo, st: ast.stmt) -> None:
        if isinstance(st, ast.ImportFrom):
            modname = repo._resolve_from(m, st)
            if modname and (modname == PKG or modname.startswith(PKG + ".")):
                run_module(modname)
                for a in st.names:
                    run_module(f"{modname}.{a.name}")
            return
        if isinstance(st, ast.Import):
            for a in st.names:
                if a.name.startswith(PKG):
                    run_module(a.name)
            return
        if isinstance(st, ast.If):
            # module-level conditionals (TYPE_CHECKING etc.): replay both arms' registrations
            for s in st.body + st.orelse:
                run_stmt(m, s)
            return
        if isinstance(st, ast.Try):
            for s in st.body:
                run_stmt(m, s)
            return
        if isinstance(st, ast.For):
            for s in st.body:
                run_stmt(m, s)
            return
        if not isinstance(st, ast.Expr) or not isinstance(st.value, ast.Call):
            return
        c = st.value
        fn = c.func
        if isinstance(fn, ast.Name) and fn.id in ("register_element_class", "register_element_class_list") and c.args:
            cls = repo.resolve_name(c.args[0].id, m) if isinstance(c.args[0], ast.Name) else None
            if not isinstance(cls, ClassInfo):
                reg.unfoldable.append((m, st))
                return
            if fn.id == "register_element_class":
                tag = repo.fold_class_const(cls, "_tag")
                tags = [tag]
            else:
                tags = repo.fold(c.args[1], m) if len(c.args) > 1 else UNKNOWN
            if tags is UNKNOWN or not isinstance(tags, (list, tuple, set, frozenset)) or any(not isinstance(t, str) for t in tags):
                reg.unfoldable.append((m, st))
                return
            for t in (sorted(tags) if isinstance(tags, (set, frozenset)) else tags):
                r = Registration(cls, t, m, st)
                if t in reg.tag2cls:
                    r.shadowed_by = reg.tag2cls[t]
                else:
                    reg.tag2cls[t] = cls
                reg.regs.append(r)
        elif isinstance(fn, ast.Attribute) and fn.attr == "_define_attribut_property" and isinstance(fn.value, ast.Name):
            reg.define_calls.setdefault(fn.value.id, []).append(st)
            reg.define_order.append((fn.value.id, m, st))

    run_module(PKG)
    reg.unreached = [n for n in repo.modules if n not in started]  # type: ignore[attr-defined]
    if len(reg.regs) < 50:
        raise AnalysisError(f"registry replica found only {len(reg.regs)} registrations")
    return reg


def element_classes(repo: Repo) -> list[ClassInfo]:
    el = repo.cls("Element")
    return [c for c in repo.all_classes() if c is not el and el in c.mro]


def propdefs(repo: Repo, cls: ClassInfo, own_only: bool = False) -> list[tuple[str, str, str, ClassInfo]]:
    """(name, attr, family, defining class) of the _properties in effect for cls."""
    out = []
    for c in ([cls] if own_only else cls.mro):
        e = c.consts.get("_properties")
        if e is None:
            continue
        for name, attr, fam in _propdef_items(repo, c, e):
            out.append((name, attr, fam, c))
        if not own_only:
            break  # class attribute lookup: the first _properties along the MRO wins
    return out


def _propdef_items(repo: Repo, c: ClassInfo, e: ast.expr, depth: int = 0):
    items = []
    if depth > 4:
        return items
    if isinstance(e, (ast.Tuple, ast.List)):
        for x in e.elts:
            if isinstance(x, ast.Call) and isinstance(x.func, ast.Name) and x.func.id == "PropDef":
                vals = [repo.fold(a, c.module, c) for a in x.args]
                kw = {k.arg: repo.fold(k.value, c.module, c) for k in x.keywords}
                name = vals[0] if vals else kw.get("name")
                attr = vals[1] if len(vals) > 1 else kw.get("attr")
                fam = vals[2] if len(vals) > 2 else kw.get("family", "")
                items.append((name, attr, fam or ""))
            elif isinstance(x, ast.Starred):
                items += _propdef_items(repo, c, x.value, depth + 1)
    elif isinstance(e, ast.BinOp) and isinstance(e.op, ast.Add):
        items += _propdef_items(repo, c, e.left, depth + 1) + _propdef_items(repo, c, e.right, depth + 1)
    elif isinstance(e, ast.Attribute) and isinstance(e.value, ast.Name) and e.attr == "_properties":
        oc = repo.find_class(e.value.id, c.module)
        if oc and "_properties" in oc.consts:
            items += _propdef_items(repo, oc, oc.consts["_properties"], depth + 1)
    elif isinstance(e, ast.Name):
        r = repo.resolve_name(e.id, c.module)
        if isinstance(r, tuple) and r[0] == "const":
            items += _propdef_items(repo, c, r[1], depth + 1)
    return items


def property_names(repo: Repo, cls: ClassInfo, defined: dict[str, list] | None = None) -> dict[str, str]:
    """name -> kind ('propdef'|'property'|'property-ro') of every settable/gettable property visible on cls."""
    out: dict[str, str] = {}
    for c in reversed(cls.mro):
        for name, fs in c.methods.items():
            kinds = {f.kind for f in fs}
            if "getter" in kinds:
                out[name] = "property" if "setter" in kinds else "property-ro"
            elif "setter" in kinds and name in out:
                out[name] = "property"
        if "_properties" in c.consts and (defined is None or c.name in defined):
            for name, attr, fam in _propdef_items(repo, c, c.consts["_properties"]):
                if isinstance(name, str):
                    out[name] = "propdef"
    return out
