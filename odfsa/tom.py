"""TOM — table object model abstract interpreter.

Abstract interpretation of the methods of Table / Row (and the MDTable mixin) of the
*current* source.  Callees inside these classes are never summarised by hand: a
call is analysed by interpreting the callee's body in the caller's abstract state
(context-sensitive inlining with constant flag propagation, depth-bounded), so a
change in any helper changes every verdict that depends on it.  Only lxml/Element
primitives and the three vault functions (whose protocol is checked separately by
R02c) are axioms.

Abstract values
  ('w', uid)     a row / cell / column wrapper, described by the W record `ws[uid]`
  ('lst', uid)   a list / iterator of such wrappers (element record uid, or None)
  ('const', v)   a literal True/False/None/int/str
  ('rep', uid)   the value `X.repeated` / `X.repeated or 1` of wrapper uid
  ('wdiff', uid) the value `X.width - self.width`
  None           anything else

W record: cls (Row|Cell|Column), prov (OWN: the wrapper cached in self._indexes,
FOREIGN: another live wrapper of a node in the tree, DETACHED: a copy / new object,
EXT: object handed in by the caller), rep (MAYBE|UNREP), origin, mutated, grew,
synced, pushed, allrows, stamps.

Owner state (per `self`): for every position map M (Table: _tmap rows, _cmap columns;
Row: _rmap cells)  maps[M] in {CLEAN, DIRTY_APPEND, DIRTY} and idx[M] in {EMPTY, POP, STALE}.
"""

from __future__ import annotations

import ast
import copy
from dataclasses import dataclass, field
from typing import Any, Callable

from .core import UNKNOWN, AnalysisError, ClassInfo, FuncInfo, Repo, body_no_doc, call_name, is_self_attr, norm, walk_no_nested

OWN, FOREIGN, DETACHED, EXT = "OWN", "FOREIGN", "DETACHED", "EXT"
MAYBE, UNREP = "MAYBE", "UNREP"
CLEAN, DIRTY_APPEND, DIRTY = "CLEAN", "DIRTY_APPEND", "DIRTY"
EMPTY, POP, STALE = "EMPTY", "POP", "STALE"

MAPS = {"T": {"_tmap": "Row", "_cmap": "Column"}, "R": {"_rmap": "Cell"}}
KIND_OF_CLASS = {"Table": "T", "Row": "R"}
ITEM_MAP = {("T", "Row"): "_tmap", ("T", "Column"): "_cmap", ("R", "Cell"): "_rmap"}
VAULT_FUNCS = {"set_item_in_vault", "insert_item_in_vault", "delete_item_in_vault"}
MAX_DEPTH = 7

_uid = [0]


def new_uid() -> int:
    _uid[0] += 1
    return _uid[0]


@dataclass
class W:
    cls: str
    prov: str
    rep: str
    origin: str = "new"
    mutated: bool = False
    grew: bool = False
    pushed: bool = False
    allrows: bool = False
    stamps: frozenset = frozenset()
    foreign_mutated: bool = False
    site: Any = None  # (FuncInfo, node) of the private yield/return a live wrapper escaped through
    clone_of: int | None = None

    def copy(self) -> "W":
        return copy.copy(self)


def join_w(a: W, b: W) -> W:
    c = a.copy()
    if a.prov != b.prov:
        order = [EXT, DETACHED, OWN, FOREIGN]  # join takes the "more live" one
        c.prov = max(a.prov, b.prov, key=order.index)
    if a.rep != b.rep:
        c.rep = MAYBE
    if a.cls != b.cls:
        c.cls = a.cls
    c.mutated = a.mutated or b.mutated
    c.grew = a.grew or b.grew
    c.pushed = a.pushed and b.pushed
    c.allrows = a.allrows and b.allrows
    c.stamps = a.stamps & b.stamps
    c.foreign_mutated = a.foreign_mutated or b.foreign_mutated
    c.site = a.site or b.site
    if a.origin != b.origin:
        rank = ["new", "param", "param-clone", "vault", "cloned", "fetched"]
        c.origin = max(a.origin, b.origin, key=lambda x: rank.index(x) if x in rank else 0)
    return c


@dataclass
class Owner:
    kind: str  # T | R
    maps: dict = field(default_factory=dict)
    idx: dict = field(default_factory=dict)
    pending: dict = field(default_factory=dict)
    mutated: bool = False
    grew: bool = False
    bound: int | None = None  # uid of the W this owner is (rows edited through the table API)

    def copy(self) -> "Owner":
        return Owner(self.kind, dict(self.maps), dict(self.idx), dict(self.pending), self.mutated, self.grew, self.bound)


def new_owner(kind: str, bound: int | None = None, fresh: bool = False) -> Owner:
    o = Owner(kind, bound=bound)
    for m in MAPS[kind]:
        o.maps[m] = CLEAN
        o.idx[m] = EMPTY if fresh else POP
    return o


_MAP_ORDER = [CLEAN, DIRTY_APPEND, DIRTY]
_IDX_ORDER = [EMPTY, POP, STALE]


def join_owner(a: Owner, b: Owner) -> Owner:
    c = a.copy()
    for m in a.maps:
        c.maps[m] = max(a.maps[m], b.maps.get(m, CLEAN), key=_MAP_ORDER.index)
        c.idx[m] = max(a.idx[m], b.idx.get(m, EMPTY), key=_IDX_ORDER.index)
    c.mutated = a.mutated or b.mutated
    c.grew = a.grew or b.grew
    return c


class Frame:
    def __init__(self, f: FuncInfo, owner_id: int | None):
        self.f = f
        self.owner_id = owner_id
        self.env: dict[str, Any] = {}
        self.exits: list[tuple["World", Any]] = []
        self.yields: list[Any] = []
        self.guard_empty: set[str] = set()

    def copy(self) -> "Frame":
        c = Frame(self.f, self.owner_id)
        c.env = dict(self.env)
        c.exits = self.exits  # shared on purpose (collected across forks)
        c.yields = self.yields
        c.guard_empty = set(self.guard_empty)
        c.call_node = getattr(self, "call_node", None)
        return c


class World:
    def __init__(self):
        self.ws: dict[int, W] = {}
        self.frames: list[Frame] = []
        self.owners: dict[int, Owner] = {}
        self.dead = False
        self.stopped = False  # break / continue pending

    def fork(self) -> "World":
        w = World()
        w.ws = {u: x.copy() for u, x in self.ws.items()}
        w.frames = [f.copy() for f in self.frames]
        w.owners = {i: o.copy() for i, o in self.owners.items()}
        w.dead = self.dead
        w.stopped = self.stopped
        return w

    def become(self, other: "World") -> None:
        self.ws, self.frames, self.owners, self.dead, self.stopped = other.ws, other.frames, other.owners, other.dead, other.stopped

    @property
    def frame(self) -> Frame:
        return self.frames[-1]

    def owner(self, fr: Frame | None = None) -> Owner | None:
        fr = fr or self.frame
        return self.owners.get(fr.owner_id) if fr.owner_id is not None else None

    def new_w(self, **kw) -> int:
        u = new_uid()
        self.ws[u] = W(**kw)
        return u


def join_world(a: World, b: World) -> World:
    if a.dead or a.stopped:
        if b.dead or b.stopped:
            r = a.fork()
            r.dead = a.dead and b.dead
            r.stopped = not r.dead
            return _merge(a, b, r)
        return b.fork()
    if b.dead or b.stopped:
        return a.fork()
    return _merge(a, b, a.fork())


def _merge(a: World, b: World, r: World) -> World:
    for u, wb in b.ws.items():
        if u in r.ws:
            r.ws[u] = join_w(r.ws[u], wb)
        else:
            r.ws[u] = wb.copy()
    for i, ob in b.owners.items():
        r.owners[i] = join_owner(r.owners[i], ob) if i in r.owners else ob.copy()
    for fa, fb in zip(r.frames, b.frames):
        for k in set(fa.env) | set(fb.env):
            va, vb = fa.env.get(k), fb.env.get(k)
            if va == vb:
                continue
            if va and vb and va[0] == vb[0] == "w":
                u = new_uid()
                r.ws[u] = join_w(r.ws[va[1]], r.ws[vb[1]])
                fa.env[k] = ("w", u)
            elif va and vb and va[0] == vb[0] == "lst" and va[1] and vb[1]:
                u = new_uid()
                r.ws[u] = join_w(r.ws[va[1]], r.ws[vb[1]])
                fa.env[k] = ("lst", u)
            elif va and vb and va[0] == vb[0] == "lst":
                fa.env[k] = va if va[1] else vb
            elif va is None and vb and vb[0] in ("w", "lst"):
                fa.env[k] = vb  # defined on one path only: keep it (obligations are may-properties)
            elif vb is None and va and va[0] in ("w", "lst"):
                pass
            else:
                fa.env[k] = None
        fa.guard_empty &= fb.guard_empty
    return r


class Tom:
    """One TOM run over a Repo.  `report(rule, f, node, construct, message)` receives findings."""

    def __init__(self, repo: Repo, report: Callable, default_flags: bool = False, max_depth: int = MAX_DEPTH):
        self.repo = repo
        self.report = report
        self.default_flags = default_flags
        self.max_depth = max_depth
        self.table = repo.cls("Table")
        self.row = repo.cls("Row")
        self.cached = repo.cls("CachedElement")
        self.element = repo.cls("Element")
        self.stats = {"methods": 0, "inlined_calls": 0, "primitive_calls": 0, "unresolved_self_calls": set(), "depth_cut": 0,
                      "row_mutation_sites": 0, "structural_mutations": 0, "map_reads": 0, "returns_checked": 0}
        self.events: list[tuple] = []  # (kind, f.ident, line, detail) for evidence samples
        self.interesting = {id(c) for c in (self.table, self.row, self.cached)} | {
            id(c) for c in self.table.mro if c.name.startswith("MD")}

    # ------------------------------------------------------------------ entry
    def analyse_method(self, f: FuncInfo, on_exit: Callable | None = None) -> World:
        kind = KIND_OF_CLASS.get(f.cls.name if f.cls else "", "T" if f.cls and self.table in f.cls.mro + [f.cls] else None)
        if f.cls is not None and f.cls.name.startswith("MD"):
            kind = "T"
        world = World()
        oid = new_uid()
        world.owners[oid] = new_owner(kind or "T")
        fr = Frame(f, oid)
        world.frames.append(fr)
        self._bind_entry_params(world, fr)
        self.stats["methods"] += 1
        self.last_frame = fr
        self._run_body(world, fr)
        exits = fr.exits
        if on_exit:
            for ew, val in exits:
                on_exit(self, f, ew, val, ew.frames[0] if ew.frames else fr)
            for val in fr.yields:
                pass
        return world

    def _bind_entry_params(self, world: World, fr: Frame) -> None:
        f = fr.f
        defaults = f.defaults()
        for a in f.all_params():
            if a.arg == "self":
                continue
            ann = ast.unparse(a.annotation) if a.annotation is not None else ""
            val = None
            for cls in ("Row", "Cell", "Column"):
                if cls in ann:
                    u = world.new_w(cls=cls, prov=EXT, rep=MAYBE, origin="param")
                    val = ("lst", u) if "list" in ann or "Iterable" in ann or "tuple[" in ann else ("w", u)
                    break
            if val is None and self.default_flags and a.arg in defaults and isinstance(defaults[a.arg], ast.Constant) \
                    and isinstance(defaults[a.arg].value, bool):
                val = ("const", defaults[a.arg].value)
            fr.env[a.arg] = val

    # ------------------------------------------------------------------ statements
    def _run_body(self, world: World, fr: Frame) -> None:
        self._block(body_no_doc(fr.f.node), world)
        if not world.dead:
            fr.exits.append((world.fork(), ("const", None)))

    def _block(self, body, world: World) -> None:
        for s in body:
            if world.dead or world.stopped:
                return
            self._stmt(s, world)

    def _stmt(self, s: ast.stmt, world: World) -> None:
        fr = world.frame
        if isinstance(s, ast.If):
            self._ev(s.test, world)
            t = self._test(s.test, world)
            sync_uid = self._width_sync_pattern(s, world)
            if sync_uid is not None:
                other = world.fork()
                self._block(s.body, world)
                self._block(s.orelse, other)
                world.become(join_world(world, other))
                if sync_uid in world.ws:
                    world.ws[sync_uid].grew = False
                return
            if t is True:
                self._block(s.body, world)
                return
            if t is False:
                self._block(s.orelse, world)
                return
            guard = self._guard_empty_kind(s.test)
            other = world.fork()
            self._refine(s.test, world, True)
            if guard:
                world.frame.guard_empty.add(guard)
            self._block(s.body, world)
            if guard:
                world.frame.guard_empty.discard(guard)
            self._refine(s.test, other, False)
            self._block(s.orelse, other)
            world.become(join_world(world, other))
            return
        if isinstance(s, (ast.For, ast.AsyncFor)):
            it = self._ev(s.iter, world)
            self._loop(s, world, it)
            return
        if isinstance(s, ast.While):
            self._ev(s.test, world)
            self._loop(s, world, None)
            return
        if isinstance(s, (ast.With, ast.AsyncWith)):
            for item in s.items:
                self._ev(item.context_expr, world)
            pre = world.fork()
            self._block(s.body, world)
            if any("suppress" in ast.unparse(i.context_expr) for i in s.items):
                world.become(join_world(world, pre))
            return
        if isinstance(s, ast.Try):
            pre = world.fork()
            self._block(s.body, world)
            self._block(s.orelse, world)
            outs = [world.fork()]
            for h in s.handlers:
                hw = join_world(pre, outs[0]) if not (outs[0].dead or outs[0].stopped) else pre.fork()
                hw.dead = False
                hw.stopped = False
                self._block(h.body, hw)
                outs.append(hw)
            res = outs[0]
            for o in outs[1:]:
                res = join_world(res, o)
            world.become(res)
            self._block(s.finalbody, world)
            return
        if isinstance(s, ast.Return):
            val = self._ev(s.value, world) if s.value is not None else ("const", None)
            fr.exits.append((world.fork(), val))
            world.dead = True
            return
        if isinstance(s, ast.Raise):
            if s.exc is not None:
                self._ev(s.exc, world)
            world.dead = True
            return
        if isinstance(s, (ast.Break, ast.Continue)):
            world.stopped = True
            return
        if isinstance(s, ast.Assign):
            decl = None
            if len(s.targets) == 1 and is_self_attr(s.targets[0]) and isinstance(s.value, ast.Call) and call_name(s.value) == "insert_map_once" \
                    and s.value.args and is_self_attr(s.value.args[0], s.targets[0].attr):
                decl = s.targets[0].attr
            self._decl_map = decl
            val = self._ev(s.value, world)
            self._decl_map = None
            for t in s.targets:
                self._assign(t, val, s.value, world, s)
            return
        if isinstance(s, ast.AnnAssign):
            if s.value is not None:
                val = self._ev(s.value, world)
                self._assign(s.target, val, s.value, world, s)
            return
        if isinstance(s, ast.AugAssign):
            self._ev(s.value, world)
            if isinstance(s.target, ast.Name):
                world.frame.env[s.target.id] = None
            return
        if isinstance(s, ast.Expr):
            if isinstance(s.value, (ast.Yield, ast.YieldFrom)):
                v = self._ev(s.value.value, world) if s.value.value is not None else None
                if v and v[0] == "w" and world.ws[v[1]].prov in (OWN, FOREIGN) and world.ws[v[1]].site is None:
                    world.ws[v[1]].site = (fr.f, s)
                fr.yields.append((world.fork(), v, s))
            else:
                self._ev(s.value, world)
            return
        if isinstance(s, ast.Delete):
            return
        if isinstance(s, (ast.FunctionDef, ast.AsyncFunctionDef, ast.ClassDef, ast.Pass, ast.Import, ast.ImportFrom, ast.Global, ast.Nonlocal, ast.Assert)):
            return

    def _width_sync_pattern(self, s: ast.If, world: World):
        """`if <row.width - self.width> > 0: self.append_column(...)` — the width-sync event for that row."""
        t = s.test
        if isinstance(t, ast.Compare) and len(t.ops) == 1 and isinstance(t.ops[0], ast.Gt) and isinstance(t.left, ast.Name) \
                and isinstance(t.comparators[0], ast.Constant) and t.comparators[0].value == 0:
            v = world.frame.env.get(t.left.id)
            if v and v[0] == "wdiff" and any(isinstance(n, ast.Call) and call_name(n) in ("append_column", "insert_column")
                                               for b in s.body for n in ast.walk(b)):
                return v[1]
        return None

    def _loop(self, s, world: World, it) -> None:
        elem = None
        if it and it[0] == "lst" and it[1]:
            elem = it[1]
        pre = world.fork()
        for _round in range(2):
            body_w = world.fork()
            if isinstance(s, (ast.For, ast.AsyncFor)):
                self._bind_loop_target(s.target, s.iter, elem, body_w)
            self._block(s.body, body_w)
            body_w.stopped = False
            world.become(join_world(world, body_w))
        if getattr(s, "orelse", None):
            self._block(s.orelse, world)

    def _bind_loop_target(self, target, iter_expr, elem_uid, world: World) -> None:
        fr = world.frame
        names = [target] if isinstance(target, ast.Name) else [e for e in getattr(target, "elts", []) if isinstance(e, ast.Name)]
        for n in names:
            fr.env[n.id] = None
        if elem_uid is not None and names:
            # a fresh record per iteration
            u = new_uid()
            world.ws[u] = world.ws[elem_uid].copy()
            inner = iter_expr
            while isinstance(inner, ast.Call) and call_name(inner) in ("reversed", "list", "enumerate", "iter") and inner.args:
                inner = inner.args[0]
            if isinstance(inner, ast.Call) and call_name(inner) in ("_get_rows", "_get_cells", "_get_columns") and is_self_attr(inner.func):
                world.ws[u].allrows = True
            fr.env[names[-1].id] = ("w", u)

    # ------------------------------------------------------------------ tests / refinement
    def _test(self, t: ast.expr, world: World):
        """True / False when decided by constants, else None."""
        v = self._peek(t, world)
        if isinstance(t, ast.UnaryOp) and isinstance(t.op, ast.Not):
            r = self._test(t.operand, world)
            return None if r is None else (not r)
        if isinstance(t, ast.BoolOp):
            rs = [self._test(x, world) for x in t.values]
            if isinstance(t.op, ast.And):
                if any(r is False for r in rs):
                    return False
                return True if all(r is True for r in rs) else None
            if any(r is True for r in rs):
                return True
            return False if all(r is False for r in rs) else None
        if isinstance(t, ast.Compare) and len(t.ops) == 1 and isinstance(t.comparators[0], ast.Constant) and t.comparators[0].value is None:
            lv = self._peek(t.left, world)
            if lv is not None:
                isnone = (lv[0] == "const" and lv[1] is None)
                known = lv[0] in ("const", "w", "lst")
                if known:
                    return isnone if isinstance(t.ops[0], ast.Is) else (not isnone if isinstance(t.ops[0], ast.IsNot) else None)
            return None
        if isinstance(t, ast.Call) and call_name(t) == "isinstance" and len(t.args) == 2:
            lv = self._peek(t.args[0], world)
            if lv and lv[0] == "w":
                names = [ast.unparse(x) for x in (t.args[1].elts if isinstance(t.args[1], ast.Tuple) else [t.args[1]])]
                return world.ws[lv[1]].cls in names
            return None
        if v is not None and v[0] == "const":
            return bool(v[1])
        if v is not None and v[0] == "w":
            return True
        if is_self_attr(t, "_do_init"):
            return True
        return None

    def _peek(self, e: ast.expr, world: World):
        """Value of a side-effect-free expression (names, constants), else None."""
        if isinstance(e, ast.Constant):
            return ("const", e.value)
        if isinstance(e, ast.Name):
            return world.frame.env.get(e.id)
        return None

    def _guard_empty_kind(self, t: ast.expr) -> str | None:
        """`if not self._get_columns()` / `if not self._cmap` → 'Column' (nothing of that kind exists)."""
        if isinstance(t, ast.UnaryOp) and isinstance(t.op, ast.Not):
            x = t.operand
            if isinstance(x, ast.Call) and call_name(x) in ("_get_columns", "_get_rows", "_get_cells") and is_self_attr(x.func):
                return {"_get_columns": "Column", "_get_rows": "Row", "_get_cells": "Cell"}[call_name(x)]
            if is_self_attr(x) and x.attr in ("_cmap", "_tmap", "_rmap"):
                return {"_cmap": "Column", "_tmap": "Row", "_rmap": "Cell"}[x.attr]
        return None

    def _refine(self, t: ast.expr, world: World, branch: bool) -> None:
        """Refine repeatedness in the taken branch: r = X.repeated or 1; r > 1 / r >= 2; X.repeated is None."""
        env = world.frame.env
        if isinstance(t, ast.Compare) and len(t.ops) == 1:
            l, op, r = t.left, t.ops[0], t.comparators[0]
            lv = env.get(l.id) if isinstance(l, ast.Name) else (self._rep_of_attr(l, world))
            if lv and lv[0] == "rep" and isinstance(r, ast.Constant):
                u = lv[1]
                if isinstance(r.value, int) and not isinstance(r.value, bool):
                    gt = (isinstance(op, ast.Gt) and r.value == 1) or (isinstance(op, ast.GtE) and r.value == 2)
                    lt = (isinstance(op, ast.Lt) and r.value == 2) or (isinstance(op, ast.LtE) and r.value == 1)
                    if (gt and not branch) or (lt and branch):
                        world.ws[u].rep = UNREP
                if r.value is None:
                    if (isinstance(op, ast.Is) and branch) or (isinstance(op, ast.IsNot) and not branch):
                        world.ws[u].rep = UNREP
        if isinstance(t, ast.UnaryOp) and isinstance(t.op, ast.Not):
            self._refine(t.operand, world, not branch)
        lv = self._rep_of_attr(t, world) if isinstance(t, ast.Attribute) else (env.get(t.id) if isinstance(t, ast.Name) else None)
        if lv and lv[0] == "rep" and not branch:
            world.ws[lv[1]].rep = UNREP  # `if x.repeated:` false branch

    def _rep_of_attr(self, e, world):
        if isinstance(e, ast.Attribute) and e.attr == "repeated":
            b = self._peek(e.value, world)
            if b and b[0] == "w":
                return ("rep", b[1])
        return None

    # ------------------------------------------------------------------ assignment
    def _assign(self, t, val, vexpr, world: World, stmt) -> None:
        fr = world.frame
        if isinstance(t, ast.Name):
            fr.env[t.id] = val
            return
        if isinstance(t, (ast.Tuple, ast.List)):
            for e in t.elts:
                if isinstance(e, ast.Name):
                    fr.env[e.id] = None
            return
        if isinstance(t, ast.Attribute):
            if is_self_attr(t):
                self._self_attr_store(t.attr, val, vexpr, world, stmt)
                return
            base = self._ev(t.value, world)
            if base and base[0] == "w":
                w = world.ws[base[1]]
                if t.attr == "repeated":
                    if val and val[0] == "const" and val[1] is None:
                        w.rep = UNREP
                    else:
                        w.rep = MAYBE
                    self._live_repeat_change(base[1], world, stmt)
                elif t.attr in ("x", "y"):
                    w.stamps = w.stamps | {t.attr}
            return
        if isinstance(t, ast.Subscript):
            # self._indexes["_tmap"] = {}   |   self._indexes["_tmap"][idx] = row
            tv = t.value
            if isinstance(tv, ast.Attribute) and is_self_attr(tv, "_indexes") and isinstance(t.slice, ast.Constant):
                o = world.owner()
                if o and t.slice.value in o.idx:
                    o.idx[t.slice.value] = EMPTY
                    o.pending.pop(t.slice.value, None)
                return
            if isinstance(tv, ast.Subscript) and isinstance(tv.value, ast.Attribute) and is_self_attr(tv.value, "_indexes") \
                    and isinstance(tv.slice, ast.Constant):
                o = world.owner()
                m = tv.slice.value
                if o and m in o.idx:
                    if o.idx[m] == EMPTY:
                        o.idx[m] = POP
                    if val and val[0] == "w":
                        world.ws[val[1]].prov = OWN
                return
            self._ev(t.value, world)

    def _self_attr_store(self, attr: str, val, vexpr, world: World, stmt) -> None:
        o = world.owner()
        if o is None:
            return
        if attr in o.maps:
            src = ast.unparse(vexpr)
            if isinstance(vexpr, ast.Call) and call_name(vexpr) == "insert_map_once":
                a = vexpr.args
                is_append_decl = len(a) >= 2 and is_self_attr(a[0], attr) and isinstance(a[1], ast.Call) and call_name(a[1]) == "len" \
                    and a[1].args and is_self_attr(a[1].args[0], attr)
                if is_append_decl and o.maps[attr] in (CLEAN, DIRTY_APPEND):
                    o.maps[attr] = CLEAN
                    if attr in o.pending:
                        o.idx[attr] = o.pending.pop(attr)
                # otherwise: an incremental patch of a map that needs a full rebuild keeps it dirty
                return
            o.maps[attr] = CLEAN  # make_cache_map(...), literal [], slices: explicit restoration
            return
        if attr == "_indexes":
            for m in o.idx:
                o.idx[m] = EMPTY
            return

    def _live_repeat_change(self, uid: int, world: World, node) -> None:
        """A repeat attribute of a live item changed: the owning position map is obsolete."""
        w = world.ws[uid]
        if w.prov not in (OWN, FOREIGN):
            return
        # find the owner whose items are of this class: the innermost frame owner of matching kind
        for fr in reversed(world.frames):
            o = world.owner(fr)
            if o is None:
                continue
            m = ITEM_MAP.get((o.kind, w.cls))
            if m:
                o.maps[m] = DIRTY
                o.mutated = True
                self.stats["structural_mutations"] += 1
                return

    # ------------------------------------------------------------------ expressions
    def _ev(self, e: ast.expr | None, world: World):
        if e is None:
            return None
        if isinstance(e, ast.Constant):
            return ("const", e.value)
        if isinstance(e, ast.Name):
            return world.frame.env.get(e.id)
        if isinstance(e, ast.Attribute):
            return self._attr_load(e, world)
        if isinstance(e, ast.Call):
            return self._call(e, world)
        if isinstance(e, ast.BoolOp):
            vals = [self._ev(v, world) for v in e.values]
            if isinstance(e.op, ast.Or) and vals and vals[0] and vals[0][0] == "rep":
                return vals[0]
            if isinstance(e.op, ast.Or):
                for v in vals:
                    if v and v[0] in ("w", "lst"):
                        return v
            return None
        if isinstance(e, ast.BinOp):
            l = self._ev(e.left, world)
            r = self._ev(e.right, world)
            if isinstance(e.op, ast.Sub) and isinstance(e.left, ast.Attribute) and e.left.attr == "width" and is_self_attr(e.right, "width"):
                b = self._peek(e.left.value, world)
                if b and b[0] == "w":
                    return ("wdiff", b[1])
            return None
        if isinstance(e, ast.Compare):
            self._ev(e.left, world)
            for c in e.comparators:
                self._ev(c, world)
            return None
        if isinstance(e, ast.UnaryOp):
            self._ev(e.operand, world)
            return None
        if isinstance(e, ast.IfExp):
            self._ev(e.test, world)
            a, b = self._ev(e.body, world), self._ev(e.orelse, world)
            return a if a == b else (a or b)
        if isinstance(e, ast.Subscript):
            return self._subscript(e, world)
        if isinstance(e, (ast.Tuple, ast.List, ast.Set)):
            vals = [self._ev(x, world) for x in e.elts]
            ws = [v for v in vals if v and v[0] == "w"]
            if ws and isinstance(e, ast.List):
                return ("lst", ws[0][1])
            if isinstance(e, ast.List) and not e.elts:
                return ("lst", None)
            return None
        if isinstance(e, (ast.ListComp, ast.GeneratorExp, ast.SetComp)):
            return self._comp(e, world)
        if isinstance(e, ast.JoinedStr):
            for v in e.values:
                if isinstance(v, ast.FormattedValue):
                    self._ev(v.value, world)
            return None
        if isinstance(e, ast.Starred):
            return self._ev(e.value, world)
        if isinstance(e, ast.NamedExpr):
            v = self._ev(e.value, world)
            world.frame.env[e.target.id] = v
            return v
        if isinstance(e, (ast.Yield, ast.YieldFrom)):
            v = self._ev(e.value, world) if e.value is not None else None
            world.frame.yields.append((world.fork(), v, e))
            return None
        if isinstance(e, ast.Dict):
            for v in e.values:
                self._ev(v, world)
            return None
        return None

    def _comp(self, e, world: World):
        g = e.generators[0]
        it = self._ev(g.iter, world)
        elem = it[1] if it and it[0] == "lst" else None
        saved = dict(world.frame.env)
        self._bind_loop_target(g.target, g.iter, elem, world)
        for c in g.ifs:
            self._ev(c, world)
        v = self._ev(e.elt, world)
        world.frame.env = saved | {k: v2 for k, v2 in world.frame.env.items() if k in saved}
        if v and v[0] == "w":
            return ("lst", v[1])
        return ("lst", None)

    def _subscript(self, e: ast.Subscript, world: World):
        v = e.value
        # self._indexes["_tmap"][idx]
        if isinstance(v, ast.Subscript) and isinstance(v.value, ast.Attribute) and is_self_attr(v.value, "_indexes") and isinstance(v.slice, ast.Constant):
            o = world.owner()
            m = v.slice.value
            if o and m in o.idx:
                if o.idx[m] == STALE:
                    self._finding("R02b", world, e, f"read of {m} index entry while stale",
                                  f"a cached wrapper is read from self._indexes[{m!r}] after items were renumbered or mutated through "
                                  f"other wrappers without resetting the index")
                cls = MAPS[o.kind][m]
                return ("w", world.new_w(cls=cls, prov=OWN, rep=MAYBE, origin="fetched"))
            return None
        if isinstance(v, ast.Attribute) and is_self_attr(v) and world.owner() and v.attr in world.owner().maps:
            self._map_read(v.attr, world, e)
            self._ev(e.slice, world) if not isinstance(e.slice, ast.Slice) else None
            return None
        base = self._ev(v, world)
        if not isinstance(e.slice, ast.Slice):
            self._ev(e.slice, world)
        if base and base[0] == "lst" and base[1]:
            if isinstance(e.slice, ast.Slice):
                return base
            u = new_uid()
            world.ws[u] = world.ws[base[1]].copy()
            return ("w", u)
        return None

    def _map_read(self, m: str, world: World, node) -> None:
        o = world.owner()
        self.stats["map_reads"] += 1
        if getattr(self, "_decl_map", None) == m and o and o.maps.get(m) == DIRTY_APPEND:
            return  # reading the map inside its own append declaration
        if o and o.maps.get(m) in (DIRTY, DIRTY_APPEND):
            self._finding("R02a", world, node, f"{m} read while obsolete",
                          f"position map {m} is read after a structural change of the XML and before the map was restored: "
                          f"positions are computed from an obsolete map")

    def _attr_load(self, e: ast.Attribute, world: World):
        fr = world.frame
        o = world.owner()
        if is_self_attr(e):
            a = e.attr
            if o and a in o.maps:
                self._map_read(a, world, e)
                return None
            if a in ("_indexes",):
                return None
            # property of self?
            cls = fr.f.cls
            g = cls.lookup(a, "getter") if cls else None
            if g is not None and self._is_interesting(g) and a not in ("clone",):
                return self._inline(g, world, fr.owner_id, [], {}, e)
            if a == "clone":
                return None
            return None
        base = self._ev(e.value, world)
        if base and base[0] == "w":
            w = world.ws[base[1]]
            if e.attr == "clone":
                u = new_uid()
                c = w.copy()
                c.prov = DETACHED
                c.origin = "cloned" if w.origin in ("fetched", "cloned", "vault", "param") or w.prov in (OWN, FOREIGN) else w.origin
                if w.prov == EXT:
                    c.origin = "param-clone"
                c.mutated = False
                c.grew = False
                c.pushed = False
                c.allrows = False
                c.foreign_mutated = False
                c.clone_of = base[1]
                world.ws[u] = c
                return ("w", u)
            if e.attr == "repeated":
                return ("rep", base[1])
            if e.attr == "parent":
                return ("parent_of", base[1])
            return None
        return None

    # ------------------------------------------------------------------ calls
    def _is_interesting(self, f: FuncInfo) -> bool:
        if f.cls is self.cached:
            return f.name == "clear"  # the rest of CachedElement are wrapper-producing primitives
        return f.cls is not None and id(f.cls) in self.interesting

    def _call(self, c: ast.Call, world: World):
        fn = c.func
        fr = world.frame
        # evaluate arguments first (left to right)
        argv = [self._ev(a, world) for a in c.args]
        kwv = {k.arg: self._ev(k.value, world) for k in c.keywords if k.arg}
        if isinstance(fn, ast.Name):
            return self._call_name(fn.id, c, argv, kwv, world)
        if not isinstance(fn, ast.Attribute):
            return None
        m = fn.attr
        recv = fn.value
        # super().m(...)
        if isinstance(recv, ast.Call) and call_name(recv) == "super":
            return None
        if isinstance(recv, ast.Name) and recv.id == "self":
            return self._call_self(m, c, argv, kwv, world)
        if isinstance(recv, ast.Name) and recv.id == "Element" and m in ("append",):
            return self._primitive_self(m, c, argv, kwv, world)
        rv = self._ev(recv, world)
        if rv and rv[0] == "parent_of" and m == "delete" and argv and argv[0] and argv[0][0] == "w":
            self._structural(world, "delete", argv[0][1], c)
            return None
        if rv and rv[0] == "w":
            return self._call_on_w(rv[1], m, c, argv, kwv, world)
        if rv and rv[0] == "lst":
            if m in ("append", "extend", "insert") and isinstance(recv, ast.Name):
                a = argv[-1] if argv else None
                if a and a[0] in ("w", "lst") and a[1]:
                    if rv[1] and rv[1] in world.ws:
                        u = new_uid()
                        world.ws[u] = join_w(world.ws[rv[1]], world.ws[a[1]])
                        world.frame.env[recv.id] = ("lst", u)
                    else:
                        u = new_uid()
                        world.ws[u] = world.ws[a[1]].copy()
                        world.frame.env[recv.id] = ("lst", u)
                return None
            if m in ("append", "extend", "insert"):
                return None
            if m == "pop":
                return ("w", rv[1]) if rv[1] else None
        return None

    def _call_name(self, name: str, c: ast.Call, argv, kwv, world: World):
        fr = world.frame
        o = world.owner()
        if name in ("Row", "Cell", "Column"):
            rep = UNREP
            if "repeated" in kwv or (name == "Row" and len(argv) >= 2):
                rv = kwv.get("repeated") or (argv[1] if name == "Row" and len(argv) >= 2 else None)
                if not (rv and rv[0] == "const" and (rv[1] is None or rv[1] == 1)):
                    rep = MAYBE
            return ("w", world.new_w(cls=name, prov=DETACHED, rep=rep, origin="new"))
        if name in VAULT_FUNCS:
            return self._vault(name, c, argv, kwv, world)
        if name == "find_odf_idx" and c.args:
            a0 = c.args[0]
            if is_self_attr(a0) and o and a0.attr in o.maps:
                pass  # read already checked by _ev of the argument
            return None
        if name in ("list", "reversed", "iter", "tuple", "sorted") and argv:
            return argv[0] if argv[0] and argv[0][0] == "lst" else None
        if name == "enumerate" and argv:
            return argv[0] if argv[0] and argv[0][0] == "lst" else None
        if name == "next" and argv:
            v = argv[0]
            if v and v[0] == "lst" and v[1]:
                u = new_uid()
                world.ws[u] = world.ws[v[1]].copy()
                return ("w", u)
            return None
        if name in ("zip_longest", "zip"):
            return None
        # nested / module-level helper functions are not followed (no table state inside)
        return None

    def _vault(self, name: str, c: ast.Call, argv, kwv, world: World):
        # signature: set(position, item, vault, scheme, map, clone=True) insert(position, item, vault, scheme, map) delete(position, vault, scheme, map)
        o = world.owner()
        mapname = None
        for v in argv + list(kwv.values()):
            if v and v[0] == "const" and isinstance(v[1], str) and v[1] in ("_tmap", "_cmap", "_rmap"):
                mapname = v[1]
        vault_is_self = any(isinstance(a, ast.Name) and a.id == "self" for a in c.args)
        if o is None or mapname not in o.maps or not vault_is_self:
            return None
        if o.maps[mapname] != CLEAN:
            self._finding("R02a", world, c, f"{name}(…, {mapname!r}) called while {mapname} is obsolete",
                          f"{name} computes its target from {mapname}, which was not restored after an earlier structural change")
        self.stats["structural_mutations"] += 1
        self._owner_mutation(world, c, grew=(name != "delete_item_in_vault"))
        o.maps[mapname] = CLEAN
        o.idx[mapname] = EMPTY
        o.pending.pop(mapname, None)
        if name == "delete_item_in_vault":
            return None
        item = argv[1] if len(argv) > 1 else kwv.get("item")
        clone = kwv.get("clone", argv[5] if len(argv) > 5 else ("const", True)) if name == "set_item_in_vault" else ("const", True)
        cls = MAPS[o.kind][mapname]
        if item and item[0] == "w":
            w = world.ws[item[1]]
            self._mark_pushed(world, item[1])
            if clone and clone[0] == "const" and clone[1] is False:
                w.prov = FOREIGN
                w.origin = "vault"
                return item
            u = new_uid()
            nw = w.copy()
            nw.prov = FOREIGN
            nw.origin = "vault"
            nw.mutated = False
            nw.pushed = True
            world.ws[u] = nw
            if clone is None or clone[0] != "const":
                # unknown flag: the item itself may be the one inserted
                w.prov = FOREIGN if w.prov in (DETACHED, EXT) else w.prov
            return ("w", u)
        return ("w", world.new_w(cls=cls, prov=FOREIGN, rep=MAYBE, origin="vault"))

    def _mark_pushed(self, world: World, uid: int) -> None:
        seen = set()
        while uid is not None and uid in world.ws and uid not in seen:
            seen.add(uid)
            world.ws[uid].pushed = True
            uid = world.ws[uid].clone_of

    def _owner_mutation(self, world: World, node, grew: bool = False) -> None:
        """self's XML children changed structurally.  If self is a row being edited through the table API,
        apply the row typestate rule."""
        fr = world.frame
        o = world.owner()
        if o is None:
            return
        o.mutated = True
        if grew:
            o.grew = True
        if o.kind == "R" and o.bound is not None:
            w = world.ws.get(o.bound)
            if w is None:
                return
            w.mutated = True
            if grew:
                w.grew = True
            # who edits: the nearest enclosing Table frame
            tf = None
            ti = None
            for i in range(len(world.frames) - 2, -1, -1):
                o2 = world.owner(world.frames[i])
                if o2 is not None and o2.kind == "T":
                    tf = world.frames[i]
                    ti = i
                    break
            if tf is None:
                return
            self.stats["row_mutation_sites"] += 1
            site = getattr(world.frames[ti + 1], "call_node", None)
            if w.rep == MAYBE and not w.allrows and w.prov != EXT and w.origin != "new":
                self._finding_at("R01a", tf.f, site or node, f"cells of a possibly repeated row edited: {norm(site or node, 60)}",
                                 f"the row edited here may carry number-rows-repeated > 1 (it was fetched from the table without the "
                                 f"un-repeat step `row.repeated = None` after cloning): editing its cells changes every repetition, "
                                 f"or pushes a repeated row back over the rows below")
            if w.prov == FOREIGN:
                to = world.owner(tf)
                if to.idx["_tmap"] != EMPTY:
                    to.idx["_tmap"] = STALE
                    w.foreign_mutated = True

    def _call_site_in(self, world: World, target_frame: Frame):
        """The call node, in target_frame's function, through which the current frame was entered."""
        try:
            i = world.frames.index(target_frame)
        except ValueError:
            return None
        if i + 1 < len(world.frames):
            return getattr(world.frames[i + 1], "call_node", None)
        return None

    def _call_self(self, m: str, c: ast.Call, argv, kwv, world: World):
        fr = world.frame
        cls = fr.f.cls
        o = world.owner()
        # a row/table owner calling a method of its class
        target = None
        if cls is not None:
            owner_cls = self.table if (o and o.kind == "T") else (self.row if (o and o.kind == "R") else cls)
            target = owner_cls.lookup(m) or cls.lookup(m)
        if target is not None and self._is_interesting(target):
            return self._inline(target, world, fr.owner_id, argv, kwv, c)
        return self._primitive_self(m, c, argv, kwv, world)

    def _primitive_self(self, m: str, c: ast.Call, argv, kwv, world: World):
        """Element primitives on self."""
        o = world.owner()
        fr = world.frame
        self.stats["primitive_calls"] += 1
        if o is None:
            return None
        a0 = argv[0] if argv else None
        if m in ("_append", "append", "__append"):
            if a0 and a0[0] == "w":
                self._structural(world, "append", a0[1], c)
            return None
        if m == "insert":
            if a0 and a0[0] == "w":
                self._structural(world, "insert", a0[1], c)
            return None
        if m == "delete":
            if a0 and a0[0] == "w":
                self._structural(world, "delete", a0[1], c)
            elif c.args:
                # a child of unknown kind is removed (e.g. `for child in self.children: self.delete(child)`): it may be an item of any
                # scheme of this owner, so every position map is obsolete and every wrapper index may hold detached wrappers
                for mp in MAPS[o.kind]:
                    o.maps[mp] = DIRTY
                    if o.idx[mp] != EMPTY:
                        o.idx[mp] = STALE
                self.stats["structural_mutations"] += 1
                self._owner_mutation(world, c)
            return None
        if m == "extend":
            kindmap = list(MAPS[o.kind])[0]
            o.maps[kindmap] = DIRTY
            self.stats["structural_mutations"] += 1
            self._owner_mutation(world, c, grew=True)
            return None
        if m in ("get_elements", "xpath"):
            a = c.args[0] if c.args else None
            cls = self._scheme_class(a)
            if cls:
                return ("lst", world.new_w(cls=cls, prov=FOREIGN, rep=MAYBE, origin="fetched"))
            return ("lst", None)
        if m in ("_get_element_idx2", "_get_element_idx", "get_element"):
            a = c.args[0] if c.args else None
            cls = self._scheme_class(a)
            if cls:
                return ("w", world.new_w(cls=cls, prov=FOREIGN, rep=MAYBE, origin="fetched"))
            return None
        if m == "index":
            return None
        if m in ("elements_repeated_sequence",):
            return ("const", "repeated-sequence")
        self.stats["unresolved_self_calls"].add(m)
        return None

    def _scheme_class(self, a) -> str | None:
        if isinstance(a, ast.Name):
            n = a.id.lower()
            for key, cls in (("row", "Row"), ("column", "Column"), ("cell", "Cell")):
                if key in n:
                    return cls
        if isinstance(a, ast.Constant) and isinstance(a.value, str):
            for key, cls in (("table-row", "Row"), ("table-column", "Column"), ("table-cell", "Cell")):
                if key in a.value:
                    return cls
        return None

    def _structural(self, world: World, op: str, uid: int, node) -> None:
        """append / insert / delete of item uid among self's children."""
        o = world.owner()
        w = world.ws[uid]
        m = ITEM_MAP.get((o.kind, w.cls)) if o else None
        if m is None:
            return
        self.stats["structural_mutations"] += 1
        if op == "append":
            if o.maps[m] == CLEAN:
                o.maps[m] = DIRTY_APPEND
            w.prov = FOREIGN
            self._mark_pushed(world, uid)
            self._owner_mutation(world, node, grew=True)
            return
        guard = w.cls in world.frame.guard_empty
        if op == "insert":
            prev = o.idx[m]
            if o.maps[m] == CLEAN and not guard:
                o.maps[m] = DIRTY_APPEND  # may be declared an append by insert_map_once(map, len(map), n)
                o.pending[m] = prev
            elif not guard:
                o.maps[m] = DIRTY
            else:
                o.maps[m] = DIRTY
            if o.idx[m] != EMPTY and not guard:
                o.idx[m] = STALE
            w.prov = FOREIGN
            self._mark_pushed(world, uid)
            self._owner_mutation(world, node, grew=True)
            return
        if op == "delete":
            o.maps[m] = DIRTY
            if o.idx[m] != EMPTY:
                o.idx[m] = STALE
            self._owner_mutation(world, node)

    def _call_on_w(self, uid: int, m: str, c: ast.Call, argv, kwv, world: World):
        w = world.ws[uid]
        if m == "_set_repeated":
            a0 = argv[0] if argv else None
            w.rep = UNREP if (a0 and a0[0] == "const" and a0[1] is None) else MAYBE
            self._live_repeat_change(uid, world, c)
            return None
        if w.cls == "Row":
            target = self.row.lookup(m)
            if target is not None and self._is_interesting(target):
                oid = new_uid()
                world.owners[oid] = new_owner("R", bound=uid, fresh=(w.origin == "new" and not w.mutated))
                val = self._inline(target, world, oid, argv, kwv, c)
                world.owners.pop(oid, None)
                return val
            return None
        return None

    # ------------------------------------------------------------------ inlining
    def _inline(self, target: FuncInfo, world: World, owner_id, argv, kwv, call_node):
        if len(world.frames) > self.max_depth:
            self.stats["depth_cut"] += 1
            return None
        if any(fr.f is target and fr.owner_id == owner_id for fr in world.frames):
            return None  # recursion
        self.stats["inlined_calls"] += 1
        fr = Frame(target, owner_id)
        fr.call_node = call_node  # type: ignore[attr-defined]
        params = [a.arg for a in target.node.args.posonlyargs + target.node.args.args]
        if params and params[0] in ("self", "cls"):
            params = params[1:]
        defaults = target.defaults()
        for p in params + [a.arg for a in target.node.args.kwonlyargs]:
            d = defaults.get(p)
            fr.env[p] = ("const", d.value) if isinstance(d, ast.Constant) else None
        for p, v in zip(params, argv):
            fr.env[p] = v
        for k, v in kwv.items():
            fr.env[k] = v
        is_gen = any(isinstance(n, (ast.Yield, ast.YieldFrom)) for n in walk_no_nested(target.node))
        world.frames.append(fr)
        self._block(body_no_doc(target.node), world)
        if not world.dead:
            fr.exits.append((world.fork(), ("const", None)))
        # join of the exits is the state after the call
        exits = fr.exits
        if not exits:
            world.frames.pop()
            world.dead = True
            return None
        res = exits[0][0]
        val = exits[0][1]
        for ew, v in exits[1:]:
            before_v = val
            res = join_world(res, ew)
            val = self._join_val(res, before_v, v)
        res.dead = False
        res.stopped = False
        depth = len(world.frames) - 1  # frames below the callee
        res.frames = res.frames[:depth]
        world.become(res)
        if is_gen:
            ys = [v for (_w, v, _n) in fr.yields]
            yv = None
            for (yw, v, _n) in fr.yields:
                if v and v[0] == "w":
                    rec = yw.ws[v[1]]
                    if yv is None:
                        yv = rec.copy()
                    else:
                        yv = join_w(yv, rec)
            if yv is not None:
                u = new_uid()
                world.ws[u] = yv
                return ("lst", u)
            return ("lst", None)
        return val

    def _join_val(self, world: World, a, b):
        if a == b:
            return a
        if a and b and a[0] == b[0] and a[0] in ("w", "lst") and a[1] and b[1] and a[1] in world.ws and b[1] in world.ws:
            u = new_uid()
            world.ws[u] = join_w(world.ws[a[1]], world.ws[b[1]])
            return (a[0], u)
        if a and a[0] in ("w", "lst") and (b is None or b[0] == "const"):
            return a
        if b and b[0] in ("w", "lst") and (a is None or a[0] == "const"):
            return b
        return None

    # ------------------------------------------------------------------ findings
    def _finding(self, rule: str, world: World, node, construct: str, message: str) -> None:
        self._finding_at(rule, world.frame.f, node, construct, message)

    def _finding_at(self, rule: str, f: FuncInfo, node, construct: str, message: str) -> None:
        self.report(rule, f, node, construct, message)
