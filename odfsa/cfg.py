"""Statement-level control-flow graph with dominators, post-dominators and
control dependence, for the statement kinds the repository uses.

Nodes are simple statements, plus one *test* node per `if`/`while`/`for`
header, one node per `with` header and per `except` clause.  Normal exits
(return / fall off the end) go to EXIT; `raise` goes to RAISE.  Inside a
`try` body (or a `with suppress(...)` body) every statement additionally has
an exceptional edge to the handlers (or to the statement after the `with`).
"""

from __future__ import annotations

import ast
from typing import Iterable, Iterator


class Node:
    __slots__ = ("id", "kind", "stmt", "succ", "pred", "label")

    def __init__(self, id_: int, kind: str, stmt: ast.AST | None):
        self.id = id_
        self.kind = kind  # entry exit raise stmt test for with except
        self.stmt = stmt
        self.succ: list[tuple[Node, str | None]] = []
        self.pred: list[Node] = []

    def __repr__(self) -> str:
        s = ""
        if self.stmt is not None:
            try:
                s = " ".join(ast.unparse(self.stmt).split())[:50]
            except Exception:
                s = type(self.stmt).__name__
        ln = getattr(self.stmt, "lineno", "")
        return f"<{self.id}:{self.kind}@{ln} {s}>"


def _is_suppress(w: ast.With) -> bool:
    for it in w.items:
        e = it.context_expr
        if isinstance(e, ast.Call):
            f = e.func
            n = f.id if isinstance(f, ast.Name) else (f.attr if isinstance(f, ast.Attribute) else "")
            if n == "suppress":
                return True
    return False


class CFG:
    def __init__(self, fn: ast.FunctionDef | ast.AsyncFunctionDef):
        self.fn = fn
        self.nodes: list[Node] = []
        self.entry = self._new("entry", None)
        self.exit = self._new("exit", None)
        self.raise_exit = self._new("raise", None)
        self.by_stmt: dict[int, Node] = {}
        self._loops: list[tuple[Node, list[Node]]] = []  # (header, break-sources)
        self._handlers: list[list[Node]] = []  # stack of exception targets
        self._finally: list[list[ast.stmt]] = []
        outs = self._block(fn.body, [(self.entry, None)])
        for n, lab in outs:
            self._edge(n, self.exit, lab)
        self._dom = None
        self._pdom = None

    # ------------------------------------------------------------ building
    def _new(self, kind, stmt) -> Node:
        n = Node(len(self.nodes), kind, stmt)
        self.nodes.append(n)
        return n

    def _edge(self, a: Node, b: Node, label=None) -> None:
        for (x, l) in a.succ:
            if x is b and l == label:
                return
        a.succ.append((b, label))
        if a not in b.pred:
            b.pred.append(a)

    def _connect(self, preds, node: Node) -> None:
        for p, lab in preds:
            self._edge(p, node, lab)

    def _stmt_node(self, kind, stmt, preds) -> Node:
        n = self._new(kind, stmt)
        self.by_stmt[id(stmt)] = n
        self._connect(preds, n)
        # exceptional edge when inside try / suppress
        if self._handlers and kind in ("stmt", "test", "for", "with"):
            for h in self._handlers[-1]:
                self._edge(n, h, "exc")
        return n

    def _block(self, stmts: list[ast.stmt], preds):
        cur = preds
        for s in stmts:
            cur = self._stmt(s, cur)
        return cur

    def _stmt(self, s: ast.stmt, preds):
        if isinstance(s, ast.If):
            t = self._stmt_node("test", s, preds)
            a = self._block(s.body, [(t, "T")])
            b = self._block(s.orelse, [(t, "F")]) if s.orelse else [(t, "F")]
            return a + b
        if isinstance(s, (ast.For, ast.AsyncFor, ast.While)):
            h = self._stmt_node("for" if not isinstance(s, ast.While) else "test", s, preds)
            breaks: list[Node] = []
            self._loops.append((h, breaks))
            body_out = self._block(s.body, [(h, "T")])
            self._loops.pop()
            for n, lab in body_out:
                self._edge(n, h, lab)
            infinite = isinstance(s, ast.While) and isinstance(s.test, ast.Constant) and bool(s.test.value)
            out = [] if infinite else [(h, "F")]
            if s.orelse:
                out = self._block(s.orelse, out)
            return out + [(b, None) for b in breaks]
        if isinstance(s, ast.Break):
            n = self._stmt_node("stmt", s, preds)
            if self._loops:
                self._loops[-1][1].append(n)
            return []
        if isinstance(s, ast.Continue):
            n = self._stmt_node("stmt", s, preds)
            if self._loops:
                self._edge(n, self._loops[-1][0])
            return []
        if isinstance(s, ast.Return):
            n = self._stmt_node("stmt", s, preds)
            cur = [(n, None)]
            for fb in reversed(self._finally):
                cur = self._block(fb, cur)
            for x, lab in cur:
                self._edge(x, self.exit, lab)
            return []
        if isinstance(s, ast.Raise):
            n = self._stmt_node("stmt", s, preds)
            if self._handlers:
                pass  # exc edge to handlers already added
            else:
                self._edge(n, self.raise_exit)
            return []
        if isinstance(s, (ast.With, ast.AsyncWith)):
            w = self._stmt_node("with", s, preds)
            if _is_suppress(s):
                after = self._new("stmt", None)  # join point after the with
                self._handlers.append([after])
                out = self._block(s.body, [(w, None)])
                self._handlers.pop()
                self._connect(out, after)
                return [(after, None)]
            return self._block(s.body, [(w, None)])
        if isinstance(s, ast.Try):
            hnodes = [self._new("except", h) for h in s.handlers]
            for hn in hnodes:
                self.by_stmt[id(hn.stmt)] = hn
            outer = self._handlers[-1] if self._handlers else []
            final_entry = None
            targets = list(hnodes)
            if not hnodes and s.finalbody:
                final_entry = self._new("stmt", None)
                targets = [final_entry]
            self._handlers.append(targets)
            if s.finalbody:
                self._finally.append(s.finalbody)
            body_out = self._block(s.body, preds)
            self._handlers.pop()
            # the try entry itself may be skipped by an exception in first stmt: handled by edges
            else_out = self._block(s.orelse, body_out) if s.orelse else body_out
            h_out = []
            if outer:
                self._handlers.append(outer)
            for hn, h in zip(hnodes, s.handlers):
                h_out += self._block(h.body, [(hn, None)])
            if outer:
                self._handlers.pop()
            if s.finalbody:
                self._finally.pop()
            out = else_out + h_out
            if s.finalbody:
                if final_entry is not None:
                    # exceptional path through finally then re-raise
                    f_exc = self._block(s.finalbody, [(final_entry, None)])
                    for x, lab in f_exc:
                        if outer:
                            for h in outer:
                                self._edge(x, h, "exc")
                        else:
                            self._edge(x, self.raise_exit, lab)
                out = self._block(s.finalbody, out)
            return out
        if isinstance(s, (ast.FunctionDef, ast.AsyncFunctionDef, ast.ClassDef)):
            n = self._stmt_node("stmt", s, preds)
            return [(n, None)]
        if isinstance(s, ast.Match):
            t = self._stmt_node("test", s, preds)
            out = []
            for c in s.cases:
                out += self._block(c.body, [(t, "T")])
            return out + [(t, "F")]
        n = self._stmt_node("stmt", s, preds)
        return [(n, None)]

    # ------------------------------------------------------------- queries
    def node_of(self, stmt: ast.AST) -> Node | None:
        return self.by_stmt.get(id(stmt))

    def reachable(self) -> set[int]:
        seen = {self.entry.id}
        work = [self.entry]
        while work:
            n = work.pop()
            for s, _ in n.succ:
                if s.id not in seen:
                    seen.add(s.id)
                    work.append(s)
        return seen

    def _dominators(self, root: Node, forward: bool) -> dict[int, set[int]]:
        nodes = self.nodes
        allids = {n.id for n in nodes}
        dom = {n.id: set(allids) for n in nodes}
        dom[root.id] = {root.id}
        changed = True
        order = nodes
        while changed:
            changed = False
            for n in order:
                if n is root:
                    continue
                ps = n.pred if forward else [s for s, _ in n.succ]
                ps = [p for p in ps]
                if not ps:
                    new = {n.id}
                else:
                    new = set.intersection(*(dom[p.id] for p in ps)) | {n.id}
                if new != dom[n.id]:
                    dom[n.id] = new
                    changed = True
        return dom

    @property
    def dom(self):
        if self._dom is None:
            self._dom = self._dominators(self.entry, True)
        return self._dom

    @property
    def pdom(self):
        """Post-dominators with respect to the NORMAL exit."""
        if self._pdom is None:
            self._pdom = self._dominators(self.exit, False)
        return self._pdom

    def dominates(self, a: Node, b: Node) -> bool:
        return a.id in self.dom[b.id]

    def postdominates(self, a: Node, b: Node) -> bool:
        return a.id in self.pdom[b.id]

    def reach_from(self, start: Node, avoid: Iterable[Node] = (), labels_ok=None) -> set[int]:
        """Nodes reachable from start (exclusive of start unless on a cycle) not passing through `avoid`."""
        av = {n.id for n in avoid}
        seen: set[int] = set()
        work = [start]
        while work:
            n = work.pop()
            for s, lab in n.succ:
                if s.id in seen or s.id in av:
                    continue
                if labels_ok is not None and not labels_ok(n, s, lab):
                    continue
                seen.add(s.id)
                work.append(s)
        return seen

    def path_avoiding(self, start: Node, goal: Node, avoid: Iterable[Node], follow_exc: bool = True) -> list[Node] | None:
        """A path start→goal that does not pass through any node of `avoid`, or None."""
        av = {n.id for n in avoid}
        if start.id in av:
            return None
        prev: dict[int, Node | None] = {start.id: None}
        work = [start]
        while work:
            n = work.pop(0)
            if n is goal:
                path = []
                cur: Node | None = n
                while cur is not None:
                    path.append(cur)
                    cur = prev[cur.id]
                return path[::-1]
            for s, lab in n.succ:
                if s.id in prev or s.id in av:
                    continue
                if lab == "exc" and not follow_exc:
                    continue
                prev[s.id] = n
                work.append(s)
        return None

    def must_pass(self, start: Node, goal: Node, via: Iterable[Node], follow_exc: bool = True) -> list[Node] | None:
        """None if every path start→goal passes a `via` node; else a counter-example path."""
        return self.path_avoiding(start, goal, via, follow_exc)

    def control_deps(self, n: Node) -> list[tuple[Node, str | None]]:
        """(test node, label) pairs n is control-dependent on (w.r.t. normal+raise exits)."""
        out = []
        # classic: n is control dependent on (t,label) if n postdominates succ(t,label) (or is it) but not t
        pd = self._pdom_all()
        for t in self.nodes:
            if len(t.succ) < 2:
                continue
            for s, lab in t.succ:
                if (n.id in pd[s.id]) and not (n.id in pd[t.id] and n is not t):
                    out.append((t, lab))
        return out

    def _pdom_all(self):
        if getattr(self, "_pdom_all_cache", None) is None:
            # virtual exit joining exit and raise
            v = Node(-1, "vexit", None)
            saved = (list(self.exit.succ), list(self.raise_exit.succ))
            self.exit.succ.append((v, None))
            self.raise_exit.succ.append((v, None))
            v.pred = [self.exit, self.raise_exit]
            self.nodes.append(v)
            try:
                self._pdom_all_cache = self._dominators(v, False)
            finally:
                self.nodes.pop()
                self.exit.succ[:] = saved[0]
                self.raise_exit.succ[:] = saved[1]
        return self._pdom_all_cache

    def stmts(self) -> Iterator[Node]:
        for n in self.nodes:
            if n.stmt is not None:
                yield n

    def dump(self) -> str:
        out = []
        for n in self.nodes:
            out.append(f"{n!r} -> {[(s.id, l) for s, l in n.succ]}")
        return "\n".join(out)


def guards_of(cfg: CFG, n: Node) -> list[tuple[ast.expr, bool]]:
    """Syntactic guard stack of statement n: (test expr, polarity) for each enclosing
    if/while on the path from the function body to n (structural, not CFG-based)."""
    out = []
    cur = n.stmt
    par = getattr(cur, "_parent", None)
    while par is not None and par is not cfg.fn:
        if isinstance(par, (ast.If, ast.While)):
            if cur in par.body:
                out.append((par.test, True))
            elif cur in par.orelse:
                out.append((par.test, False))
        cur = par
        par = getattr(cur, "_parent", None)
    return out[::-1]
