"""Turning code into finite tables: if-chains, runs of `if …: return`,
isinstance dispatch, constant dispatch on a variable."""

from __future__ import annotations

import ast
from typing import Any, Iterator

from .core import UNKNOWN, ClassInfo, FuncInfo, ModuleInfo, Repo, walk_no_nested

BUILTIN_SUB = {  # frozen from the Python data model: (subclass, superclass)
    ("bool", "int"),
    ("datetime.datetime", "datetime.date"),
}


class Arm:
    __slots__ = ("test", "body", "node", "is_else")

    def __init__(self, test, body, node, is_else=False):
        self.test = test
        self.body = body
        self.node = node
        self.is_else = is_else


def if_chains(fn_node: ast.AST) -> Iterator[list[Arm]]:
    """Yield every if/elif/else chain and every maximal run of sibling
    `if t: …return/raise/continue/break` statements (each also individually chained)."""
    for n in walk_no_nested(fn_node):
        for field in ("body", "orelse", "finalbody"):
            block = getattr(n, field, None)
            if not isinstance(block, list) or not block or not isinstance(block[0], ast.stmt):
                continue
            # an `elif` chain is seen from its head only
            if field == "orelse" and isinstance(n, ast.If) and len(block) == 1 and isinstance(block[0], ast.If):
                continue
            i = 0
            while i < len(block):
                s = block[i]
                if not isinstance(s, ast.If):
                    i += 1
                    continue
                arms = _elif_arms(s)
                # extend with following sibling ifs when every arm so far ends the flow
                j = i + 1
                while (all(_terminates(a.body) for a in arms if not a.is_else)
                       and not any(a.is_else for a in arms)
                       and j < len(block) and isinstance(block[j], ast.If)):
                    arms += _elif_arms(block[j])
                    j += 1
                if all(_terminates(a.body) for a in arms if not a.is_else) and not any(a.is_else for a in arms) and j < len(block):
                    arms.append(Arm(None, block[j:], block[j], True))
                yield arms
                i = j


def _elif_arms(s: ast.If) -> list[Arm]:
    arms = []
    cur: ast.If | None = s
    while cur is not None:
        test, body, orelse = cur.test, cur.body, cur.orelse
        # a final two-armed `if not c: B else: A` is the chain `if c: A else: B` written the other way round
        if isinstance(test, ast.UnaryOp) and isinstance(test.op, ast.Not) and orelse and not (len(orelse) == 1 and isinstance(orelse[0], ast.If)):
            test, body, orelse = test.operand, orelse, body
        arms.append(Arm(test, body, cur))
        if len(orelse) == 1 and isinstance(orelse[0], ast.If) and orelse is cur.orelse:
            cur = orelse[0]
        else:
            if orelse:
                arms.append(Arm(None, orelse, orelse[0], True))
            cur = None
    return arms


def _terminates(body: list[ast.stmt]) -> bool:
    if not body:
        return False
    last = body[-1]
    if isinstance(last, (ast.Return, ast.Raise, ast.Continue, ast.Break)):
        return True
    if isinstance(last, ast.If) and last.orelse:
        return _terminates(last.body) and _terminates(last.orelse)
    return False


def type_name(e: ast.expr, m: ModuleInfo, repo: Repo) -> str | None:
    """Canonical name of a type expression: builtins by name, stdlib as module.attr,
    package classes as 'pkg:Class'."""
    if isinstance(e, ast.Name):
        r = repo.resolve_name(e.id, m)
        if isinstance(r, ClassInfo):
            return f"pkg:{r.name}"
        if isinstance(r, tuple) and r[0] == "ext":
            return r[1]
        if isinstance(r, tuple) and r[0] == "const":
            return type_name(r[1], r[2], repo)
        if r is None:
            return e.id  # builtin
        return None
    if isinstance(e, ast.Attribute) and isinstance(e.value, ast.Name):
        r = repo.resolve_name(e.value.id, m)
        if isinstance(r, ModuleInfo):
            return type_name(ast.Name(id=e.attr), r, repo)
        if e.value.id in m.imports:
            return f"{m.imports[e.value.id][0]}.{e.attr}"
    return None


def isinstance_types(test: ast.expr, m: ModuleInfo, repo: Repo) -> tuple[str, list[str], bool] | None:
    """If `test` is isinstance(v, T) | isinstance(v,(T1,T2)) | an `or` of such on one
    variable → (unparsed v, [types], pure=True).  With extra `and` conjuncts → pure=False."""
    if isinstance(test, ast.BoolOp) and isinstance(test.op, ast.Or):
        var, types = None, []
        for v in test.values:
            r = isinstance_types(v, m, repo)
            if r is None or not r[2]:
                return None
            if var is not None and r[0] != var:
                return None
            var = r[0]
            types += r[1]
        return (var, types, True) if var else None
    if isinstance(test, ast.BoolOp) and isinstance(test.op, ast.And):
        for v in test.values:
            r = isinstance_types(v, m, repo)
            if r is not None:
                return (r[0], r[1], False)
        return None
    if isinstance(test, ast.Call) and isinstance(test.func, ast.Name) and test.func.id == "isinstance" and len(test.args) == 2:
        var = ast.unparse(test.args[0])
        t = test.args[1]
        elts = t.elts if isinstance(t, ast.Tuple) else [t]
        names = []
        for x in elts:
            tn = type_name(x, m, repo)
            if tn is None:
                tn = "?" + ast.unparse(x)
            names.append(tn)
        return (var, names, True)
    return None


def is_subtype(a: str, b: str, repo: Repo) -> bool:
    """a is a strict subclass of b."""
    if a == b:
        return False
    if (a, b) in BUILTIN_SUB:
        return True
    if a.startswith("pkg:") and b.startswith("pkg:"):
        ca, cb = repo.find_class(a[4:]), repo.find_class(b[4:])
        return bool(ca and cb and ca is not cb and cb in ca.mro)
    return False


def const_tests(test: ast.expr | None, var: str, m: ModuleInfo, repo: Repo, cls: ClassInfo | None = None) -> list[Any] | None:
    """Constants c for which `test` is `var == c`, `var in (c1, c2)`, or an `or` of those."""
    if test is None:
        return None
    if isinstance(test, ast.BoolOp) and isinstance(test.op, ast.Or):
        out = []
        for v in test.values:
            r = const_tests(v, var, m, repo, cls)
            if r is None:
                return None
            out += r
        return out
    if isinstance(test, ast.Compare) and len(test.ops) == 1 and ast.unparse(test.left) == var:
        op, rhs = test.ops[0], test.comparators[0]
        v = repo.fold(rhs, m, cls)
        if v is UNKNOWN:
            return None
        if isinstance(op, ast.Eq):
            return [v]
        if isinstance(op, ast.In) and isinstance(v, (tuple, list, set, frozenset)):
            return sorted(v, key=repr)
    return None


def const_dispatch(fn: FuncInfo, var: str, repo: Repo) -> list[tuple[list[Any], Arm]]:
    """All arms (across every chain of fn) whose test compares `var` with constants."""
    out = []
    for chain in if_chains(fn.node):
        for arm in chain:
            cs = const_tests(arm.test, var, fn.module, repo, fn.cls)
            if cs is not None:
                out.append((cs, arm))
    return out


def str_consts_in_calls(body: list[ast.stmt], method_names: set[str], argpos: int = 0) -> list[tuple[str, ast.Call]]:
    """(constant string arg, call) for calls of the named methods in the statements."""
    out = []
    for s in body:
        for n in walk_no_nested(s):
            if isinstance(n, ast.Call):
                f = n.func
                nm = f.attr if isinstance(f, ast.Attribute) else (f.id if isinstance(f, ast.Name) else "")
                if nm in method_names and len(n.args) > argpos and isinstance(n.args[argpos], ast.Constant) \
                        and isinstance(n.args[argpos].value, str):
                    out.append((n.args[argpos].value, n))
    return out


def codec_calls(body: list[ast.stmt], which: str) -> set[str]:
    """Names X of calls X.encode(...)/X.decode(...) (which='encode'|'decode') in the statements."""
    out = set()
    for s in body:
        for n in walk_no_nested(s):
            if isinstance(n, ast.Call) and isinstance(n.func, ast.Attribute) and n.func.attr == which \
                    and isinstance(n.func.value, ast.Name) and n.func.value.id[:1].isupper():
                out.add(n.func.value.id)
    return out
