"""odfsa — static analysis of jdum/odfdo for the properties in /verif/properties.jsonl."""
