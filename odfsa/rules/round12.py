"""Rules added in round 12 (one per property; each is called from the `run` of its own check).

All of them are structural necessary conditions read from the current source; none matches a local by its spelling.
"""

from __future__ import annotations

import ast

from ..core import AnalysisError, call_name, norm, walk_no_nested
from ..paths import canon, structural_guards


def _mentions_self_attr(f, e: ast.AST, attr: str) -> bool:
    """`self.<attr>` occurs in e, directly or through a local whose every definition is that attribute chain"""
    for x in ast.walk(e):
        if isinstance(x, ast.Attribute) and x.attr == attr and isinstance(x.value, ast.Name) and x.value.id == "self":
            return True
        if isinstance(x, ast.Name) and x.id != "self" and f"self.{attr}" in canon(f, x).replace(" ", ""):
            return True
    return False


def r01m(ctx):
    """A cell is addressed inside its row, not inside the declared columns.

    The width of a table is what its `table:table-column` declarations say; a row may be wider (loaded from a file with a short declaration, or
    widened through the live Row API).  The single-cell editors of Table (`set_cell`, `insert_cell`, `append_cell`, `delete_cell`, `set_value`,
    `set_cell_image`) therefore hand the column coordinate to the row and let the row decide what "beyond the end" means.  A shortcut that
    leaves such an editor early because `x` lies beyond `self.width` skips an edit the plain grid performs: the row keeps a cell the model has
    removed.  Rule: in those methods no `return` stands under a test that mentions `self.width` (directly or through a local defined as it).
    """
    repo = ctx.repo
    ctx.rule("R01m", "the single-cell editors of Table never leave early on a comparison with the declared table width", floor=5)
    t = repo.cls("Table")
    n = 0
    for name in ("set_cell", "insert_cell", "append_cell", "delete_cell", "set_value", "set_cell_image"):
        for f in t.methods.get(name, []):
            if f.cls is not t:
                continue
            n += 1
            bad = None
            for r in walk_no_nested(f.node):
                if not isinstance(r, ast.Return):
                    continue
                for test, _pol in structural_guards(r):
                    if _mentions_self_attr(f, test, "width"):
                        bad = (r, test)
            ctx.instance("R01m", f"{f.file}:{f.ident}", "no early return on self.width", ok=bad is None, nontrivial=True, line=f.node.lineno)
            if bad:
                ctx.report("R01m", f, bad[0], norm(bad[1], 50),
                           f"{f.ident} returns early under `{norm(bad[1], 60)}`: the declared table width says nothing about the width of the addressed row, so for a row "
                           f"wider than the column declarations the edit is skipped while the plain grid performs it")
    if n < 5:
        raise AnalysisError(f"R01m: only {n} single-cell editors of Table found")


def r03n(ctx):
    """The part cache of a document is keyed by the member name the part is saved under.

    `Document.save` writes every cached XML part back with `container.set_part(<cache key>, part.serialize())`.  `Document.get_part` files a
    new part as `self.__xmlparts[K] = cls(A, container)`: the part reads member A, the save writes member K.  Unless K and A are the same value
    an edit made through that part is saved under an invented member while the real one keeps its old bytes.  Rule: in every store into
    `self.__xmlparts[K]` whose value constructs a part, K and the first constructor argument are the same expression, and every
    `self.__xmlparts.get(K')` of the function uses that expression too.
    """
    repo = ctx.repo
    ctx.rule("R03n", "Document.get_part files a part under the member name the part itself reads and is saved as", floor=1)
    f = repo.func("Document.get_part")
    n = 0
    for a in walk_no_nested(f.node):
        if not isinstance(a, ast.Assign):
            continue
        keys = [t.slice for t in a.targets if isinstance(t, ast.Subscript) and isinstance(t.value, ast.Attribute) and t.value.attr.endswith("__xmlparts")]
        if not keys:
            continue
        ctor = a.value if isinstance(a.value, ast.Call) else None
        if isinstance(a.value, ast.Name):
            # the part was constructed in an earlier statement: every definition of that local in the function must be one constructor call
            defs = [d.value for d in walk_no_nested(f.node) if isinstance(d, (ast.Assign, ast.AnnAssign)) and d is not a and d.value is not None
                    and any(isinstance(x, ast.Name) and x.id == a.value.id and isinstance(x.ctx, ast.Store) for t in (d.targets if isinstance(d, ast.Assign) else [d.target]) for x in ast.walk(t))]
            calls = [d for d in defs if isinstance(d, ast.Call) and d.args and not (isinstance(d.func, ast.Attribute) and d.func.attr == "get")]
            ctor = calls[0] if len(calls) == 1 else None
        if ctor is None or not ctor.args:
            continue
        n += 1
        k, arg = ast.unparse(keys[0]), ast.unparse(ctor.args[0])
        gets = [ast.unparse(c.args[0]) for c in walk_no_nested(f.node) if isinstance(c, ast.Call) and isinstance(c.func, ast.Attribute) and c.func.attr == "get"
                and isinstance(c.func.value, ast.Attribute) and c.func.value.attr.endswith("__xmlparts") and c.args]
        ok = k == arg and all(g == k for g in gets)
        ctx.instance("R03n", f"{f.file}:{f.ident}", f"__xmlparts[{k}] = part({arg})", ok=ok, nontrivial=True, line=a.lineno)
        if not ok:
            ctx.report("R03n", f, a, norm(a, 60),
                       f"{f.ident} files the part that reads member `{arg}` under the key `{k}` (looked up under {sorted(set(gets))}): save() writes each cached part back "
                       f"under its key, so an edit is saved as a member that does not exist in the package while the real member keeps its old content")
    if n < 1:
        raise AnalysisError("R03n: no store of a constructed part into __xmlparts found in Document.get_part")


def r05i(ctx):
    """Text given to Paragraph.append goes through the normaliser.

    `append_plain_text` is what turns blanks, tabs and line breaks of a Python string into `text:s`, `text:tab`, `text:line-break`; the raw
    `Element.__append` writes the string as it stands.  In `Paragraph.append` the raw append is for Element arguments only.  Rule: every raw
    `_Element__append(x)` of the argument in Paragraph.append stands under the test `isinstance(<argument>, Element)` taken true, and under
    no other condition.
    """
    repo = ctx.repo
    ctx.rule("R05i", "Paragraph.append hands a string to append_plain_text; the raw append is reached for Element arguments only", floor=1)
    f = repo.func("Paragraph.append")
    params = [a.arg for a in f.all_params() if a.arg != "self"]
    n = 0
    for c in walk_no_nested(f.node):
        if not (isinstance(c, ast.Call) and call_name(c) in ("_Element__append", "__append") and c.args):
            continue
        n += 1
        guards = structural_guards(c)
        ok = any(pol and isinstance(t, ast.Call) and call_name(t) == "isinstance" and len(t.args) == 2 and isinstance(t.args[0], ast.Name) and t.args[0].id == params[0]
                 and ast.unparse(t.args[1]) == "Element" for t, pol in guards)
        ctx.instance("R05i", f"{f.file}:{f.ident}", norm(c, 50), ok=ok, nontrivial=True, line=c.lineno)
        if not ok:
            ctx.report("R05i", f, c, norm(c, 50),
                       f"{f.ident} appends its argument raw (`{norm(c, 40)}`) on a path where it is not known to be an Element: a string written this way keeps its "
                       f"leading/trailing/double blanks, tabs and line feeds as characters instead of text:s / text:tab / text:line-break")
    if n < 1:
        raise AnalysisError("R05i: no raw append found in Paragraph.append")


def r09n(ctx):
    """Deleting a mark never decides by itself to drop the text after it.

    `Element.delete(child, keep_tail=True)` moves the tail of the removed node to its neighbour; that is what keeps "every character outside
    the mark".  Inside the package the flag is either left at its default, given as a constant, or the caller's own `keep_tail` parameter
    handed on unchanged.  A computed flag (`keep_tail and <condition>`) drops the tail whenever the condition fails — text outside the mark.
    Rule: every `keep_tail=` argument of a call in the package is a constant or the bare `keep_tail` parameter of the enclosing function.
    """
    repo = ctx.repo
    ctx.rule("R09n", "a keep_tail flag is a constant or the caller's own parameter passed on unchanged, never computed", floor=1)
    n = 0
    for f in repo.all_funcs():
        params = {a.arg for a in f.all_params()}
        for c in walk_no_nested(f.node):
            if not isinstance(c, ast.Call):
                continue
            for k in c.keywords:
                if k.arg != "keep_tail":
                    continue
                n += 1
                v = k.value
                ok = isinstance(v, ast.Constant) or (isinstance(v, ast.Name) and v.id == "keep_tail" and "keep_tail" in params
                                                      and not any(isinstance(s, (ast.Assign, ast.AugAssign, ast.AnnAssign)) and any(
                                                          isinstance(x, ast.Name) and x.id == "keep_tail" and isinstance(x.ctx, ast.Store) for x in ast.walk(s))
                                                          for s in walk_no_nested(f.node)))
                ctx.instance("R09n", f"{f.file}:{f.ident}", norm(c, 50), ok=ok, nontrivial=True, line=c.lineno)
                if not ok:
                    ctx.report("R09n", f, c, norm(c, 50),
                               f"{f.ident} computes the flag `keep_tail={norm(v, 40)}`: when it comes out false the text that follows the removed node — text outside the "
                               f"mark — is deleted with it")
    if n < 1:
        raise AnalysisError("R09n: no keep_tail= argument found in the package")


def r12t(ctx):
    """`parent` answers None for a root node only.

    Every access path hands out the registered wrapper of the node it reaches; for `Element.parent` the node is `getparent()` of the lxml
    element, and the only node without a wrapper is "no parent".  Rule: in the `parent` getter every `return None` stands under the single
    test `<result of getparent()> is None`; every other path returns `Element.from_tag(<that result>)`.
    """
    repo = ctx.repo
    ctx.rule("R12t", "Element.parent returns None only when lxml's getparent() is None, else the wrapper of that node", floor=2)
    f = repo.cls("Element").lookup("parent", "getter")
    if f is None:
        raise AnalysisError("R12t: Element.parent getter not found")
    n = 0
    for r in walk_no_nested(f.node):
        if not isinstance(r, ast.Return):
            continue
        n += 1
        none = r.value is None or (isinstance(r.value, ast.Constant) and r.value.value is None)
        guards = structural_guards(r)

        def says_none(t, pol):
            """True: the guard says `getparent() result is None`; False: says it is not None; None: another condition"""
            if isinstance(t, ast.Compare) and len(t.ops) == 1 and isinstance(t.ops[0], (ast.Is, ast.IsNot)) and isinstance(t.comparators[0], ast.Constant) \
                    and t.comparators[0].value is None and "getparent()" in canon(f, t.left):
                return pol == isinstance(t.ops[0], ast.Is)
            return None
        said = [says_none(t, pol) for t, pol in guards]
        if none:
            ok = bool(said) and all(x is True for x in said)
        else:
            ok = isinstance(r.value, ast.Call) and call_name(r.value) == "from_tag" and bool(r.value.args) and "getparent()" in canon(f, r.value.args[0]) \
                and all(x is False for x in said)
        ctx.instance("R12t", f"{f.file}:{f.ident}", norm(r, 50), ok=ok, nontrivial=True, line=r.lineno)
        if not ok:
            ctx.report("R12t", f, r, norm(r, 50),
                       f"Element.parent: `{norm(r, 40)}` under {[norm(t, 40) for t, _ in guards]}: a node that has a parent in the tree is told it has none (is_bound false, "
                       f"delete() raises), or the parent is not handed out as its registered wrapper")
    if n < 2:
        raise AnalysisError(f"R12t: only {n} return(s) in Element.parent")


def r16l(ctx):
    """Every text node a query selects reaches the caller.

    `replace()` walks `xpath("descendant::text()")`, the search side reads `inner_text`: both must see the same text nodes, or counts and
    replacements differ from what the regular expression says about the text.  `Element.xpath` is the one place where lxml's results are turned
    into EText / Element wrappers.  Rule: in the result loop of Element.xpath the append of `EText(obj)` stands under the `isinstance(obj,
    (str, bytes))` test alone, the append of the wrapper under the `isinstance(obj, _Element)` test alone, and the loop holds no `continue`,
    `break` or deletion.
    """
    repo = ctx.repo
    ctx.rule("R16l", "Element.xpath wraps every string and element result (no result is filtered out)", floor=2)
    f = repo.func("Element.xpath")
    loops = [x for x in walk_no_nested(f.node) if isinstance(x, ast.For)]
    if len(loops) != 1:
        raise AnalysisError(f"R16l: {len(loops)} loops in Element.xpath")
    loop = loops[0]
    n = 0
    for x in ast.walk(loop):
        if isinstance(x, (ast.Continue, ast.Break, ast.Delete)):
            n += 1
            ctx.instance("R16l", f"{f.file}:{f.ident}", norm(x, 30), ok=False, nontrivial=True, line=x.lineno)
            ctx.report("R16l", f, x, norm(x, 30) + " under " + "; ".join(norm(t, 50) for t, _ in structural_guards(x, stop=loop)),
                       f"Element.xpath skips a result of the query (`{norm(x, 20)}`): text nodes that search counts through inner_text are not handed to replace(), so the "
                       f"number of replacements and the resulting text differ from what the regular expression gives")
        if isinstance(x, ast.Call) and call_name(x) == "append" and x.args and isinstance(x.args[0], ast.Call) and call_name(x.args[0]) in ("EText", "from_tag"):
            n += 1
            guards = [(t, pol) for t, pol in structural_guards(x, stop=loop)]
            taken = [t for t, pol in guards if pol]
            ok = len(taken) == 1 and isinstance(taken[0], ast.Call) and call_name(taken[0]) == "isinstance" \
                and all(isinstance(t, ast.Call) and call_name(t) == "isinstance" for t, _ in guards)
            ctx.instance("R16l", f"{f.file}:{f.ident}", norm(x, 50), ok=ok, nontrivial=True, line=x.lineno)
            if not ok:
                ctx.report("R16l", f, x, norm(x, 50),
                           f"Element.xpath wraps this result only under {[norm(t, 40) for t, _ in guards]}: some results of the query are dropped on the way to the caller")
    if n < 2:
        raise AnalysisError(f"R16l: only {n} result appends found in Element.xpath")


_MUTATORS = ("setdefault", "update", "append", "add", "extend", "insert", "__setitem__", "pop", "clear", "remove", "popitem", "discard")


def global_store_sites(repo):
    """(function, node, global name): stores into a module-level container from inside a function — `G[k] = v`, `G.setdefault/append/…(…)`,
    `global G` rebinding — where G is bound at module level of the function's module and not shadowed by a parameter or a local assignment."""
    out = []
    for f in repo.all_funcs():
        m = f.module
        mod_names = set()
        for st in m.tree.body:
            tg = st.targets if isinstance(st, ast.Assign) else [st.target] if isinstance(st, ast.AnnAssign) else []
            for t in tg:
                if isinstance(t, ast.Name):
                    mod_names.add(t.id)
        if not mod_names:
            continue
        local = {a.arg for a in f.all_params()}
        declared_global = set()
        for x in walk_no_nested(f.node):
            if isinstance(x, ast.Global):
                declared_global |= set(x.names)
        for x in walk_no_nested(f.node):
            if isinstance(x, ast.Name) and isinstance(x.ctx, ast.Store) and x.id not in declared_global:
                local.add(x.id)
        cand = (mod_names - local) | (declared_global & mod_names)
        for x in walk_no_nested(f.node):
            if isinstance(x, ast.Subscript) and isinstance(x.ctx, (ast.Store, ast.Del)) and isinstance(x.value, ast.Name) and x.value.id in cand:
                out.append((f, x, x.value.id))
            elif isinstance(x, ast.Call) and isinstance(x.func, ast.Attribute) and x.func.attr in _MUTATORS and isinstance(x.func.value, ast.Name) and x.func.value.id in cand:
                out.append((f, x, x.func.value.id))
            elif isinstance(x, ast.Name) and isinstance(x.ctx, ast.Store) and x.id in declared_global:
                out.append((f, x, x.id))
    return out


# module-level containers a function may write, one named symbol each, with what governs it
_GOVERNED_GLOBALS = {
    ("src/odfdo/element.py", "_class_registry"): "the element class registry, filled at import time by register_element_class (replayed by the registry replica, C12)",
    ("src/odfdo/mixin_md.py", "MD_GLOBAL"): "state of one markdown export, set by _set_global at the start of to_markdown and restored by _restore_global at its end",
}


def _no_process_state(ctx, rid: str, text: str, why: str):
    repo = ctx.repo
    ctx.rule(rid, text, floor=500)
    sites: dict[int, list] = {}
    for f, node, name in global_store_sites(repo):
        if (f.file, name) in _GOVERNED_GLOBALS:
            continue
        sites.setdefault(id(f.node), []).append((node, name))
    # positive control: the detector must see the two governed stores of today's tree
    seen = {(f.file, name) for f, _n, name in global_store_sites(repo)}
    if not set(_GOVERNED_GLOBALS) <= seen:
        raise AnalysisError(f"{rid}: the module-level store detector does not see the governed stores any more: {sorted(set(_GOVERNED_GLOBALS) - seen)}")
    n = 0
    for f in repo.all_funcs():
        if f.kind == "nested":
            continue
        n += 1
        b = sites.get(id(f.node), [])
        ctx.instance(rid, f"{f.file}:{f.ident}", "keeps nothing in a module-level container", ok=not b, nontrivial=bool(b), line=f.node.lineno)
        for node, name in b[:2]:
            ctx.report(rid, f, node, norm(node, 50),
                       f"{f.ident} writes the module-level container `{name}` (`{norm(node, 50)}`): {why}")


def r18g(ctx):
    """A codec is a function of its argument alone.

    "decode(encode(v)) == v for every v": a result remembered in a module-level table makes the answer depend on which values were converted
    earlier in the process — two values that share a key get one answer.  Rule (expected count 0 beyond the named governed containers; the
    detector is checked against those on every run): no function of the package stores into a container bound at module level.
    """
    _no_process_state(ctx, "R18g", "no function keeps answers in a module-level container (codecs depend on their argument only)",
                      "the answer of a later call then depends on the calls made before it in the same process, not on its argument alone — two values that share a key "
                      "are encoded alike and no longer decode to themselves")


def r11m(ctx):
    """What a save writes depends on the document, not on the saves made before it.

    The indenter decides per element whether it is textual (no white space may be added inside it).  A decision remembered in a module-level
    table is taken once per process: the first element seen under a key decides for every later one, in every later document.  Same rule as
    R18g, stated for the save path.
    """
    _no_process_state(ctx, "R11m", "no function keeps answers in a module-level container (a save depends on the document only)",
                      "the decision taken for the first element seen under a key is then applied to every later one in the process — an element of another namespace "
                      "with the same local name is indented as structure and its text changes on a pretty save")


def r10k(ctx):
    """A folder is listed under the path it is walked into.

    `Container.clone` of a folder-backed container loads the parts `_parse_folder` lists.  The lister names a file by its path relative to the
    document folder and walks into a sub-folder by calling itself; unless the recursion is given that same relative path, a folder two levels
    down is looked for one level down, found missing, and everything below it is absent from the clone.  Rule: every recursive call of
    `_parse_folder` passes (a str() / as_posix() of) the local defined as `<entry>.relative_to(self.path)` — the one the file names come from.
    """
    repo = ctx.repo
    ctx.rule("R10k", "Container._parse_folder recurses into the path relative to the document folder, the one its file names are built from", floor=1)
    f = repo.func("Container._parse_folder")
    rel = set()
    for a in walk_no_nested(f.node):
        if isinstance(a, ast.Assign) and len(a.targets) == 1 and isinstance(a.targets[0], ast.Name) and isinstance(a.value, ast.Call) \
                and call_name(a.value) == "relative_to" and a.value.args and ast.unparse(a.value.args[0]) == "self.path":
            rel.add(a.targets[0].id)
    n = 0
    for c in walk_no_nested(f.node):
        if isinstance(c, ast.Call) and call_name(c) == "_parse_folder" and c.args:
            n += 1
            arg = c.args[0]
            names = {x.id for x in ast.walk(arg) if isinstance(x, ast.Name)}
            direct = any(isinstance(x, ast.Call) and call_name(x) == "relative_to" and x.args and ast.unparse(x.args[0]) == "self.path" for x in ast.walk(arg))
            ok = bool(names & rel) or direct
            ctx.instance("R10k", f"{f.file}:{f.ident}", norm(c, 50), ok=ok, nontrivial=True, line=c.lineno)
            if not ok:
                ctx.report("R10k", f, c, norm(c, 50),
                           f"{f.ident} walks into `{norm(arg, 40)}`, not into the entry's path relative to the document folder: a folder below the first level is looked up "
                           f"in the wrong place, so its parts are missing from the listing and from every clone of a folder-opened document")
    if n < 1 or not rel:
        raise AnalysisError("R10k: recursion or relative path not found in Container._parse_folder")


def r19n(ctx):
    """The bounds a table reader hands to its rows are the bounds the coordinate was translated to.

    "Every way of addressing … resolves to the same cells."  The ranged readers of Table translate the coordinate once
    (`x, y, z, t = self._translate_table_coordinates(coord)`) and give each row the column part `(x, z)`; the single-cell and cell-object
    readers do the same.  The declared table width is used for padding only (`complete=`).  A reader that first clips a bound to the declared
    width hands its rows a shorter range than its siblings do — rows wider than the column declarations lose their right end in that reader
    alone.  Rule: in every Table method that unpacks `_translate_table_coordinates`, a name of that unpacking that is passed on inside the
    coordinate tuple of a row call is never re-assigned (its only stores are the unpacking and a constant-None default).
    """
    repo = ctx.repo
    ctx.rule("R19n", "column bounds passed from a Table reader to its rows are the translated coordinates, never re-assigned in between", floor=2)
    t = repo.cls("Table")
    n = 0
    for name, fs in sorted(t.methods.items()):
        for f in fs:
            if f.cls is not t:
                continue
            unpack = [a for a in walk_no_nested(f.node) if isinstance(a, ast.Assign) and isinstance(a.value, ast.Call) and call_name(a.value) == "_translate_table_coordinates"
                      and isinstance(a.targets[0], ast.Tuple)]
            if not unpack:
                continue
            bound = {e.id for a in unpack for e in a.targets[0].elts if isinstance(e, ast.Name)}
            passed = {}
            for c in walk_no_nested(f.node):
                if isinstance(c, ast.Call) and isinstance(c.func, ast.Attribute) and not (isinstance(c.func.value, ast.Name) and c.func.value.id == "self") and c.args \
                        and isinstance(c.args[0], ast.Tuple):
                    for e in c.args[0].elts:
                        if isinstance(e, ast.Name) and e.id in bound:
                            passed.setdefault(e.id, c)
            for v, call in sorted(passed.items()):
                n += 1
                other = []
                for a in walk_no_nested(f.node):
                    tg = a.targets if isinstance(a, ast.Assign) else [a.target] if isinstance(a, (ast.AugAssign, ast.AnnAssign)) else []
                    if a in unpack or not tg:
                        continue
                    if any(isinstance(x, ast.Name) and x.id == v and isinstance(x.ctx, ast.Store) for t_ in tg for x in ast.walk(t_)):
                        if isinstance(a, ast.Assign) and isinstance(a.value, ast.Constant) and a.value.value is None:
                            continue
                        other.append(a)
                ok = not other
                ctx.instance("R19n", f"{f.file}:{f.ident}", f"`{v}` reaches {norm(call, 40)} as translated", ok=ok, nontrivial=True, line=call.lineno)
                if not ok:
                    ctx.report("R19n", f, other[0], norm(other[0], 50),
                               f"{f.ident} re-assigns the translated bound (`{norm(other[0], 50)}`) before handing it to `{norm(call, 40)}`: this reader then resolves the "
                               f"coordinate to other cells than its siblings — e.g. a range clipped to the declared width loses the right end of rows that are wider")
    if n < 2:
        raise AnalysisError(f"R19n: only {n} translated bound(s) passed on to a row call found")


def r06l(ctx):
    """The type written with a new value is chosen for that value.

    `set_value_and_type(value, value_type=None)` deduces the ODF type from the Python value; a caller may name the type itself.  A setter that
    takes the type *from the element it is about to overwrite* applies the old declaration to a value of any kind: a text stored in a
    percentage field is written as `office:value-type="percentage"` with a non-numeric `office:value`, which no reader accepts.  Rule: in
    every method with a `value` parameter, a `value_type=` handed to set_value_and_type is absent, a constant, or a parameter of the method
    (the caller's choice) — never a local read from the element's own attributes.
    """
    repo = ctx.repo
    ctx.rule("R06l", "a value_type passed to set_value_and_type is the caller's parameter or a constant, never read back from the element being overwritten", floor=6)
    n = 0
    for f in repo.all_funcs():
        params = {a.arg for a in f.all_params()}
        if "value" not in params:
            continue
        for c in walk_no_nested(f.node):
            if not (isinstance(c, ast.Call) and call_name(c) == "set_value_and_type"):
                continue
            n += 1
            vt = [k.value for k in c.keywords if k.arg == "value_type"]
            bad = None
            for v in vt:
                for x in ast.walk(v):
                    if isinstance(x, ast.Call) and call_name(x).startswith("get_attribute"):
                        bad = x
                    if isinstance(x, ast.Name) and x.id not in params:
                        for a in walk_no_nested(f.node):
                            tg = a.targets if isinstance(a, ast.Assign) else [a.target] if isinstance(a, ast.AnnAssign) and a.value is not None else []
                            if any(isinstance(y, ast.Name) and y.id == x.id and isinstance(y.ctx, ast.Store) for t in tg for y in ast.walk(t)):
                                if any(isinstance(z, ast.Call) and call_name(z).startswith("get_attribute") for z in ast.walk(a.value)):
                                    bad = a
            ctx.instance("R06l", f"{f.file}:{f.ident}", norm(c, 50), ok=bad is None, nontrivial=bool(vt), line=c.lineno)
            if bad is not None:
                ctx.report("R06l", f, c, norm(bad, 50),
                           f"{f.ident} hands set_value_and_type a value_type read from the element itself (`{norm(bad, 50)}`): the old declaration is written over a new value "
                           f"of any Python type — a str, bool or date stored under 'percentage'/'currency' does not read back")
    if n < 6:
        raise AnalysisError(f"R06l: only {n} set_value_and_type call(s) in methods with a value parameter")


def r16m(ctx):
    """A text node is text or tail as lxml says, not as its characters suggest.

    `Element.replace()` writes a substitution into `container.text` or `container.tail` according to `EText.is_text()` / `is_tail()`.  lxml's
    smart strings know which one they are; a classification recomputed from the characters (`parent.text == string`) takes a tail that
    happens to equal the text of its element for the text: the replacement lands in the wrong slot while the count includes it.  Rule:
    EText.__init__ takes both flags from the `is_text` / `is_tail` attributes of the lxml result it is given.
    """
    repo = ctx.repo
    ctx.rule("R16m", "EText takes is_text/is_tail from the lxml result itself", floor=2)
    f = repo.func("EText.__init__")
    params = [a.arg for a in f.all_params() if a.arg != "self"]
    n = 0
    for a in walk_no_nested(f.node):
        if not (isinstance(a, ast.Assign) and len(a.targets) == 1 and isinstance(a.targets[0], ast.Attribute) and isinstance(a.targets[0].value, ast.Name) and a.targets[0].value.id == "self"):
            continue
        for flag in ("is_text", "is_tail"):
            if a.targets[0].attr.endswith(flag):
                n += 1
                v = a.value
                ok = isinstance(v, ast.Attribute) and v.attr == flag and isinstance(v.value, ast.Name) and v.value.id == params[0]
                ctx.instance("R16m", f"{f.file}:{f.ident}", norm(a, 50), ok=ok, nontrivial=True, line=a.lineno)
                if not ok:
                    ctx.report("R16m", f, a, norm(a, 50),
                               f"EText computes `{flag}` itself (`{norm(v, 50)}`) instead of taking lxml's: a tail equal to the text of the element it follows is classified as "
                               f"text, so replace() writes the substitution over the element's text and leaves the tail — counted, not replaced")
    if n < 2:
        raise AnalysisError(f"R16m: only {n} flag assignment(s) in EText.__init__")


_PATH_CALLS_OK = {"endswith", "startswith", "PurePath", "PurePosixPath", "as_posix", "str", "len", "isinstance"}


def r03o(ctx):
    """A member name is normalised as a path and otherwise left alone.

    Every reader of a package files its members under `normalize_path(name)` and every writer writes the filed names back.  PurePath
    normalisation is idempotent and is what the pinned tests expect; any *character* rewriting of the name (replace, lower, strip, translate,
    a regular expression) files a member under a name it does not have: the original member is lost on save and another one appears.  Rule:
    normalize_path calls nothing but the path constructors and the tests of today's tree.
    """
    repo = ctx.repo
    ctx.rule("R03o", "normalize_path rewrites no characters of a member name (only PurePath normalisation)", floor=2)
    f = repo.func("container:normalize_path")
    n = 0
    for c in walk_no_nested(f.node):
        if isinstance(c, ast.Call):
            n += 1
            ok = call_name(c) in _PATH_CALLS_OK
            ctx.instance("R03o", f"{f.file}:{f.ident}", norm(c, 40), ok=ok, nontrivial=True, line=c.lineno)
            if not ok:
                ctx.report("R03o", f, c, norm(c, 50),
                           f"normalize_path applies `{norm(c, 40)}` to the member name: a member whose name holds those characters is filed (and saved) under another name — "
                           f"the part the archive contained is lost and one it did not contain appears")
    if n < 2:
        raise AnalysisError(f"R03o: only {n} call(s) in normalize_path")


def r14m(ctx):
    """A name handed on to a lookup is the string, not the decoded property.

    The `name` properties of the named elements go through the generic getter, which answers the strings "true"/"false" with booleans; the
    query builder then reads True as "any name" and False as "no filter".  A function that looks one element up and passes *its* `.name` on to
    the next lookup therefore finds the wrong partner for exactly those names.  Rule: no `name=` / `*_name=` keyword argument of a call in
    the package is an attribute read `<other element>.name` (on anything but `self`, whose table-name use R19 governs).
    """
    repo = ctx.repo
    ctx.rule("R14m", "no lookup is given `<element>.name` (a decoded property) as the name to search for", floor=30)
    n = 0
    for f in repo.all_funcs():
        for c in walk_no_nested(f.node):
            if not isinstance(c, ast.Call):
                continue
            for k in c.keywords:
                if k.arg is None or not (k.arg == "name" or k.arg.endswith("_name")):
                    continue
                if not call_name(c).startswith(("get_", "_get", "remove_", "delete_", "_filtered")):
                    continue
                n += 1
                v = k.value
                bad = isinstance(v, ast.Attribute) and v.attr == "name" and not (isinstance(v.value, ast.Name) and v.value.id == "self")
                ctx.instance("R14m", f"{f.file}:{f.ident}", norm(c, 50), ok=not bad, nontrivial=bad, line=c.lineno)
                if bad:
                    ctx.report("R14m", f, c, norm(c, 50),
                               f"{f.ident} searches with `{k.arg}={norm(v, 30)}`: the property getter decodes the names 'true' and 'false' to booleans, which the query builder reads "
                               f"as 'any name' / 'no filter' — for those names another element is found")
    if n < 30:
        raise AnalysisError(f"R14m: only {n} lookup call(s) with a name keyword found")


def r12u(ctx):
    """What a mixin writes through `self.<name>` is a declared property of every element class that mixes it in.

    The mixins (PosMix, SizeMix, AnchorMix, …) are plain classes; their setters write `self.pos_x = …`, relying on the element class to declare
    `pos_x` as a PropDef (or property) that stores the XML attribute.  If one class of the family does not, the assignment creates a Python
    attribute on the wrapper: the constructor argument is accepted, nothing reaches the XML, and it is gone after clone or reparse.  Rule: for
    every non-Element class M of the package and every public name X that a method of M stores on `self`, every Element subclass with M in its
    MRO has X among its properties (PropDef or property with a setter) or stores it in its own `__init__`.
    """
    from ..registry import element_classes, property_names
    repo = ctx.repo
    ctx.rule("R12u", "every `self.<name>` a mixin writes is a declared property of each element class that uses the mixin", floor=20)
    el = repo.cls("Element")
    elems = element_classes(repo)
    n = 0
    for m in repo.all_classes():
        if m is el or el in m.mro:
            continue
        users = [c for c in elems if m in c.mro]
        if not users:
            continue
        stores = {}
        for name, fs in m.methods.items():
            for f in fs:
                if f.cls is not m or f.kind == "nested":
                    continue
                for a in walk_no_nested(f.node):
                    tg = a.targets if isinstance(a, ast.Assign) else [a.target] if isinstance(a, (ast.AugAssign, ast.AnnAssign)) else []
                    for t in tg:
                        if isinstance(t, ast.Attribute) and isinstance(t.value, ast.Name) and t.value.id == "self" and not t.attr.startswith("_"):
                            stores.setdefault(t.attr, (f, a))
        for x, (f, a) in sorted(stores.items()):
            for c in users:
                n += 1
                props = property_names(repo, c)
                ok = props.get(x) in ("propdef", "property")
                ctx.instance("R12u", f"{c.module.relpath}:{c.name}", f"{m.name} writes self.{x}: declared", ok=ok, nontrivial=True, line=c.node.lineno)
                if not ok:
                    ctx.report("R12u", c.module, c.node, f"{c.name}.{x} (written by {m.name}.{f.name})",
                               f"{m.name}.{f.name} stores `self.{x}`, but {c.name} declares no property `{x}`: the value becomes a Python attribute of the wrapper, no XML "
                               f"attribute is written, and it is lost on clone, serialisation or reparse")
    if n < 20:
        raise AnalysisError(f"R12u: only {n} (mixin store, element class) pair(s) found")


def _dispatched_types(repo, f) -> set[str]:
    """string constants the function compares a value-type with (`x == "float"`, `x in {"float", …}` with module constants folded)"""
    out: set[str] = set()
    for c in walk_no_nested(f.node):
        if not (isinstance(c, ast.Compare) and len(c.ops) == 1):
            continue
        other = c.comparators[0]
        if isinstance(c.ops[0], (ast.Eq, ast.NotEq)):
            for side in (c.left, other):
                v = repo.fold(side, f.module, f.cls) if not isinstance(side, ast.Name) or True else None
                if isinstance(v, str):
                    out.add(v)
        elif isinstance(c.ops[0], (ast.In, ast.NotIn)):
            v = repo.fold(other, f.module, f.cls)
            if isinstance(v, (set, frozenset, tuple, list)):
                out |= {x for x in v if isinstance(x, str)}
    return out


def r17n(ctx):
    """Emptiness is judged by a reader that knows every value type.

    `Cell.is_empty()` — what rstrip and optimize_width delete by — asks `self.value is not None`.  `Cell.value` dispatches on
    `office:value-type` by hand, beside the general reader `ElementTyped._get_typed_value`.  A type the general reader decodes and `Cell.value`
    does not know reads as None there: a trailing cell that holds only such a value is "empty" and is removed.  Rule (sibling agreement): every
    value-type constant `_get_typed_value` dispatches on is also one `Cell.value` dispatches on.
    """
    repo = ctx.repo
    ctx.rule("R17n", "Cell.value (the emptiness oracle) dispatches on every value type ElementTyped._get_typed_value decodes", floor=6)
    g = repo.func("ElementTyped._get_typed_value")
    f = repo.cls("Cell").lookup("value", "getter")
    if f is None:
        raise AnalysisError("R17n: Cell.value getter not found")
    known, mine = _dispatched_types(repo, g), _dispatched_types(repo, f)
    if len(known) < 6:
        raise AnalysisError(f"R17n: only {sorted(known)} value types found in ElementTyped._get_typed_value")
    for t in sorted(known):
        ok = t in mine
        ctx.instance("R17n", f"{f.file}:{f.ident}", f"value type {t!r} handled", ok=ok, nontrivial=True, line=f.node.lineno)
        if not ok:
            ctx.report("R17n", f, f.node, f"value type {t!r} not dispatched",
                       f"Cell.value knows {sorted(mine)} but not {t!r}, which ElementTyped._get_typed_value decodes: a cell holding only such a value answers None, is_empty() says "
                       f"empty, and rstrip()/optimize_width() delete it with its value")


def r09o(ctx):
    """A mark goes where the whole match is, not where one of its groups is.

    The inserters address text by a regular expression and place the mark at the start / end of *the match* (`sre.start()`, `sre.end()`); a
    pattern may contain groups for alternation or repetition without meaning "only this part".  `start(g)` / `end(g)` / `span(g)` of a group
    puts the mark inside the matched text.  Rule (expected count 0 in the package; the detector is checked on a two-call fixture on every run):
    no call of start/end/span on a match object takes a group argument.
    """
    repo = ctx.repo
    ctx.rule("R09o", "match positions are those of the whole match: no start(group) / end(group) / span(group)", floor=5)

    def sites(tree):
        return [c for c in ast.walk(tree) if isinstance(c, ast.Call) and isinstance(c.func, ast.Attribute) and c.func.attr in ("start", "end", "span")]
    fx = sites(ast.parse("a = m.start()\nb = m.end(part)\n"))
    if [bool(c.args or c.keywords) for c in fx] != [False, True]:
        raise AnalysisError("R09o fixture: detector broken")
    n = 0
    for f in repo.all_funcs():
        for c in walk_no_nested(f.node):
            if isinstance(c, ast.Call) and isinstance(c.func, ast.Attribute) and c.func.attr in ("start", "end", "span"):
                n += 1
                ok = not (c.args or c.keywords)
                ctx.instance("R09o", f"{f.file}:{f.ident}", norm(c, 40), ok=ok, nontrivial=True, line=c.lineno)
                if not ok:
                    ctx.report("R09o", f, c, norm(c, 40),
                               f"{f.ident} takes the position of a group (`{norm(c, 40)}`): for a pattern with a group that does not span the whole match the mark is placed "
                               f"inside the matched text — it no longer covers / follows exactly what the expression matched")
    if n < 5:
        raise AnalysisError(f"R09o: only {n} start()/end()/span() call(s) found in the package")
