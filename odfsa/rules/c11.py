"""C11 — saving is neutral: pretty/packaging change layout only; save never edits memory.

R11a  Document.save writes nothing into the in-memory XML but the generator stamp (EFF, all flag values)
R11b  pretty_indent is only applied to fresh trees
R11c  pretty_indent writes no white space into character content
R11d  TEXT_CONTENT covers the package's own text carriers
R11e  TEXT_CONTENT keeps the schema's text-bearing elements
R11f  the three packagings serialise the same parts; pretty defaults by packaging
"""

from __future__ import annotations

import ast

from ..core import UNKNOWN, AnalysisError, FuncInfo, call_name, get_arg, is_self_attr, norm, walk_no_nested
from ..eff import Eff
from ..paths import cfg_of, node_of, structural_guards
from ..registry import build_registry

EXPLANATION = (
    "R11a: interprocedural XML-mutation effect analysis (EFF) of Document.save under every combination of its "
    "pretty/packaging flag constants; the only mutating call chain allowed starts at meta.set_generator_default(). "
    "R11b: every non-recursive call site of pretty_indent must pass a tree that is fresh in that function "
    "(deepcopy / fromstring / built locally). R11c: control-dependence analysis inside pretty_indent — every write "
    "to elem.tail must be unreachable when the parent is textual and every write to elem.text when the element is "
    "textual (binary-data arm is the frozen exception). R11d/R11e: table comparisons of TEXT_CONTENT with the "
    "registry's ParagraphBase classes and with a frozen table of ODF 1.2 elements whose content model has character "
    "data. That indentation is the *only* difference of the output is value-level and not decided."
)
ASSUMPTIONS = [
    "ODF consumers ignore white space only between elements of element-only content",
    "frozen ODF 1.2 list of text-bearing elements (TEXT_BEARING below)",
]

# ODF 1.2 elements whose content model holds character data (mixed or simple content) among those odfdo pretty-prints.
TEXT_BEARING = {
    # paragraphs and inline text
    "text:p", "text:h", "text:span", "text:a", "text:meta", "text:meta-field", "text:ruby-base", "text:ruby-text", "text:number",
    "text:index-entry-span", "text:index-title-template", "text:linenumbering-separator", "text:note-citation",
    "text:note-continuation-notice-forward", "text:note-continuation-notice-backward",
    # fields
    "text:date", "text:time", "text:page-number", "text:page-continuation", "text:sender-firstname", "text:sender-lastname",
    "text:sender-initials", "text:sender-title", "text:sender-position", "text:sender-email", "text:sender-phone-private", "text:sender-fax",
    "text:sender-company", "text:sender-phone-work", "text:sender-street", "text:sender-city", "text:sender-postal-code", "text:sender-country",
    "text:sender-state-or-province", "text:author-name", "text:author-initials", "text:chapter", "text:file-name", "text:template-name",
    "text:sheet-name", "text:variable-set", "text:variable-get", "text:variable-input", "text:user-field-get", "text:user-field-input",
    "text:sequence", "text:expression", "text:text-input", "text:initial-creator", "text:creation-date", "text:creation-time", "text:description", "text:drop-down",
    "text:user-defined", "text:print-time", "text:print-date", "text:printed-by", "text:title", "text:subject", "text:keywords",
    "text:editing-cycles", "text:editing-duration", "text:modification-time", "text:modification-date", "text:creator", "text:page-count",
    "text:paragraph-count", "text:word-count", "text:character-count", "text:table-count", "text:image-count", "text:object-count",
    "text:database-display", "text:database-row-number", "text:database-name", "text:page-variable-set", "text:page-variable-get",
    "text:placeholder", "text:conditional-text", "text:hidden-text", "text:hidden-paragraph", "text:reference-ref", "text:bookmark-ref",
    "text:note-ref", "text:sequence-ref", "text:script", "text:execute-macro", "text:dde-connection", "text:measure", "text:table-formula",
    "text:bibliography-mark",
    # metadata
    "dc:creator", "dc:date", "dc:description", "dc:language", "dc:subject", "dc:title", "meta:creation-date", "meta:date-string",
    "meta:editing-cycles", "meta:editing-duration", "meta:generator", "meta:initial-creator", "meta:keyword", "meta:print-date",
    "meta:printed-by", "meta:user-defined",
    # others
    "svg:title", "svg:desc", "table:title", "table:desc", "number:text", "number:embedded-text", "number:currency-symbol",
    "config:config-item", "office:script", "form:item", "form:option", "presentation:date-time-decl", "presentation:footer-decl",
    "presentation:header-decl", "db:data-source-setting-value", "db:table-filter-pattern", "db:table-type",
}


def r11a(ctx):
    repo = ctx.repo
    ctx.rule("R11a", "Document.save changes nothing in memory but the generator stamp, under every flag combination", floor=6)
    eff = Eff(repo, lambda g: g.name in ("set_generator_default",))
    save = repo.func("Document.save")
    combos = [{"pretty": p} for p in (None, True, False)]
    eff.solve([(save, c) for c in combos])
    allowed_start = "set_generator_default"
    for c in combos:
        s = eff.summary(save, c)
        bad = []
        for (atom, skey), (site, chain) in s.muts.items():
            if atom != "S":
                continue
            labels = [lab for _, _, lab in chain]
            if labels and allowed_start in labels[0]:
                continue
            # container part table writes are the point of saving (serialised bytes), not an XML edit
            if "container part" in site.what:
                continue
            bad.append((site, chain))
        ctx.instance("R11a", f"{save.file}:{save.ident}", f"pretty={c['pretty']}: {len(s.muts)} reachable write(s), {len(bad)} outside the generator stamp",
                     ok=not bad, nontrivial=True, line=save.node.lineno)
        seen = set()
        for site, chain in bad:
            first = chain[0] if chain else (site.func, site.node, site.what)
            key = norm(first[1], 70)
            if key in seen:
                continue
            seen.add(key)
            ctx.report("R11a", first[0], first[1], f"save() reaches a write: {norm(first[1], 60)}",
                       f"Document.save(pretty={c['pretty']}) reaches a write into the in-memory XML ({site.func.ident}: {site.what}): saving "
                       f"edits the document, so a second save writes different content",
                       path=[f"{f.ident}:{getattr(n, 'lineno', 0)} {lab}" for f, n, lab in chain] + [f"{site.func.ident}:{getattr(site.node, 'lineno', 0)} {site.what}"])
    # the same for the container-level save and for XmlPart serialisers
    for q, cs in (("Container.save", [{"pretty": True}, {"pretty": False}]), ("XmlPart.serialize", [{"pretty": True}, {"pretty": False}]),
                  ("XmlPart.pretty_serialize", [{}]), ("Container._xml_content", [{"pretty": True}, {"pretty": False}])):
        f = repo.func(q)
        eff.solve([(f, c) for c in cs])
        for c in cs:
            s = eff.summary(f, c)
            bad = [(site, chain) for (atom, skey), (site, chain) in s.muts.items() if atom == "S" and "container part" not in site.what]
            if q == "Container._xml_content":
                # parts that are still bytes are parsed afresh; already parsed parts (lxml) must not be edited either
                pass
            ctx.instance("R11a", f"{f.file}:{f.ident}", f"{c or 'defaults'}: {len(bad)} write(s) into live XML", ok=not bad, nontrivial=True, line=f.node.lineno)
            for site, chain in bad[:3]:
                first = chain[0] if chain else (site.func, site.node, site.what)
                ctx.report("R11a", first[0], first[1], f"{q} reaches a write: {norm(first[1], 60)}",
                           f"{q}({c}) writes into the live XML ({site.func.ident}: {site.what})",
                           path=[f"{f2.ident}:{getattr(n, 'lineno', 0)} {lab}" for f2, n, lab in chain])
    ctx.extra["eff"] = {"summaries": len(eff.summaries), "steps": eff.rounds}


FRESH_CALLS = {"deepcopy", "fromstring", "copy"}


def r11b(ctx):
    repo = ctx.repo
    ctx.rule("R11b", "pretty_indent is applied to fresh trees only", floor=2)
    n = 0
    for f in repo.all_funcs():
        if f.name == "pretty_indent":
            continue
        for c in walk_no_nested(f.node):
            if not (isinstance(c, ast.Call) and call_name(c) == "pretty_indent" and c.args):
                continue
            n += 1
            a = c.args[0]
            fresh = False
            why = "argument is not built from deepcopy/fromstring in this function"
            if isinstance(a, ast.Call) and call_name(a) in FRESH_CALLS:
                fresh = True
            elif isinstance(a, ast.Name):
                defs = [x for x in walk_no_nested(f.node) if isinstance(x, ast.Assign) and any(isinstance(t, ast.Name) and t.id == a.id for t in x.targets)]
                fresh = bool(defs) and all(_fresh_expr(d.value, f) for d in defs)
            ctx.instance("R11b", f"{f.file}:{f.ident}", f"pretty_indent({norm(a, 30)}) on a fresh tree", ok=fresh, nontrivial=True, line=c.lineno)
            if not fresh:
                ctx.report("R11b", f, c, c, f"pretty_indent writes text/tail white space in place and is called on a tree that is not a private copy ({why})")
    if n < 2:
        raise AnalysisError("R11b: call sites of pretty_indent not found")


def _fresh_expr(e: ast.expr, f: FuncInfo, depth: int = 0) -> bool:
    if depth > 4:
        return False
    if isinstance(e, ast.Call) and call_name(e) in FRESH_CALLS:
        return True
    if isinstance(e, ast.Call) and isinstance(e.func, ast.Attribute) and e.func.attr in ("getroot", "getroottree") and isinstance(e.func.value, (ast.Name, ast.Call)):
        return _fresh_expr(e.func.value, f, depth + 1)
    if isinstance(e, ast.Name):
        defs = [x for x in walk_no_nested(f.node) if isinstance(x, ast.Assign) and any(isinstance(t, ast.Name) and t.id == e.id for t in x.targets)]
        return bool(defs) and all(_fresh_expr(d.value, f, depth + 1) for d in defs)
    return False


def r11c(ctx):
    repo = ctx.repo
    ctx.rule("R11c", "pretty_indent writes no white space inside character content", floor=4)
    f = repo.func("container:pretty_indent")
    params = f.params
    if "textual_parent" not in params:
        raise AnalysisError("R11c: pretty_indent no longer has a textual_parent parameter")
    # the dispatch: if tag in TEXT_CONTENT: … elif tag == "office:binary-data": … else: …
    arms = None
    for n in walk_no_nested(f.node):
        if isinstance(n, ast.If) and "TEXT_CONTENT" in ast.unparse(n.test):
            arms = n
    if arms is None:
        raise AnalysisError("R11c: TEXT_CONTENT dispatch not found in pretty_indent")
    writes = [n for n in walk_no_nested(f.node) if isinstance(n, (ast.Assign, ast.AugAssign)) and any(
        isinstance(t, ast.Attribute) and t.attr in ("text", "tail") and isinstance(t.value, ast.Name) and t.value.id == params[0]
        for t in (n.targets if isinstance(n, ast.Assign) else [n.target]))]
    if len(writes) < 4:
        raise AnalysisError("R11c: text/tail writes not found in pretty_indent")
    for w in writes:
        t = (w.targets[0] if isinstance(w, ast.Assign) else w.target)
        gs = structural_guards(w, stop=f.node)
        in_textual_arm = any(g is arms.test and pol for g, pol in gs)
        in_binary = any("office:binary-data" in ast.unparse(g) and pol for g, pol in gs)
        not_textual_parent = any(ast.unparse(g).replace(" ", "") in ("nottextual_parent",) and pol for g, pol in gs) or \
            any(ast.unparse(g) == "textual_parent" and not pol for g, pol in gs)
        if in_binary:
            ok, why = True, "binary-data arm (frozen exception: base64 ignores white space; parent draw:image is never textual)"
        elif t.attr == "tail":
            ok = not_textual_parent
            why = "tail written only when the parent is not textual" if ok else "tail of a child of a textual element is character content of that element"
        else:
            ok = not in_textual_arm
            why = "text of an element-only element" if ok else "text of a textual element is its character content"
        ctx.instance("R11c", f"{f.file}:{f.ident}", f"{norm(w, 50)}: {why}", ok=ok, nontrivial=True, line=w.lineno)
        if not ok:
            def role(g):
                # guards named by what they test, not by how the locals are spelled
                if g is arms.test:
                    return "textual"
                if isinstance(g, ast.Compare) and any(isinstance(x, ast.Constant) and x.value == "office:binary-data" for x in ast.walk(g)):
                    return "binary"
                return norm(g, 28)

            # only the guards the rule reasons about take part in the identity (an unrelated dominating test added later must not rename the finding)
            rel = [(g, pol) for g, pol in gs if g is arms.test or role(g) == "binary"
                   or any(isinstance(x, ast.Name) and x.id == "textual_parent" or isinstance(x, ast.Attribute) and x.attr in ("tail", "text") for x in ast.walk(g))]
            gtxt = " & ".join(("" if pol else "!") + role(g) for g, pol in rel)
            ctx.report("R11c", f, w, f"{norm(w, 40)} under {gtxt}",
                       f"pretty_indent writes indentation into character content: {why}; the readable text of the paragraph changes "
                       f"when the document is saved pretty")
    # the recursion hands `is_textual` down as textual_parent
    rec = [c for c in walk_no_nested(f.node) if isinstance(c, ast.Call) and call_name(c) == "pretty_indent"]
    passed = {c.args[3].id for c in rec if len(c.args) >= 4 and isinstance(c.args[3], ast.Name)}
    tv = next(iter(passed)) if len(passed) == 1 else None  # the local that says "this element is textual"
    ok = bool(rec) and tv is not None and all(len(c.args) >= 4 and isinstance(c.args[3], ast.Name) and c.args[3].id == tv for c in rec)
    ctx.instance("R11c", f"{f.file}:{f.ident}", "children are indented with textual_parent = is_textual of this element", ok=ok, nontrivial=True)
    if not ok:
        ctx.report("R11c", f, f.node, "recursion does not pass is_textual", "children are not told that their parent is textual")
    ok = any(isinstance(n, ast.Assign) and isinstance(n.targets[0], ast.Name) and n.targets[0].id == tv and isinstance(n.value, ast.Constant)
             and n.value.value is True and any(g is arms.test and pol for g, pol in structural_guards(n, stop=f.node)) for n in walk_no_nested(f.node))
    ctx.instance("R11c", f"{f.file}:{f.ident}", "elements of TEXT_CONTENT are marked textual", ok=ok)
    if not ok:
        ctx.report("R11c", f, f.node, "is_textual not set in the TEXT_CONTENT arm", "textual elements are not marked textual for their children")


def r11de(ctx):
    repo = ctx.repo
    ctx.rule("R11d", "TEXT_CONTENT contains the tag of every registered paragraph-like class", floor=3)
    ctx.rule("R11e", "TEXT_CONTENT keeps every text-bearing element of the ODF schema table", floor=100)
    m = repo.module("container")
    tc = repo.fold(m.assigns.get("TEXT_CONTENT"), m)
    if not isinstance(tc, (set, frozenset)) or len(tc) < 80:
        raise AnalysisError("TEXT_CONTENT not foldable")
    reg = build_registry(repo)
    pb = repo.cls("ParagraphBase")
    carriers = {}
    for tag, c in reg.tag2cls.items():
        if tag.endswith("-odfdo-notodf"):
            continue
        if pb in c.mro or c.name in ("Span", "Link"):
            carriers[tag] = c.name
    for tag, cname in sorted(carriers.items()):
        ok = tag in tc
        ctx.instance("R11d", f"{m.relpath}:TEXT_CONTENT", f"{tag} ({cname}) is textual", ok=ok, nontrivial=True)
        if not ok:
            ctx.report("R11d", m, m.assigns["TEXT_CONTENT"], f"{tag} missing from TEXT_CONTENT", f"{cname} carries text but {tag} is not in TEXT_CONTENT: pretty saving indents inside it")
    for tag in sorted(TEXT_BEARING):
        ok = tag in tc
        ctx.instance("R11e", f"{m.relpath}:TEXT_CONTENT", f"{tag} is textual", ok=ok)
        if not ok:
            ctx.report("R11e", m, m.assigns["TEXT_CONTENT"], f"{tag} missing from TEXT_CONTENT",
                       f"{tag} holds character data in ODF 1.2 but is not in TEXT_CONTENT: pretty saving writes indentation into its text")


def r11f(ctx):
    repo = ctx.repo
    ctx.rule("R11f", "pretty defaults by packaging; every packaging serialises the same parsed parts", floor=3)
    f = repo.func("Document.save")
    src = ast.unparse(f.node)
    dfl = [n for n in walk_no_nested(f.node) if isinstance(n, ast.Assign) and isinstance(n.targets[0], ast.Name) and n.targets[0].id == "pretty"
           and isinstance(n.value, ast.Compare)]
    ok = bool(dfl) and repo.fold(dfl[0].value.comparators[0], f.module) == {"folder", "xml"}
    ctx.instance("R11f", f"{f.file}:{f.ident}", "pretty defaults to packaging in {folder, xml}", ok=ok)
    if not ok:
        ctx.report("R11f", f, f.node, "pretty default", "the default of pretty no longer depends on the packaging as documented")
    # both flush arms iterate the same cache and differ only in the serialiser
    loops = [n for n in walk_no_nested(f.node) if isinstance(n, ast.For) and "xmlparts" in ast.unparse(n.iter)]
    sers = sorted({call_name(c) for l in loops for c in ast.walk(l) if isinstance(c, ast.Call) and call_name(c) in ("serialize", "pretty_serialize")})
    ok = len(loops) == 2 and sers == ["pretty_serialize", "serialize"]
    ctx.instance("R11f", f"{f.file}:{f.ident}", f"two flush loops over the parsed parts using {sers}", ok=ok, nontrivial=True)
    if not ok:
        ctx.report("R11f", f, f.node, f"flush loops {len(loops)} / serialisers {sers}", "plain and pretty saving do not flush the same set of parsed parts")
    g = repo.func("XmlPart.pretty_serialize")
    h = repo.func("XmlPart.serialize")
    hdr = lambda fn: {n.value for n in walk_no_nested(fn.node) if isinstance(n, ast.Constant) and isinstance(n.value, bytes)}  # noqa: E731
    ok = hdr(g) == hdr(h) and len(hdr(g)) == 1
    ctx.instance("R11f", f"{g.file}:XmlPart", "plain and pretty serialisers emit the same XML header", ok=ok)
    if not ok:
        ctx.report("R11f", g, g.node, "XML headers differ", "pretty and plain serialisation do not start with the same XML declaration")
    x = repo.func("Container._xml_content")
    parts = None
    for n in walk_no_nested(x.node):
        if isinstance(n, ast.For) and isinstance(n.iter, ast.Tuple):
            parts = [ast.unparse(e) for e in n.iter.elts]
    ok = parts is not None and set(parts) == {"ODF_META", "ODF_SETTINGS", "ODF_STYLES", "ODF_CONTENT"}
    ctx.instance("R11f", f"{x.file}:{x.ident}", f"flat XML includes {parts}", ok=ok)
    if not ok:
        ctx.report("R11f", x, x.node, f"flat XML parts {parts}", "the flat XML export does not include meta, settings, styles and content")


def r11g(ctx):
    """Derived (indented) bytes never become the only in-memory source of a part.

    A pretty save stores indented bytes in the container's part table.  That is harmless as
    long as the document keeps the parsed tree the bytes were derived from in its cache of
    parsed parts: later reads and saves are served from the tree.  If the tree is not
    cached, the next access parses the indented bytes, and the document in memory has
    changed by saving.  Rule: in Document.save, the receiver X of every
    `container.set_part(p, X.pretty_serialize())` is an entry of the parsed-part cache — the
    value of a loop over its items, or a value stored into the cache under the same key
    before (or in the same statement as) the call.
    """
    repo = ctx.repo
    ctx.rule("R11g", "indented bytes are stored in the container only for parts whose parsed tree stays in the document's cache", floor=2)
    f = repo.func("Document.save")
    cfg = cfg_of(f)

    def is_cache(e):
        return isinstance(e, ast.Attribute) and e.attr.endswith("__xmlparts") and isinstance(e.value, ast.Name) and e.value.id == "self"

    sets = [c for c in walk_no_nested(f.node) if isinstance(c, ast.Call) and call_name(c) == "set_part" and len(c.args) == 2
            and any(isinstance(x, ast.Call) and call_name(x) == "pretty_serialize" for x in ast.walk(c.args[1]))]
    if not sets:
        raise AnalysisError("R11g: Document.save no longer stores pretty-serialised parts into the container")
    for c in sets:
        ser = [x for x in ast.walk(c.args[1]) if isinstance(x, ast.Call) and call_name(x) == "pretty_serialize"][0]
        recv = ser.func.value if isinstance(ser.func, ast.Attribute) else None
        key = ast.unparse(c.args[0])
        ok, how = False, "receiver not recognised"
        if isinstance(recv, ast.Name):
            cn = node_of(cfg, c)
            # (a) value of a loop over the cache's items
            for lp in [n for n in walk_no_nested(f.node) if isinstance(n, ast.For) and c in list(ast.walk(n))]:
                it = lp.iter
                if isinstance(it, ast.Call) and isinstance(it.func, ast.Attribute) and it.func.attr in ("items", "values") and is_cache(it.func.value) \
                        and any(isinstance(t, ast.Name) and t.id == recv.id for t in ast.walk(lp.target)):
                    ok, how = True, "value of the loop over the parsed-part cache"
            # (b) stored into the cache under the same key on every path to the call
            if not ok:
                stores = [a for a in walk_no_nested(f.node) if isinstance(a, ast.Assign) and any(
                    isinstance(t, ast.Subscript) and is_cache(t.value) and ast.unparse(t.slice) == key for t in a.targets) and (
                    any(isinstance(t, ast.Name) and t.id == recv.id for t in a.targets) or (isinstance(a.value, ast.Name) and a.value.id == recv.id))]
                dom = [a for a in stores if cfg.dominates(node_of(cfg, a), cn)]
                if dom:
                    ok, how = True, f"stored into the cache first: {norm(dom[0], 50)}"
                else:
                    how = f"`{recv.id}` is parsed for this save only and not kept in the cache of parsed parts"
        elif isinstance(recv, ast.Subscript) and is_cache(recv.value):
            ok, how = True, "read from the parsed-part cache"
        ctx.instance("R11g", f"{f.file}:{f.ident}", f"{norm(c, 60)}: {how}", ok=ok, nontrivial=True, line=c.lineno)
        if not ok:
            ctx.report("R11g", f, c, f"{norm(c, 60)}: {how}",
                       "Document.save replaces a part's bytes in the container by their indented form while the parsed tree they came from is dropped: the next access "
                       "parses the indented bytes, so the document in memory is no longer the one that was saved (and the next save writes yet another content)")


PARSE_CALLS = {"fromstring", "parse", "XML", "iterparse", "XMLParser", "ETCompatXMLParser", "HTMLParser", "XMLPullParser"}
LOSSY_PARSER_FLAGS = {"remove_blank_text", "remove_comments", "remove_pis", "strip_cdata", "recover"}

_FIXTURE_H = '''
def bad(self):
    parser = XMLParser(remove_blank_text=True)
    return fromstring(self.serialize(), parser)
def ok(self, part):
    return fromstring(part)
'''


def _lossy_parsers(fn: ast.AST) -> list[ast.Call]:
    out = []
    for c in ast.walk(fn):
        if isinstance(c, ast.Call) and call_name(c) in PARSE_CALLS:
            for k in c.keywords:
                if k.arg in LOSSY_PARSER_FLAGS and not (isinstance(k.value, ast.Constant) and k.value.value in (False, None)):
                    out.append(c)
    return out


def r11h(ctx):
    """Nothing in the package parses XML with a parser that drops content.

    In ODF character content white space is text: a white-space-only text node between two spans is the blank between two words.  A parser
    built with remove_blank_text (or remove_comments / remove_pis / strip_cdata / recover) silently changes what was read — a tree re-read
    that way for pretty printing, cloning or loading no longer is the document.  Rule (expected count 0, fixture on every run): no parse
    entry point of lxml is called with one of those flags set.
    """
    repo = ctx.repo
    ctx.rule("R11h", "no XML is (re-)parsed with a parser that drops blank text, comments, PIs or CDATA", floor=4)
    n = 0
    for f in repo.all_funcs():
        sites = [c for c in walk_no_nested(f.node) if isinstance(c, ast.Call) and call_name(c) in PARSE_CALLS and not isinstance(c.func, ast.Attribute)]
        if not sites:
            continue
        n += 1
        bad = _lossy_parsers(f.node)
        ctx.instance("R11h", f"{f.file}:{f.ident}", f"{len(sites)} parse call(s) with the default (content-preserving) parser", ok=not bad, nontrivial=bool(bad), line=f.node.lineno)
        for b in bad:
            ctx.report("R11h", f, b, norm(b, 60),
                       f"{f.ident} parses XML with `{norm(b, 50)}`: white-space-only text nodes (the blank between two inline elements), comments or CDATA are "
                       f"dropped, so the tree that is indented, saved or cloned is not the document")
    # module-level statements (a parser built once and shared)
    for m in repo.modules.values():
        top = [st for st in m.tree.body if not isinstance(st, (ast.FunctionDef, ast.AsyncFunctionDef, ast.ClassDef))]
        for st in top:
            for b in _lossy_parsers(st):
                n += 1
                ctx.instance("R11h", f"{m.relpath}:<module>", f"{norm(b, 50)} at module level", ok=False, nontrivial=True, line=b.lineno)
                ctx.report("R11h", m, b, norm(b, 60),
                           f"{m.relpath} builds a parser with `{norm(b, 50)}` at module level: everything parsed through it loses white-space-only text nodes "
                           f"(the blank between two inline elements), comments or CDATA")
    if n == 0:
        raise AnalysisError("R11h: no parse call found in the package")
    got = {fn.name: len(_lossy_parsers(fn)) for fn in ast.parse(_FIXTURE_H).body}
    if got != {"bad": 1, "ok": 0}:
        raise AnalysisError(f"R11h fixture: lossy-parser detector broken: {got}")


def r11i(ctx):
    """Every packaging serialises the same element structure: the flat-XML writer replaces each image by its own new node.

    `Container._xml_content` swaps every `draw:image` for an inlined (base64) copy with `parent.replace(old, new)`.  An lxml node has one
    parent: handing the same `new` node to a second replace() moves it out of the first frame, which is left empty — the flat XML then
    lacks a picture the zip has.  Rule: the node given to each replace()/append()/insert() inside the image loop is created in that same
    iteration (a call result, or a local assigned from a call on every path from the loop head), not fetched from a cache that outlives it.
    """
    from ..paths import enclosing_loops
    repo = ctx.repo
    ctx.rule("R11i", "the flat-XML writer gives every replaced image a node created in the same iteration", floor=1)
    f = repo.func("Container._xml_content")
    cfg = cfg_of(f)
    reps = [c for c in walk_no_nested(f.node) if isinstance(c, ast.Call) and call_name(c) == "replace" and len(c.args) == 2 and enclosing_loops(c)]
    # the encoded copy takes the place of the image: a remove() followed by append()/insert() puts it somewhere else among the children of its frame
    # (after svg:title / svg:desc), so the flat XML orders the frame's children differently from every other packaging
    enc_calls = [c for c in walk_no_nested(f.node) if isinstance(c, ast.Call) and call_name(c) == "_encoded_image" and enclosing_loops(c)]
    enc_loops = []
    for c in enc_calls:
        if enclosing_loops(c)[0] not in enc_loops:
            enc_loops.append(enclosing_loops(c)[0])  # the innermost loop: one iteration per image
    for lp in enc_loops:
        moved = [c for c in ast.walk(lp) if isinstance(c, ast.Call) and call_name(c) in ("remove", "append", "insert", "addnext", "addprevious", "extend")]
        ctx.instance("R11i", f"{f.file}:{f.ident}", "the encoded image is put in the place of the image (replace), not moved", ok=not moved, nontrivial=True, line=lp.lineno)
        for c in moved[:1]:
            ctx.report("R11i", f, c, norm(c, 60),
                       f"the flat-XML writer takes the image out and re-attaches its encoded copy with `{call_name(c)}()` instead of replacing it in place: among the children of a "
                       f"frame that also holds svg:title / svg:desc the image changes position, so the flat XML differs from the zip and folder saves in element order")
    if not reps:
        if enc_loops and any(True for lp in enc_loops for c in ast.walk(lp) if isinstance(c, ast.Call) and call_name(c) in ("remove", "append", "insert")):
            return
        raise AnalysisError("R11i: no replace() inside a loop in Container._xml_content")
    for c in reps:
        lp = enclosing_loops(c)[0]
        new_node = c.args[1]
        ok = False
        if isinstance(new_node, ast.Call):
            ok = True
        elif isinstance(new_node, ast.Name):
            defs = [node_of(cfg, a) for a in ast.walk(lp) if isinstance(a, ast.Assign) and isinstance(a.targets[0], ast.Name) and a.targets[0].id == new_node.id
                    and isinstance(a.value, ast.Call) and not (isinstance(a.value.func, ast.Attribute) and a.value.func.attr in ("get", "pop", "setdefault"))]
            first = node_of(cfg, lp.body[0])
            ok = bool(defs) and cfg.path_avoiding(first, node_of(cfg, c), defs, follow_exc=False) is None
        ctx.instance("R11i", f"{f.file}:{f.ident}", f"{norm(c, 50)}: replacement " + ("created in this iteration" if ok else "may be a node created for another image"),
                     ok=ok, nontrivial=True, line=c.lineno)
        if not ok:
            ctx.report("R11i", f, c, norm(c, 60),
                       "the flat-XML writer can hand one and the same new node to several replace() calls: lxml moves the node, so every frame but the last loses its image "
                       "and the flat XML no longer has the element structure the zip and folder packagings have")


def r11k(ctx):
    """A parsed part stays the part.

    Once an XmlPart has parsed its bytes, the tree is the document: edits go into it, and a pretty save derives indented bytes *from* it
    and stores them in the container (R11g).  If the part ever drops its tree and parses the container's bytes again, it parses those
    indented bytes — the document in memory has been changed by saving, and a plain save after a pretty one differs from a plain save
    alone.  Rule: in XmlPart the tree attribute is assigned a parse result only under `<tree> is None`, and is never reset to None
    outside the constructor.
    """
    repo = ctx.repo
    ctx.rule("R11k", "XmlPart parses its bytes once: the tree is (re)assigned only while it is None, never discarded", floor=1)
    c = repo.cls("XmlPart")
    n = 0
    for name, fs in sorted(c.methods.items()):
        f = fs[0]
        for a in walk_no_nested(f.node):
            if not (isinstance(a, ast.Assign) and any(isinstance(t, ast.Attribute) and t.attr.endswith("__tree") and isinstance(t.value, ast.Name) and t.value.id == "self" for t in a.targets)):
                continue
            if name == "__init__" or name == "clone" or f.kind == "getter" and name == "clone":
                continue
            n += 1
            is_none = isinstance(a.value, ast.Constant) and a.value.value is None
            guarded = any(pol and isinstance(t, ast.Compare) and isinstance(t.ops[0], ast.Is) and isinstance(t.left, ast.Attribute) and t.left.attr.endswith("__tree")
                          and isinstance(t.comparators[0], ast.Constant) and t.comparators[0].value is None for t, pol in structural_guards(a, stop=f.node))
            ok = guarded and not is_none
            ctx.instance("R11k", f"{f.file}:{f.ident}", f"`{norm(a, 40)}` " + ("fills an empty slot" if ok else "discards or overwrites a parsed tree"), ok=ok, nontrivial=True, line=a.lineno)
            if not ok:
                ctx.report("R11k", f, a, norm(a, 60),
                           f"{f.ident} " + ("resets the parsed tree" if is_none else "re-parses over a tree that may exist") + f" (`{norm(a, 40)}`): the next access parses whatever bytes the "
                           f"container holds — after an indented save those are the indented bytes, so saving has changed the document in memory and later saves write other content")
    if n == 0:
        raise AnalysisError("R11k: XmlPart no longer assigns its tree lazily")


def r11j(ctx):
    """The indenter meets every kind of node.

    pretty_indent recurses over `elem[:-1]` / `elem[-1]`: lxml hands out comments and processing instructions there too, and their `.tag`
    is a function, not a string.  A part of a document written by another tool may hold them (R11h makes sure the parser keeps them).
    An indented save — folder, flat XML, pretty zip — must not fail on them, or the document cannot be saved neutrally at all.  Rule: in
    every function of container.py that applies a str method to `<node>.tag`, a test `isinstance(<node>.tag, str)` that leaves the function
    (or skips the node) dominates the use.
    """
    from ..paths import cfg_of, node_of
    repo = ctx.repo
    ctx.rule("R11j", "a str method on an lxml node's tag is preceded by a test that the tag is a string (comments and PIs have a callable tag)", floor=1)
    n = 0
    for f in repo.module("container").all_funcs:
        uses = [x for x in walk_no_nested(f.node) if isinstance(x, ast.Call) and isinstance(x.func, ast.Attribute) and isinstance(x.func.value, ast.Attribute)
                and x.func.value.attr == "tag" and x.func.attr in ("rpartition", "partition", "split", "rsplit", "startswith", "endswith", "replace")]
        if not uses:
            continue
        cfg = cfg_of(f)
        for u in uses:
            n += 1
            node_txt = norm(u.func.value.value)
            tests = [t for t in walk_no_nested(f.node) if isinstance(t, ast.If) and any(
                isinstance(c, ast.Call) and call_name(c) == "isinstance" and len(c.args) == 2 and norm(c.args[0]) == f"{node_txt}.tag" and "str" in norm(c.args[1]) for c in ast.walk(t.test))]
            ok = any(cfg.dominates(node_of(cfg, t), node_of(cfg, u)) and any(isinstance(b, (ast.Return, ast.Continue, ast.Raise)) for b in ast.walk(t)) for t in tests)
            ctx.instance("R11j", f"{f.file}:{f.ident}", f"`{norm(u, 40)}` after a test of the tag's type", ok=ok, nontrivial=True, line=u.lineno)
            if not ok:
                ctx.report("R11j", f, u, norm(u, 60),
                           f"{f.ident} applies `.{u.func.attr}()` to `{node_txt}.tag` without having tested that it is a string: for a comment or processing instruction the tag is a "
                           f"function and every indented save of a part that holds one raises AttributeError")
    if n == 0:
        raise AnalysisError("R11j: the indenter no longer derives the tag name from `.tag`")


def r11l(ctx):
    """A flat XML save takes every child of every part.

    `_xml_content` builds the single-file form by moving the top-level children of meta, settings, styles and content under one root.
    Every child is content: styles.xml and content.xml each have their own `office:font-face-decls` and `office:automatic-styles`, and what
    one of them declares the other need not.  A filter in that loop ("the root already has one") drops declarations that only one part
    carries — the flat file then differs from what the other packagings write for the same document.  Rule: in `_xml_content`, the loop that
    appends the children of a part to the root appends each of them: the append is under no condition and the loop has no continue / break.
    """
    repo = ctx.repo
    ctx.rule("R11l", "the flat-XML writer moves every top-level child of every part under the root (no filter in the loop)", floor=1)
    f = repo.func("Container._xml_content")
    n = 0
    for lp in [x for x in walk_no_nested(f.node) if isinstance(x, ast.For) and isinstance(x.target, ast.Name)]:
        apps = [c for c in ast.walk(lp) if isinstance(c, ast.Call) and call_name(c) == "append" and c.args and isinstance(c.args[0], ast.Name) and c.args[0].id == lp.target.id]
        inner = [x for x in ast.walk(lp) if isinstance(x, ast.For) and x is not lp]
        apps = [c for c in apps if not any(c in list(ast.walk(i)) for i in inner)]
        if not apps:
            continue
        n += 1
        bad = None
        for c in apps:
            gs = structural_guards(c, stop=lp)
            if gs:
                bad = (c, gs[0][0])
        jumps = [j for j in ast.walk(lp) if isinstance(j, (ast.Continue, ast.Break)) and not any(j in list(ast.walk(i)) for i in inner)]
        if jumps and bad is None:
            gs = structural_guards(jumps[0], stop=lp)
            bad = (jumps[0], gs[0][0] if gs else jumps[0])
        ctx.instance("R11l", f"{f.file}:{f.ident}", f"loop over `{norm(lp.iter, 20)}`: every child appended", ok=bad is None, nontrivial=True, line=lp.lineno)
        if bad:
            ctx.report("R11l", f, bad[0], f"child filter {norm(bad[1], 40)}",
                       f"{f.ident} leaves children of a part out of the flat document on the condition `{norm(bad[1], 50)}`: what only that part declares (a font face, an automatic style) "
                       f"is missing from the file, while a zip or folder save of the same document writes it")
    if n < 1:
        raise AnalysisError("R11l: the child-moving loop of _xml_content was not found")


def run(ctx):
    r11a(ctx)
    r11b(ctx)
    r11c(ctx)
    r11de(ctx)
    r11f(ctx)
    r11g(ctx)
    r11h(ctx)
    r11i(ctx)
    r11j(ctx)
    r11k(ctx)
    r11l(ctx)
    # two saves write the same content only if saving never re-reads a part that is already in memory (rule shared with C03)
    from .c03 import r03a
    r03a(ctx)
    # serialised bytes remembered on the part are what the next save writes, whatever was edited since (memo rule shared with C14)
    from .c14 import r14i
    r14i(ctx)
    from .round12 import r11m
    r11m(ctx)


from ..selftest import Seed, unparse_seed  # noqa: E402

_CT = "src/odfdo/container.py"
_XP = "src/odfdo/xmlpart.py"
_DOC = "src/odfdo/document.py"
SEEDS = [
    Seed("pretty_indent remembers which local names are textual", "fault", "src/odfdo/container.py",
         "    tag = f\"{elem.prefix}:{elem.tag.rpartition('}')[2]}\"\n", "    tag = f\"{elem.prefix}:{elem.tag.rpartition('}')[2]}\"\n    _SEEN_TAGS.add(tag)\n", "R11m",
         edits=[("src/odfdo/container.py", "def pretty_indent(", "_SEEN_TAGS: set = set()\n\n\ndef pretty_indent(")]),
    Seed("the flat-XML writer keeps one office:font-face-decls", "fault", _CT,
         "            for child in xpart:\n                root.append(child)", "            for child in xpart:\n                if child.tag.endswith(\"font-face-decls\") and len(root) > 4:\n                    continue\n                root.append(child)", "R11l"),
    Seed("XmlPart drops its tree when the container holds other bytes", "fault", _XP,
         "        if self.__tree is None:\n            part = self.container.get_part(self.part_name)",
         "        if self.__tree is not None and self.__root is None and self.container.get_part(self.part_name) is not getattr(self, \"_src\", None):\n            self.__tree = None\n        if self.__tree is None:\n            part = self.container.get_part(self.part_name)\n            self._src = part", "R11k"),
    Seed("flat XML removes the image and appends the encoded copy", "fault", _CT,
         "                        elem.getparent().replace(elem, encoded)", "                        frame = elem.getparent()\n                        frame.remove(elem)\n                        if encoded is not None:\n                            frame.append(encoded)", "R11i"),
    Seed("the indenter no longer tests the kind of node", "fault", _CT,
         "    if not isinstance(elem.tag, str):\n        # comment or processing instruction: nothing to indent\n        return elem\n", "", "R11j"),
    Seed("flat XML caches the encoded image element per href", "fault", _CT,
         "                    for elem in images:\n                        encoded = self._encoded_image(elem)\n                        elem.getparent().replace(elem, encoded)",
         "                    done = {}\n                    for elem in images:\n                        href = elem.get('href')\n                        if href not in done:\n                            done[href] = self._encoded_image(elem)\n                        elem.getparent().replace(elem, done[href])", "R11i"),
    Seed("fragments parsed with a module-level blank-dropping parser", "fault", "src/odfdo/element.py",
         "        root = fromstring(NAMESPACES_XML % str_to_bytes(tag))\n        return root[0]", "        root = fromstring(NAMESPACES_XML % str_to_bytes(tag), _FRAGMENT_PARSER)\n        return root[0]", "R11h",
         edits=[("src/odfdo/element.py", '_re_anyspace = re.compile(r" +")\n', '_re_anyspace = re.compile(r" +")\nfrom lxml.etree import XMLParser\n_FRAGMENT_PARSER = XMLParser(remove_blank_text=True)\n')]),
    Seed("pretty tree re-parsed without blank text", "fault", _XP,
         "        tree = self._get_tree()\n        # indent a copy: the parsed part must stay as it is\n        root = deepcopy(tree.getroot())\n",
         "        from lxml.etree import XMLParser, fromstring\n        root = fromstring(self.serialize(), XMLParser(remove_blank_text=True))\n", "R11h"),
    Seed("pretty tree re-parsed with the default parser", "neutral", _XP,
         "        tree = self._get_tree()\n        # indent a copy: the parsed part must stay as it is\n        root = deepcopy(tree.getroot())\n",
         "        from lxml.etree import fromstring\n        root = fromstring(self.serialize())\n"),
    Seed("pretty save parses a part for this save only", "fault", _DOC,
         "                self.__xmlparts[path] = part = cls(path, container)\n                container.set_part(path, part.pretty_serialize())",
         "                part = cls(path, container)\n                container.set_part(path, part.pretty_serialize())", "R11g"),
    Seed("pretty save caches the part after the bytes were replaced only on one branch", "fault", _DOC,
         "                self.__xmlparts[path] = part = cls(path, container)\n                container.set_part(path, part.pretty_serialize())",
         "                part = cls(path, container)\n                if path == ODF_CONTENT:\n                    self.__xmlparts[path] = part\n                container.set_part(path, part.pretty_serialize())", "R11g"),
    Seed("pretty save caches the part in its own statement", "neutral", _DOC,
         "                self.__xmlparts[path] = part = cls(path, container)\n                container.set_part(path, part.pretty_serialize())",
         "                part = cls(path, container)\n                self.__xmlparts[path] = part\n                container.set_part(path, part.pretty_serialize())"),
    Seed("pretty save indents the live tree", "fault", _XP,
         "        root = deepcopy(tree.getroot())\n        return pretty_indent(root)", "        root = tree.getroot()\n        return pretty_indent(root)", "R11"),
    Seed("save strips the body before writing", "fault", _DOC,
         "        self._check_manifest_rdf()\n        if pretty and packaging != XML:", "        self._check_manifest_rdf()\n        for table in self.body.tables:\n            table.rstrip()\n        if pretty and packaging != XML:", "R11a"),
    Seed("save normalises paragraphs when pretty", "fault", _DOC,
         "            for path, part in self.__xmlparts.items():\n                if part is not None:\n                    container.set_part(path, part.pretty_serialize())",
         "            for path, part in self.__xmlparts.items():\n                if part is not None:\n                    part.root.tail = \"\\n\"\n                    container.set_part(path, part.pretty_serialize())", "R11a"),
    Seed("serialize(pretty=True) indents the parsed tree directly", "fault", _XP,
         "        if pretty:\n            return self.pretty_serialize()\n",
         "        if pretty:\n            live = self._get_tree().getroot()\n            return tostring(pretty_indent(live), encoding=\"unicode\").encode(\"utf8\")\n", "R11b"),
    Seed("textual arm indents its own text", "fault", _CT,
         "        is_textual = True\n        if not textual_parent:\n            elem.tail = \"\\n\" + ending_level * TAB\n    elif tag == \"office:binary-data\":",
         "        is_textual = True\n        if nb_child > 0:\n            elem.text = \"\\n\" + follow_level * TAB\n        if not textual_parent:\n            elem.tail = \"\\n\" + ending_level * TAB\n    elif tag == \"office:binary-data\":", "R11c"),
    Seed("textual arm writes its tail under a textual parent", "fault", _CT,
         "        is_textual = True\n        if not textual_parent:\n            elem.tail = \"\\n\" + ending_level * TAB\n    elif tag == \"office:binary-data\":",
         "        is_textual = True\n        elem.tail = \"\\n\" + ending_level * TAB\n    elif tag == \"office:binary-data\":", "R11c"),
    Seed("children not told their parent is textual", "fault", _CT,
         "            pretty_indent(sub_elem, follow_level, follow_level, is_textual)", "            pretty_indent(sub_elem, follow_level, follow_level, False)", "R11c"),
    Seed("text:span dropped from TEXT_CONTENT", "fault", _CT, '    "text:span",\n', "", "R11"),
    Seed("text:a dropped from TEXT_CONTENT", "fault", _CT, '    "text:a",\n', "", "R11"),
    Seed("meta:user-defined dropped from TEXT_CONTENT", "fault", _CT, '    "meta:user-defined",\n', "", "R11e"),
    Seed("pretty defaults to True for zip", "fault", _DOC, '            pretty = packaging in {"folder", "xml"}', '            pretty = packaging in {"folder", "xml", "zip"}', "R11f"),
    unparse_seed(_CT), unparse_seed(_XP), unparse_seed(_DOC),
    Seed("new textual element added to TEXT_CONTENT", "neutral", _CT, '    "text:span",\n', '    "text:span",\n    "text:soft-page-break-odfdo-extra",\n'),
]
