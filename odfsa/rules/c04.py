"""C04 — every saved file is a valid package whose manifest matches its content.

R04a  zip layout: mimetype written first and STORED, manifest last, no later writestr
R04b  container part write/delete <=> manifest entry pairing
R04c  Manifest.add_full_path appends only when the entry does not exist
R04d  template path: root media type follows the rewritten mimetype; manifest re-serialised
"""

from __future__ import annotations

import ast

from ..core import UNKNOWN, AnalysisError, FuncInfo, call_name, get_arg, norm, walk_no_nested
from ..paths import canon, calls, cfg_of, node_of, structural_guards
from .c03 import XML_PART_CONSTS

EXPLANATION = (
    "Path queries on the statement CFG of Container._save_zip (the writestr whose name folds to 'mimetype' and "
    "whose compression resolves to zipfile.ZIP_STORED dominates every other writestr; nothing is written after the "
    "manifest), pairing analysis of every container.set_part/del_part site in document.py with the manifest "
    "add/del call on the same path expression (or the manifest-driven idiom), control dependence of the append in "
    "Manifest.add_full_path on the entry's absence, and the template path's mimetype/root-entry update. "
    "Agreement of manifest and package for *opened* documents and media-type values are not decided."
)
ASSUMPTIONS = [
    "zipfile writes entries in call order with the compression given",
    "R03c (each part written once) provides 'no duplicate entry names'",
]


def r04a(ctx):
    repo = ctx.repo
    ctx.rule("R04a", "zip layout: 'mimetype' first and STORED; manifest written last", floor=4)
    f = repo.func("Container._save_zip")
    cfg = cfg_of(f)
    ws = calls(f, lambda c: call_name(c) == "writestr")
    if len(ws) < 3:
        raise AnalysisError("R04a: writestr sites not found")
    mime, manifest = [], []
    for w in ws:
        nm = repo.fold(w.args[0], f.module, f.cls) if w.args else UNKNOWN
        if nm == "mimetype":
            mime.append(w)
        if nm == "META-INF/manifest.xml":
            manifest.append(w)
    ok = len(mime) == 1
    ctx.instance("R04a", f"{f.file}:{f.ident}", "exactly one writestr('mimetype', …)", ok=ok)
    if not ok:
        ctx.report("R04a", f, f.node, f"{len(mime)} writestr('mimetype')", "the zip writer must write 'mimetype' exactly once")
        return
    m = mime[0]
    comp = get_arg(m, 2, "compress_type")
    stored = False
    if comp is not None:
        r = repo.resolve_name(comp.id, f.module) if isinstance(comp, ast.Name) else None
        stored = (isinstance(r, tuple) and r[0] == "ext" and r[1] == "zipfile.ZIP_STORED") or \
                 (isinstance(comp, ast.Attribute) and comp.attr == "ZIP_STORED") or repo.fold(comp, f.module) == 0
    ctx.instance("R04a", f"{f.file}:{f.ident}", f"mimetype compress_type = {ast.unparse(comp) if comp is not None else 'default'}", ok=stored, nontrivial=True, line=m.lineno)
    if not stored:
        ctx.report("R04a", f, m, m, "'mimetype' is not written with zipfile.ZIP_STORED: consumers that sniff the first bytes reject the package")
    mn = node_of(cfg, m)
    for w in ws:
        if w is m:
            continue
        ok = cfg.dominates(mn, node_of(cfg, w))
        ctx.instance("R04a", f"{f.file}:{f.ident}", f"writestr('mimetype') dominates writestr({ast.unparse(w.args[0])})", ok=ok, nontrivial=True, line=w.lineno)
        if not ok:
            ctx.report("R04a", f, w, f"writestr({ast.unparse(w.args[0])}, …) before mimetype",
                       "a zip entry can be written before 'mimetype': it would not be the first entry of the package")
    # the mimetype value comes from the part table, and its absence raises
    data = m.args[1] if len(m.args) > 1 else None
    ok = isinstance(data, ast.Name) and any(
        isinstance(a, ast.Assign) and isinstance(a.targets[0], ast.Name) and a.targets[0].id == data.id and "mimetype" in ast.unparse(a.value)
        for a in walk_no_nested(f.node))
    ctx.instance("R04a", f"{f.file}:{f.ident}", "mimetype entry content is the 'mimetype' part", ok=ok)
    if not ok:
        ctx.report("R04a", f, m, m, "content of the 'mimetype' entry is not the container's mimetype part")
    for w in manifest:
        wn = node_of(cfg, w)
        later = [x for x in ws if x is not w and node_of(cfg, x).id in cfg.reach_from(wn)]
        ctx.instance("R04a", f"{f.file}:{f.ident}", "no writestr after the manifest", ok=not later, nontrivial=True, line=w.lineno)
        for x in later:
            ctx.report("R04a", f, x, f"writestr({ast.unparse(x.args[0])}, …) after the manifest", "an entry is written after META-INF/manifest.xml")
    if not manifest:
        ctx.instance("R04a", f"{f.file}:{f.ident}", "manifest written", ok=False)
        ctx.report("R04a", f, f.node, "no writestr(ODF_MANIFEST)", "the zip writer no longer writes the manifest explicitly last")


def _is_container_recv(c: ast.Call, f: FuncInfo | None = None) -> bool:
    if not isinstance(c.func, ast.Attribute):
        return False
    return "container" in (canon(f, c.func.value) if f is not None else ast.unparse(c.func.value))


def _xml_part_path(repo, f: FuncInfo, e: ast.expr) -> bool:
    if isinstance(e, ast.Name) and e.id in XML_PART_CONSTS:
        return True
    v = repo.fold(e, f.module, f.cls)
    return v in ("content.xml", "meta.xml", "settings.xml", "styles.xml", "META-INF/manifest.xml")


def r04b(ctx):
    repo = ctx.repo
    ctx.rule("R04b", "every non-XML part written/deleted in the container is paired with its manifest entry", floor=5)
    m = repo.module("document")
    doc = repo.cls("Document")
    EXEMPT = {"Document.set_part": "raw pass-through API, not in the property's alphabet of operations"}
    for f in m.all_funcs:
        if f.kind == "nested":
            continue
        cfg = None
        for c in calls(f, lambda c: call_name(c) in ("set_part", "del_part") and c.args):
            recv_doc = isinstance(c.func, ast.Attribute) and isinstance(c.func.value, ast.Name) and c.func.value.id == "self" and f.cls is doc
            if not (_is_container_recv(c, f) or recv_doc):
                continue
            p = c.args[0]
            if f.ident in EXEMPT:
                ctx.note(f"R04b exempt: {f.ident}: {EXEMPT[f.ident]}")
                continue
            if _xml_part_path(repo, f, p):
                continue
            # loops over the parsed XML parts
            guards = structural_guards(c, stop=f.node)
            if any(isinstance(l, ast.For) and "xmlparts" in ast.unparse(l.iter) for l in _loops(c)):
                continue
            if any(isinstance(l, ast.For) and isinstance(l.iter, ast.Tuple) and all(_xml_part_path(repo, f, e) for e in l.iter.elts) for l in _loops(c)):
                continue
            cfg = cfg or cfg_of(f)
            ptxt = ast.unparse(p)
            want = "add_full_path" if call_name(c) == "set_part" else "del_full_path"
            partners = calls(f, lambda x: call_name(x) == want and x.args and ast.unparse(x.args[0]) == ptxt)
            cn = node_of(cfg, c)
            ok = False
            how = ""
            for pr in partners:
                pn = node_of(cfg, pr)
                if cfg.dominates(pn, cn) or cfg.path_avoiding(cn, cfg.exit, [pn], follow_exc=False) is None:
                    ok = True
                    how = f"paired with {want}({ptxt})"
            if not ok:
                # manifest-driven idiom: the write is guarded by the entry's presence, the delete by its absence
                for t, pol in guards:
                    if any(isinstance(x, ast.Call) and call_name(x) == "get_media_type" and x.args and ast.unparse(x.args[0]) == ptxt for x in ast.walk(t)):
                        if (call_name(c) == "set_part" and pol) or (call_name(c) == "del_part" and not pol):
                            ok = True
                            how = "manifest-driven (guarded by the manifest entry)"
            ctx.instance("R04b", f"{f.file}:{f.ident}", f"{call_name(c)}({ptxt}) {how or 'UNPAIRED'}", ok=ok, nontrivial=True, line=c.lineno)
            if not ok:
                verb = "written into" if call_name(c) == "set_part" else "deleted from"
                ctx.report("R04b", f, c, f"{call_name(c)}({ptxt}) without manifest.{want}({ptxt})",
                           f"part {ptxt} is {verb} the container but the manifest entry is not "
                           f"{'added' if want == 'add_full_path' else 'removed'} on every path: the saved manifest and package disagree")
    # reverse direction: a manifest entry is only added for a part that is written on every path to that point
    for f in m.all_funcs:
        if f.kind == "nested":
            continue
        adds = calls(f, lambda c: call_name(c) == "add_full_path" and c.args and "manifest" in ast.unparse(c.func.value).lower())
        if not adds:
            continue
        cfg = cfg_of(f)
        for a in adds:
            p = a.args[0]
            pv = repo.fold(p, f.module, f.cls)
            if isinstance(pv, str) and pv.endswith("/"):
                continue  # folder entries have no part
            ptxt = ast.unparse(p)
            writers = calls(f, lambda x: call_name(x) == "set_part" and x.args and ast.unparse(x.args[0]) == ptxt)
            an = node_of(cfg, a)
            ok = bool(writers) and cfg.path_avoiding(cfg.entry, an, [node_of(cfg, w) for w in writers], follow_exc=False) is None
            ctx.instance("R04b", f"{f.file}:{f.ident}", f"add_full_path({ptxt}) only after set_part({ptxt}) on every path", ok=ok, nontrivial=True, line=a.lineno)
            if not ok:
                ctx.report("R04b", f, a, f"add_full_path({ptxt}) without set_part({ptxt}) on some path",
                           f"the manifest entry for {ptxt} is added on a path where the part itself is not written into the container: "
                           f"the manifest can list a file that is absent from the package")
    # … and an entry is only removed for a part that is deleted on every path to that point
    for f in m.all_funcs:
        if f.kind == "nested" or f.name in ("_check_manifest_rdf",):
            continue
        dels = calls(f, lambda c: call_name(c) == "del_full_path" and c.args and "manifest" in canon(f, c.func.value).lower())
        if not dels:
            continue
        cfg = cfg_of(f)
        for a in dels:
            ptxt = ast.unparse(a.args[0])
            removers = calls(f, lambda x: call_name(x) == "del_part" and x.args and ast.unparse(x.args[0]) == ptxt)
            an = node_of(cfg, a)
            ok = bool(removers) and cfg.path_avoiding(cfg.entry, an, [node_of(cfg, w) for w in removers], follow_exc=False) is None
            ctx.instance("R04b", f"{f.file}:{f.ident}", f"del_full_path({ptxt}) only after del_part({ptxt}) on every path", ok=ok, nontrivial=True, line=a.lineno)
            if not ok:
                ctx.report("R04b", f, a, f"del_full_path({ptxt}) without del_part({ptxt}) on some path",
                           f"the manifest entry for {ptxt} is removed on a path where the part itself is not deleted from the container: the saved package "
                           f"holds a file the manifest does not list")
    # _check_manifest_rdf runs before the flush in Document.save
    f = repo.func("Document.save")
    cfg = cfg_of(f)
    chk = calls(f, lambda c: call_name(c) == "_check_manifest_rdf")
    sv = calls(f, lambda c: call_name(c) == "save" and _is_container_recv(c, f))
    flush = [n for n in walk_no_nested(f.node) if isinstance(n, ast.For) and "xmlparts" in ast.unparse(n.iter)]
    ok = bool(chk) and bool(sv) and all(cfg.dominates(node_of(cfg, chk[0]), node_of(cfg, x)) for x in flush + sv)
    ctx.instance("R04b", f"{f.file}:{f.ident}", "_check_manifest_rdf() dominates the flush loops and container.save", ok=ok, nontrivial=True)
    if not ok:
        ctx.report("R04b", f, f.node, "_check_manifest_rdf not before flush",
                   "manifest.rdf consistency is not enforced before the manifest part is serialised into the container")


def _loops(n):
    from ..paths import enclosing_loops
    return enclosing_loops(n)


def r04c(ctx):
    repo = ctx.repo
    ctx.rule("R04c", "Manifest.add_full_path appends a file-entry only when none exists for the path", floor=1)
    f = repo.func("Manifest.add_full_path")
    cfg = cfg_of(f)
    apps = calls(f, lambda c: call_name(c) == "append")
    if not apps:
        raise AnalysisError("R04c: append not found in Manifest.add_full_path")
    # the existence test: a test on a variable assigned from get_media_type(full_path) (or _file_entry)
    exist_vars = {a.targets[0].id for a in walk_no_nested(f.node) if isinstance(a, ast.Assign) and isinstance(a.targets[0], ast.Name)
                  and isinstance(a.value, ast.Call) and call_name(a.value) in ("get_media_type", "_file_entry")}
    tests = [n for n in cfg.nodes if n.kind == "test" and isinstance(n.stmt, ast.If) and (
        {x.id for x in ast.walk(n.stmt.test) if isinstance(x, ast.Name)} & exist_vars
        or any(isinstance(x, ast.Call) and call_name(x) == "get_media_type" for x in ast.walk(n.stmt.test)))]
    for a in apps:
        an = node_of(cfg, a)
        deps = cfg.control_deps(an)
        ok = any(t in tests for t, _ in deps)
        ctx.instance("R04c", f"{f.file}:{f.ident}", "append(file-entry) is control-dependent on the existence test", ok=ok, nontrivial=True, line=a.lineno)
        if not ok:
            ctx.report("R04c", f, a, a, "a new manifest:file-entry is appended even when an entry for the same full-path exists "
                       "(the update branch falls through): adding the same file twice lists it twice")


def r04d(ctx):
    repo = ctx.repo
    ctx.rule("R04d", "template path keeps mimetype part and manifest root entry in step", floor=3)
    f = repo.func("document:container_from_template")
    cfg = cfg_of(f)
    setm = [n for n in walk_no_nested(f.node) if isinstance(n, ast.Assign) and isinstance(n.targets[0], ast.Attribute) and n.targets[0].attr == "mimetype"]
    smt = calls(f, lambda c: call_name(c) == "set_media_type" and c.args and repo.fold(c.args[0], f.module) == "/")
    sp = calls(f, lambda c: call_name(c) == "set_part" and c.args and _xml_part_path(repo, f, c.args[0]))
    ok1 = bool(setm) and bool(smt) and ast.unparse(setm[0].value) == ast.unparse(smt[0].args[1])
    ctx.instance("R04d", f"{f.file}:{f.ident}", "root media type set to the same value as the new mimetype", ok=ok1, nontrivial=True)
    if not ok1:
        ctx.report("R04d", f, f.node, "mimetype / manifest root media-type", "the manifest root entry is not updated with the mimetype written into the container")
    ok2 = bool(sp) and bool(smt) and cfg.dominates(node_of(cfg, smt[0]), node_of(cfg, sp[0])) and "serialize" in ast.unparse(sp[0])
    ctx.instance("R04d", f"{f.file}:{f.ident}", "manifest re-serialised into the container after the update", ok=ok2, nontrivial=True)
    if not ok2:
        ctx.report("R04d", f, f.node, "manifest not written back", "the updated manifest is not serialised back into the container")
    ok3 = any(isinstance(n, ast.Attribute) and n.attr == "clone" for n in ast.walk(f.node))
    ctx.instance("R04d", f"{f.file}:{f.ident}", "template container is cloned, not shared", ok=ok3)
    if not ok3:
        ctx.report("R04d", f, f.node, "template container shared", "documents created from a template share the template container")
    # every other place of document.py that writes the mimetype part keeps the root entry of the manifest in step with the same value
    for g2 in repo.module("document").all_funcs:
        if g2 is f or g2.kind == "nested":
            continue
        sets = [n for n in walk_no_nested(g2.node) if isinstance(n, ast.Assign) and isinstance(n.targets[0], ast.Attribute) and n.targets[0].attr == "mimetype"]
        for st in sets:
            ups = [c for c in walk_no_nested(g2.node) if isinstance(c, ast.Call) and call_name(c) in ("set_media_type", "add_full_path") and len(c.args) >= 2
                   and repo.fold(c.args[0], g2.module) == "/" and ast.unparse(c.args[1]) == ast.unparse(st.value)]
            # … through the manifest part of the document itself (`self.manifest` parses it when nobody has yet), and on every path the store runs on:
            # an update that is only made when the manifest happens to be cached already leaves a fresh or just opened document with two types
            store_guards = {ast.unparse(t) + str(pol) for t, pol in structural_guards(st)}
            ups = [c for c in ups if isinstance(c.func, ast.Attribute) and canon(g2, c.func.value).replace(" ", "") == "self.manifest"
                   and all(ast.unparse(t) + str(pol) in store_guards for t, pol in structural_guards(c))]
            okm = bool(ups)
            ctx.instance("R04d", f"{g2.file}:{g2.ident}", f"`{norm(st, 40)}` is paired with the root entry of the manifest", ok=okm, nontrivial=True, line=st.lineno)
            if not okm:
                ctx.report("R04d", g2, st, norm(st, 60),
                           f"{g2.ident} writes the mimetype part without giving the manifest's root entry ('/') the same media type: the saved package declares two different types")
    # Container.mimetype setter stores bytes under the key read by _save_zip
    g = repo.func("Container.mimetype", "setter")
    keys = {repo.fold(n.targets[0].slice, g.module) for n in walk_no_nested(g.node) if isinstance(n, ast.Assign) and isinstance(n.targets[0], ast.Subscript)}
    ok4 = keys == {"mimetype"}
    ctx.instance("R04d", f"{g.file}:{g.ident}", f"mimetype setter stores under {sorted(map(str, keys))}", ok=ok4)
    if not ok4:
        ctx.report("R04d", g, g.node, f"keys {keys}", "the mimetype setter does not store the 'mimetype' part")


def r04e(ctx):
    """The manifest names a part by the path it is stored under.

    `add_file`, `set_part`, `del_part` and the merge of pictures key the part table with a path and hand the same path to the manifest.
    "Every file in it is listed" then needs the manifest functions to write and look up that very string: set through the attribute API
    (pasted into XML text, '&', '<', '"' break the parse after the part is already stored, and a tab becomes a blank), and never
    percent-encoded, escaped, normalised or trimmed on the way.
    """
    from .c14 import _lossy_call
    repo = ctx.repo
    ctx.rule("R04e", "Manifest: the path is written and looked up as given (attribute API, no encoding/escaping/trimming, not pasted into XML text)", floor=5)
    man = repo.cls("Manifest")
    n = 0
    for name in ("make_file_entry", "add_full_path", "del_full_path", "set_media_type", "get_media_type", "_file_entry"):
        f = man.lookup(name)
        if f is None:
            continue
        n += 1
        bad = []
        for x in walk_no_nested(f.node):
            if isinstance(x, ast.Call) and _lossy_call(x):
                bad.append((x, f"`{norm(x, 50)}` rewrites the path or media type"))
            if isinstance(x, ast.Call) and call_name(x) in ("from_tag", "fromstring", "XML") and x.args:
                a = x.args[0]
                if isinstance(a, ast.Name):
                    ds = [s_.value for s_ in walk_no_nested(f.node) if isinstance(s_, ast.Assign) and any(isinstance(t, ast.Name) and t.id == a.id for t in s_.targets)]
                    a = ds[0] if len(ds) == 1 else a
                pasted = [v for j in ast.walk(a) if isinstance(j, ast.JoinedStr) for v in j.values if isinstance(v, ast.FormattedValue)] + \
                         [b for b in ast.walk(a) if isinstance(b, ast.BinOp) and isinstance(b.op, (ast.Mod, ast.Add)) and not isinstance(b.right, ast.Constant)] + \
                         [c for c in ast.walk(a) if isinstance(c, ast.Call) and isinstance(c.func, ast.Attribute) and c.func.attr == "format"]
                if pasted:
                    bad.append((x, f"`{norm(x, 50)}` parses XML text with run-time strings pasted in"))
        if name == "make_file_entry":
            params = [a.arg for a in f.node.args.args if a.arg not in ("self", "cls")]
            sets = [c for c in walk_no_nested(f.node) if isinstance(c, ast.Call) and call_name(c) in ("set_attribute", "set") and len(c.args) == 2
                    and repo.fold(c.args[0], f.module) == "manifest:full-path"]
            if not bad and not (sets and all(isinstance(c.args[1], ast.Name) and c.args[1].id in params for c in sets)):
                bad.append((f.node, "manifest:full-path is not set from the path parameter through the attribute API"))
        ctx.instance("R04e", f"{f.file}:{f.ident}", "path used as given", ok=not bad, nontrivial=True, line=f.node.lineno)
        for x, why in bad[:2]:
            ctx.report("R04e", f, x, why.split("`")[1] if "`" in why else why,
                       f"{f.ident}: {why}; the container keys the part with the caller's path, so for a path the rewrite changes (or that breaks the XML text) the manifest "
                       f"lists a file the package does not hold and omits the one it does")
    if n < 5:
        raise AnalysisError("R04e: Manifest path functions not found")


_FIXTURE_F = '''
def bad_direct(self):
    if RDF not in self.container.parts:
        self.container.set_part(RDF, DEFAULT)
def bad_local(self):
    parts = self.container.get_parts()
    if RDF in parts:
        self.container.del_part(RDF)
def ok_iter(self):
    for path in self.parts:
        if path not in self.__parts:
            self.get_part(path)
def ok_ask(self):
    if self.container.get_part(RDF) is None:
        self.container.set_part(RDF, DEFAULT)
'''


def _member_list_tests(fn):
    """membership tests (`x in <…>.parts`, `x not in <…>.get_parts()`, or in a local bound to one of these) inside a function"""
    def is_listing(e):
        return isinstance(e, ast.Attribute) and e.attr == "parts" or isinstance(e, ast.Call) and call_name(e) == "get_parts"
    locs = {t.id for a in walk_no_nested(fn) if isinstance(a, ast.Assign) and is_listing(a.value) for t in a.targets if isinstance(t, ast.Name)}
    out = []
    for x in walk_no_nested(fn):
        if isinstance(x, ast.Compare) and len(x.ops) == 1 and isinstance(x.ops[0], (ast.In, ast.NotIn)):
            c = x.comparators[0]
            if is_listing(c) or isinstance(c, ast.Name) and c.id in locs:
                out.append(x)
    return out


def r04f(ctx):
    """Whether the package will hold a part is asked of the part table, not of the file on disk.

    `Container.parts` / `get_parts()` of a document opened from a path list the members of that file: parts added with set_part since are
    not in it, parts deleted since still are.  Iterating it to pre-load what has not been read yet is its purpose; deciding with it what to
    write or delete is not — Document.save took a manifest.rdf that had just been set for missing and replaced it.  Rule (expected count 0;
    fixture on every run): no membership test against the member list in Document or Container.
    """
    repo = ctx.repo
    ctx.rule("R04f", "no decision of Document/Container is taken by a membership test on the member list of the file (Container.parts / get_parts())", floor=50)
    tree = ast.parse(_FIXTURE_F)
    got = {fn.name: len(_member_list_tests(fn)) for fn in tree.body}
    if got != {"bad_direct": 1, "bad_local": 1, "ok_iter": 0, "ok_ask": 0}:
        raise AnalysisError(f"R04f fixture: member-list test detector broken: {got}")
    for cname in ("Document", "Container"):
        c = repo.cls(cname)
        for name, fs in sorted(c.methods.items()):
            for f in fs:
                bad = _member_list_tests(f.node)
                ctx.instance("R04f", f"{f.file}:{f.ident}", "no membership test on the member list", ok=not bad, nontrivial=bool(bad), line=f.node.lineno)
                for x in bad[:2]:
                    ctx.report("R04f", f, x, norm(x, 60),
                               f"{f.ident} decides with `{norm(x, 50)}`: for a document opened from a path the member list is the file's, so a part set in memory since is taken for "
                               f"missing (and overwritten or left out) and a part deleted since is taken for present — the saved package and its manifest then disagree with what the "
                               f"caller built")


def r04h(ctx):
    """One name per part: the one the package stores it under.

    Document.set_part / get_part strip a leading './' from the path ('./Pictures/x' and 'Pictures/x' are the same member).  A function
    that stores a part through them and files it in the manifest must hand the manifest that stored name — a raw href taken from a
    style (`./Pictures/x.png`) lists a file the package does not hold and leaves the one it holds unlisted.  Rule: where a method of
    Document calls both `self.set_part(K, …)` and `<manifest>.add_full_path(K2, …)` with names, K2 is K and every definition of K
    either applies the same normalisation (`.lstrip("./")`) or builds the name from a constant prefix.
    """
    repo = ctx.repo
    ctx.rule("R04h", "a part stored through Document.set_part is filed in the manifest under the normalised name it is stored by", floor=2)
    sp = repo.func("Document.set_part")
    norm_calls = [c for c in walk_no_nested(sp.node) if isinstance(c, ast.Call) and isinstance(c.func, ast.Attribute) and c.func.attr == "lstrip"]
    if not norm_calls:
        ctx.note("R04h: Document.set_part no longer normalises its path; nothing to agree with")
        ctx.rules["R04h"].floor = 0
        return
    for name, fs in sorted(repo.cls("Document").methods.items()):
        f = fs[0]
        sets = [c for c in walk_no_nested(f.node) if isinstance(c, ast.Call) and call_name(c) == "set_part" and isinstance(c.func, ast.Attribute)
                and isinstance(c.func.value, ast.Name) and c.func.value.id == "self" and c.args and isinstance(c.args[0], ast.Name)]
        files = [c for c in walk_no_nested(f.node) if isinstance(c, ast.Call) and call_name(c) == "add_full_path" and c.args and isinstance(c.args[0], ast.Name)]
        for fl in files:
            k2 = fl.args[0].id
            partner = [c for c in sets if c.args[0].id == k2]
            if not partner:
                continue
            defs = [a.value for a in walk_no_nested(f.node) if isinstance(a, ast.Assign) and any(isinstance(t, ast.Name) and t.id == k2 for t in a.targets)]
            # the definition that reaches this call: the nearest one above it in the same block chain (by line)
            above = [d for d in defs if d.lineno <= fl.lineno]
            d = max(above, key=lambda e: e.lineno) if above else None

            def normalised(e):
                if e is None:
                    return False
                if isinstance(e, ast.Call) and isinstance(e.func, ast.Attribute) and e.func.attr == "lstrip" and e.args and isinstance(e.args[0], ast.Constant) and e.args[0].value == "./":
                    return True
                if isinstance(e, ast.JoinedStr) and e.values and isinstance(e.values[0], ast.Constant) and not str(e.values[0].value).startswith("."):
                    return True
                if isinstance(e, ast.BinOp) and isinstance(e.op, ast.Add):
                    return isinstance(e.left, ast.Constant) and isinstance(e.left.value, str) and not e.left.value.startswith(".")
                return False

            ok = normalised(d)
            ctx.instance("R04h", f"{f.file}:{f.ident}", f"`{norm(fl, 40)}`: `{k2}` = {norm(d, 30) if d is not None else 'a parameter'}", ok=ok, nontrivial=True, line=fl.lineno)
            if not ok:
                ctx.report("R04h", f, fl, norm(fl, 60),
                           f"{f.ident} stores the part with self.set_part({k2}, …), which strips a leading './', and files it in the manifest under the raw `{k2}` "
                           f"(= {norm(d, 40) if d is not None else 'its parameter'}): for a reference written './Pictures/x.png' the manifest lists another name than the package holds")


def r04i(ctx):
    """A part that is filed has a media type.

    `add_file` files the new part with the media type of its Blob.  The manifest treats "no media-type attribute" as "no entry"
    (`get_media_type(path) is None` is the existence test of add_full_path), and set_attribute(name, None) writes no attribute: a Blob
    whose media type may be None is filed with an entry that is invisible to that test — adding the file again lists it twice, deleting it
    leaves one entry behind.  Rule: every store into `mime_type` in the Blob constructors is a str constant, a `str` parameter, a value
    stored under a test of its own truth, or `value or <constant>`.
    """
    repo = ctx.repo
    ctx.rule("R04i", "Blob constructors always set a media type (never a value that may be None)", floor=3)
    c = repo.cls("Blob")
    n = 0
    for name, fs in sorted(c.methods.items()):
        f = fs[0]
        params = {a.arg: a for a in f.all_params()}
        for a in walk_no_nested(f.node):
            tg = a.targets if isinstance(a, ast.Assign) else [a.target] if isinstance(a, ast.AnnAssign) and a.value is not None else []
            if not any(isinstance(t, ast.Attribute) and t.attr == "mime_type" for t in tg):
                continue
            n += 1
            v = a.value
            ok = isinstance(v, ast.Constant) and isinstance(v.value, str)
            if not ok and isinstance(v, ast.Name):
                if v.id in params and params[v.id].annotation is not None and ast.unparse(params[v.id].annotation) == "str":
                    ok = True
                elif any(pol and isinstance(t, ast.Name) and t.id == v.id for t, pol in structural_guards(a, stop=f.node)):
                    ok = True
            if not ok and isinstance(v, ast.BoolOp) and isinstance(v.op, ast.Or) and isinstance(v.values[-1], ast.Constant) and isinstance(v.values[-1].value, str) and v.values[-1].value:
                ok = True
            ctx.instance("R04i", f"{f.file}:{f.ident}", f"`{norm(a, 50)}` cannot store None", ok=ok, nontrivial=True, line=a.lineno)
            if not ok:
                ctx.report("R04i", f, a, norm(a, 60),
                           f"{f.ident} may store None as the media type (`{norm(v, 40)}`): the manifest entry is then written without manifest:media-type, which add_full_path reads as "
                           f"\"not listed\" — the same file added again is listed twice, and del_part leaves an entry for a file that is gone")
    if n < 3:
        raise AnalysisError("R04i: media-type stores of Blob not found")


def r04j(ctx):
    """The media type that is checked is the media type that is written.

    "The first zip entry is `mimetype`, its content is the type of the document, and the manifest root entry has the same type."  A container
    accepts the `mimetype` part it reads only if it is one of ODF_MIMETYPES, and then keeps the bytes as they are — they become the first
    zip entry of the next save.  If the test looks at a tidied copy (stripped, lower-cased) while the raw bytes are kept, a file whose
    `mimetype` ends with a newline is accepted and written back with the newline: no ODF type, not the manifest's type, and the saved file is
    refused on reopening.  Rule: wherever a value is tested for membership in ODF_MIMETYPES (or ODF_EXTENSIONS' values), no lossy string
    call lies between the value that is kept and the value that is tested — decoding bytes to str is the only conversion.
    """
    from .c14 import LOSSY
    repo = ctx.repo
    ctx.rule("R04j", "a media type is tested against ODF_MIMETYPES exactly as it is kept (decoding aside)", floor=2)
    n = 0
    for f in repo.all_funcs():
        for t in walk_no_nested(f.node):
            if not (isinstance(t, ast.Compare) and len(t.ops) == 1 and isinstance(t.ops[0], (ast.In, ast.NotIn))):
                continue
            rhs = t.comparators[0]
            if not (isinstance(rhs, ast.Name) and rhs.id == "ODF_MIMETYPES"):
                continue
            n += 1
            lossy = [c for c in ast.walk(t.left) if isinstance(c, ast.Call) and isinstance(c.func, ast.Attribute) and c.func.attr in LOSSY]
            # a local tested by name: its definitions must not be tidied copies of something else that is kept
            if isinstance(t.left, ast.Name):
                for a in walk_no_nested(f.node):
                    if isinstance(a, ast.Assign) and any(isinstance(x, ast.Name) and x.id == t.left.id for x in a.targets):
                        lossy += [c for c in ast.walk(a.value) if isinstance(c, ast.Call) and isinstance(c.func, ast.Attribute) and c.func.attr in LOSSY]
            ctx.instance("R04j", f"{f.file}:{f.ident}", f"{norm(t, 50)}: tested as kept", ok=not lossy, nontrivial=True, line=t.lineno)
            for c in lossy[:1]:
                ctx.report("R04j", f, t, f"{norm(t, 50)} via {c.func.attr}()",
                           f"{f.ident} tests `{norm(t.left, 40)}` against ODF_MIMETYPES after `.{c.func.attr}()`, but the value that is kept (and written as the `mimetype` entry of the next "
                           f"save) is the untidied one: a type with surrounding white space or other spelling passes the check and is saved as it is — not an ODF type, not the type of the "
                           f"manifest root entry")
    if n < 2:
        raise AnalysisError(f"R04j: only {n} membership test(s) against ODF_MIMETYPES found")


def run(ctx):
    r04a(ctx)
    r04b(ctx)
    r04c(ctx)
    r04d(ctx)
    # cloning must preserve the package/manifest agreement: a clone that resurrects deleted parts breaks it (shared rule of C10)
    from .c10 import r10d, r10f
    r10f(ctx)
    # a clone that shares the part table with its original makes either one save parts the other one's manifest does not list
    r10d(ctx)
    r04e(ctx)
    r04f(ctx)
    r04h(ctx)
    r04i(ctx)
    r04j(ctx)
    # the zip writer filters no part by its name: a sub-document's content.xml is a part like any other (rule shared with C03)
    from .c03 import r03c
    r03c(ctx)
    # the manifest entry of a part is found and removed by the exact path: a prefix or substring match unlists other parts that stay in the package (shared with C14)
    from .c14 import r14f
    r14f(ctx)
    # the manifest is one of the parsed XML parts: it reaches the package only if Document.save flushes every parsed part (rule shared with C03)
    from .c03 import r03b
    r03b(ctx)


from ..selftest import Seed, unparse_seed  # noqa: E402

_CT = "src/odfdo/container.py"
_DOC = "src/odfdo/document.py"
_MA = "src/odfdo/manifest.py"
_MAN = "src/odfdo/manifest.py"
SEEDS = [
    Seed("Document.mimetype setter updates the root entry only if the manifest is loaded", "fault", "src/odfdo/document.py",
         "        self.manifest.add_full_path(\"/\", mimetype)", "        if self.__xmlparts.get(ODF_MANIFEST) is not None:\n            self.manifest.add_full_path(\"/\", mimetype)", "R04d"),
    Seed("Document.mimetype setter names the manifest first", "neutral", "src/odfdo/document.py",
         "        self.manifest.add_full_path(\"/\", mimetype)", "        manifest = self.manifest\n        manifest.add_full_path(\"/\", mimetype)"),
    Seed("the folder reader tolerates white space around the mimetype it then keeps raw", "fault", _CT,
         "        if bytes_to_str(mimetype) not in ODF_MIMETYPES:", "        if bytes_to_str(mimetype).strip() not in ODF_MIMETYPES:", "R04j"),
    Seed("Blob.from_path looks unknown extensions up in a small table without default", "fault", _DOC,
         '            blob.mime_type = "application/octet-stream"\n        return blob\n\n    @classmethod\n    def from_io', '            blob.mime_type = {".emf": "image/x-emf"}.get(extension)\n        return blob\n\n    @classmethod\n    def from_io', "R04i"),
    Seed("merge_styles_from files the fill image under its raw href", "fault", _DOC,
         '                url = style.url.lstrip("./")  # type: ignore', '                url = style.url  # type: ignore', "R04h"),
    Seed("Document.mimetype setter forgets the manifest root entry", "fault", _DOC,
         '        self.container.mimetype = mimetype\n        # the root entry of the manifest carries the same media type\n        self.manifest.add_full_path("/", mimetype)\n', '        self.container.mimetype = mimetype\n', "R04d"),
    Seed("manifest.rdf check decides on the member list of the file again", "fault", _DOC,
         "        try:\n            has_rdf = self.container.get_part(ODF_MANIFEST_RDF) is not None\n        except (KeyError, ValueError, OSError):\n            has_rdf = False\n",
         "        has_rdf = ODF_MANIFEST_RDF in self.container.parts\n", "R04f"),
    Seed("make_file_entry pastes path and media type into XML text again", "fault", _MAN,
         '        entry = Element.from_tag("manifest:file-entry")\n        entry.set_attribute("manifest:media-type", media_type)\n        entry.set_attribute("manifest:full-path", full_path)\n        return entry',
         '        tag = (\n            f"<manifest:file-entry "\n            f\'manifest:media-type="{media_type}" \'\n            f\'manifest:full-path="{full_path}"/>\'\n        )\n        return Element.from_tag(tag)', "R04e"),
    Seed("make_file_entry percent-encodes the path", "fault", _MAN,
         '        entry.set_attribute("manifest:full-path", full_path)', '        entry.set_attribute("manifest:full-path", quote(full_path))', "R04e",
         edits=[(_MAN, "from __future__ import annotations\n", "from __future__ import annotations\n\nfrom urllib.parse import quote\n")]),
    Seed("del_full_path trims the path it looks up", "fault", _MAN, "    def del_full_path(self, full_path: str) -> None:\n", "    def del_full_path(self, full_path: str) -> None:\n        full_path = full_path.strip()\n", "R04e"),
    Seed("make_file_entry sets the path first", "neutral", _MAN,
         '        entry.set_attribute("manifest:media-type", media_type)\n        entry.set_attribute("manifest:full-path", full_path)',
         '        entry.set_attribute("manifest:full-path", full_path)\n        entry.set_attribute("manifest:media-type", media_type)'),
    Seed("del_part removes the bytes only when the container lists the part", "fault", _DOC,
         "        self.container.del_part(path)\n        with suppress(KeyError):\n            self.manifest.del_full_path(path)\n",
         "        if path in self.container.parts:\n            self.container.del_part(path)\n        with suppress(KeyError):\n            self.manifest.del_full_path(path)\n", "R04b"),
    Seed("mimetype deflated", "fault", _CT, 'filezip.writestr("mimetype", mimetype, ZIP_STORED)', 'filezip.writestr("mimetype", mimetype, ZIP_DEFLATED)', "R04a"),
    Seed("mimetype default compression", "fault", _CT, 'filezip.writestr("mimetype", mimetype, ZIP_STORED)', 'filezip.writestr("mimetype", mimetype)', "R04a"),
    Seed("manifest written first", "fault", _CT,
         '            mimetype = parts.get("mimetype")\n            if mimetype is None:',
         '            if parts.get(ODF_MANIFEST) is not None:\n                filezip.writestr(ODF_MANIFEST, parts[ODF_MANIFEST])\n            mimetype = parts.get("mimetype")\n            if mimetype is None:', "R04a"),
    Seed("_add_binary_part forgets the manifest entry", "fault", _DOC,
         "        self.container.set_part(path, blob.content)\n        manifest.add_full_path(path, blob.mime_type)\n",
         "        self.container.set_part(path, blob.content)\n", "R04b"),
    Seed("_add_binary_part registers only new content", "fault", _DOC,
         "        self.container.set_part(path, blob.content)\n        manifest.add_full_path(path, blob.mime_type)\n",
         "        self.container.set_part(path, blob.content)\n        if blob.mime_type != 'application/octet-stream':\n            manifest.add_full_path(path, blob.mime_type)\n", "R04b"),
    Seed("_add_binary_part stores the bytes only for unseen names", "fault", _DOC,
         "        self.container.set_part(path, blob.content)\n        manifest.add_full_path(path, blob.mime_type)\n",
         "        if path not in self.container.parts:\n            self.container.set_part(path, blob.content)\n        manifest.add_full_path(path, blob.mime_type)\n", "R04b"),
    Seed("merge_styles_from drops one add_full_path", "fault", _DOC,
         "                self.set_part(url, part_url)  # type: ignore\n                media_type = document_manifest.get_media_type(url)\n                manifest.add_full_path(url, media_type)  # type: ignore",
         "                self.set_part(url, part_url)  # type: ignore", "R04b"),
    Seed("del_part leaves the manifest entry", "fault", _DOC,
         "        self.container.del_part(path)\n        with suppress(KeyError):\n            self.manifest.del_full_path(path)\n", "        self.container.del_part(path)\n", "R04b"),
    Seed("manifest rdf check after flush", "fault", _DOC,
         "        self._check_manifest_rdf()\n        if pretty and packaging != XML:", "        if pretty and packaging != XML:", "R04b"),
    Seed("add_full_path falls through", "fault", _MA,
         "            self.set_media_type(full_path, media_type)\n            return\n", "            self.set_media_type(full_path, media_type)\n", "R04c"),
    Seed("template keeps template media type in manifest", "fault", _DOC, '    manifest.set_media_type("/", mimetype)\n', "", "R04d"),
    Seed("template manifest not written back", "fault", _DOC, "    container.set_part(ODF_MANIFEST, manifest.serialize())\n", "", "R04d"),
    unparse_seed(_CT), unparse_seed(_DOC), unparse_seed(_MAN), unparse_seed(_MA),
    Seed("add_full_path as if/else", "neutral", _MA,
         "            self.set_media_type(full_path, media_type)\n            return\n        root = self.root\n        root.append(self.make_file_entry(full_path, media_type))",
         "            self.set_media_type(full_path, media_type)\n        else:\n            root = self.root\n            root.append(self.make_file_entry(full_path, media_type))"),
]
