"""C12 — every element class round-trips and comes back as the same class.

Whole-registry rules over the static replica of the class registry.
R12a registered / unique tag / reachable by import / exported
R12b _properties => _define_attribut_property(); PropDef names do not collide
R12c constructor-argument flow (provided vs absent abstract runs)
R12d constructor keywords swallowed by **kwargs
R12e wrappers constructed only through from_tag / from_tag_for_clone
R12f every prefix:name constant resolves in ODF_NAMESPACES
R12g constructor stores land on a real property or on read Python state
R12h no cross-wired store (parameter p stored into another property while p's is left unset)
R12i explicit getter/setter pairs name the same attribute
R12j constructor does not wipe what it stored; R12k self-description read from the element
R12l generic attribute accessors carry the value verbatim
"""

from __future__ import annotations

import ast

from ..paths import structural_guards  # noqa: E402
from ..core import (UNKNOWN, AnalysisError, ClassInfo, FuncInfo, Repo, body_no_doc, call_name, is_self_attr, names_in,
                    norm, walk_no_nested)
from ..registry import _propdef_items, build_registry, element_classes, propdefs, property_names

EXPLANATION = (
    "Whole-registry static enumeration: the class registry is replayed statically in import order from "
    "odfdo/__init__.py (first registration wins, as in the code) and every Element subclass, registration, PropDef, "
    "_define_attribut_property() call, constructor parameter and in-package constructor call is checked. "
    "Constructor-argument flow abstractly executes each __init__ twice (argument provided / absent) with "
    "three-valued branch evaluation and reports parameters that are accepted and dropped. Decides the structural "
    "necessary conditions of round-tripping for all ~90 classes / ~110 tags; equality of infosets and value "
    "conversions inside property getters are not decided."
)
ASSUMPTIONS = [
    "module-level statements run in import order starting at odfdo/__init__.py (no circular-import partial states matter for registration)",
    "setattr(cls, name, property(...)) in _define_attribut_property defines exactly the PropDef names of cls._properties",
]

NOT_ODF = "-odfdo-notodf"


def _ns(repo):
    m = repo.module("element")
    ns = repo.fold(m.assigns.get("ODF_NAMESPACES"), m)
    if not isinstance(ns, dict) or len(ns) < 20:
        raise AnalysisError("ODF_NAMESPACES not foldable")
    return ns


def r12a(ctx, reg):
    repo = ctx.repo
    ctx.rule("R12a", "every Element subclass with a real tag is registered once, reachably, and exported", floor=80)
    init = repo.module("__init__")
    exported = repo.fold(init.assigns.get("__all__"), init)
    exported = set(exported) if isinstance(exported, (list, tuple)) else set()
    registered = reg.classes_registered()
    for c in element_classes(repo):
        tag = repo.fold_class_const(c, "_tag")
        own_tag = "_tag" in c.consts
        if not isinstance(tag, str) or not tag or tag.endswith(NOT_ODF) or not own_tag:
            continue
        ok = c.name in registered
        ctx.instance("R12a", f"{c.module.relpath}:{c.name}", f"class with tag {tag} registered", ok=ok)
        if not ok:
            ctx.report("R12a", c.module, c.node, f"class {c.name} ({tag}) not registered",
                       f"{c.name} defines tag {tag!r} but no module-level register_element_class call: parsing yields a plain Element")
        if not c.name.startswith("_") and c.name not in exported and c.module.short not in ("element_cached",):
            # only report classes whose module siblings are exported (public API modules)
            sibs = [x for x in c.module.classes if x in exported]
            if sibs and c.name not in ("DrawTextBox", "ShapeBase", "ParagraphBase", "TextFormatChange"):
                ctx.report("R12a", c.module, c.node, f"class {c.name} not in __all__", f"{c.name} is registered but not exported in odfdo.__all__", info=True)
    for r in reg.regs:
        ok = r.shadowed_by is None or r.shadowed_by is r.cls
        ctx.instance("R12a", f"{r.module.relpath}", f"tag {r.tag} -> {r.cls.name} is the effective registration", ok=ok, nontrivial=True,
                     line=r.node.lineno)
        if not ok:
            ctx.report("R12a", r.module, r.node, f"tag {r.tag}: {r.cls.name} shadowed by {r.shadowed_by.name}",
                       f"tag {r.tag!r} is already registered for {r.shadowed_by.name} when {r.cls.name} registers it (first wins): "
                       f"{r.cls.name} never comes back from a parse")
    for m, st in reg.unfoldable:
        ctx.report("R12a", m, st, st, "registration whose class or tag list cannot be resolved statically")
    unreached = [n for n in reg.unreached if ".scripts" not in n and not n.endswith(".templates")]
    ctx.instance("R12a", "src/odfdo/__init__.py", "every library module is reachable by import from odfdo/__init__.py", ok=not unreached, nontrivial=True)
    for n in unreached:
        mod = repo.modules[n]
        if any(isinstance(s, ast.Expr) and isinstance(s.value, ast.Call) and call_name(s.value).startswith("register_element_class") for s in mod.tree.body):
            ctx.report("R12a", mod, mod.tree, f"module {n} not imported", f"module {n} registers classes but is never imported from odfdo/__init__.py")


def r12b(ctx, reg):
    repo = ctx.repo
    ctx.rule("R12b", "a class with PropDefs calls _define_attribut_property() after its definition; names do not collide", floor=40)
    for c in element_classes(repo) + [repo.cls("Element")]:
        e = c.consts.get("_properties")
        if e is None:
            continue
        items = _propdef_items(repo, c, e)
        if not items:
            continue
        calls = reg.define_calls.get(c.name, [])
        ok = any(getattr(n, "lineno", 0) > c.node.end_lineno for n in calls if True) and any(
            m is c.module for nm, m, n in reg.define_order if nm == c.name)
        ctx.instance("R12b", f"{c.module.relpath}:{c.name}", f"{len(items)} PropDef(s) defined by {c.name}._define_attribut_property()", ok=ok,
                     line=c.node.lineno)
        if not ok:
            ctx.report("R12b", c.module, c.node, f"{c.name}._properties without {c.name}._define_attribut_property()",
                       f"{c.name} declares {len(items)} PropDef(s) but never calls {c.name}._define_attribut_property(): "
                       f"assigning them sets plain Python attributes and the XML never sees the values")
        names = [i[0] for i in items]
        for nm, attr, fam in items:
            bad = not isinstance(nm, str) or not isinstance(attr, str) or ":" not in attr
            same = [i for i in items if i[0] == nm]
            dup = len({(i[1], i[2]) for i in same}) > 1
            if len(same) > 1 and not dup and same[0] is not None and items.index(same[0]) == [j for j, i in enumerate(items) if i[0] == nm][0]:
                pass
            ctx.instance("R12b", f"{c.module.relpath}:{c.name}", f"PropDef({nm!r}, {attr!r})", ok=not (bad or dup))
            if bad:
                ctx.report("R12b", c.module, c.node, f"PropDef({nm!r}, {attr!r})", "PropDef with a non-constant or unqualified attribute name")
            if dup:
                ctx.report("R12b", c.module, c.node, f"conflicting PropDefs named {nm!r}: {sorted({i[1] for i in same})}",
                           f"PropDefs of {c.name} named {nm!r} map to different attributes {sorted({i[1] for i in same})}: the later one silently "
                           f"wins, so {c.name}.{nm} reads and writes the wrong attribute")
            # collision with a plain method of the class (the generated property would replace it)
            for f in c.methods.get(nm, []) if isinstance(nm, str) else []:
                if f.kind == "method":
                    ctx.report("R12b", c.module, f.node, f"PropDef {nm!r} collides with method {c.name}.{nm}",
                               f"_define_attribut_property replaces method {c.name}.{nm} with the attribute property")


# ----------------------------------------------------------------- R12c
class Tri:
    T, F, U = "T", "F", "U"


def _truthy_const(v):
    return Tri.T if v else Tri.F


def _eval(test: ast.expr, env: dict) -> str:
    """Three-valued evaluation of a test under env: name -> 'T'|'F'|'U' truthiness and '<name> is None' -> bool."""
    if isinstance(test, ast.Name):
        return env.get(test.id, Tri.U)
    if isinstance(test, ast.Attribute) and is_self_attr(test, "_do_init"):
        return Tri.T
    if isinstance(test, ast.UnaryOp) and isinstance(test.op, ast.Not):
        r = _eval(test.operand, env)
        return {Tri.T: Tri.F, Tri.F: Tri.T}.get(r, Tri.U)
    if isinstance(test, ast.BoolOp):
        vals = [_eval(v, env) for v in test.values]
        if isinstance(test.op, ast.And):
            if Tri.F in vals:
                return Tri.F
            return Tri.T if all(v == Tri.T for v in vals) else Tri.U
        if Tri.T in vals:
            return Tri.T
        return Tri.F if all(v == Tri.F for v in vals) else Tri.U
    if isinstance(test, ast.Compare) and len(test.ops) == 1 and isinstance(test.left, ast.Name) \
            and isinstance(test.comparators[0], ast.Constant) and test.comparators[0].value is None:
        k = env.get(("none", test.left.id))
        if k is None:
            return Tri.U
        if isinstance(test.ops[0], ast.Is):
            return Tri.T if k else Tri.F
        if isinstance(test.ops[0], ast.IsNot):
            return Tri.F if k else Tri.T
    return Tri.U


class InitRun:
    """Abstract run of an __init__ body for one parameter in mode 'provided' or 'absent'."""

    def __init__(self, f: FuncInfo, param: str, env: dict):
        self.f = f
        self.param = param
        self.env = dict(env)
        self.tainted = {param}
        self.effects_reading: list[ast.AST] = []
        self.executed: set[int] = set()

    def reads(self, e: ast.AST) -> bool:
        return bool(names_in(e) & self.tainted)

    def run(self, body, live=True):
        for s in body:
            if not self.stmt(s):
                return False
        return True

    def effect(self, s: ast.AST, read_expr: ast.AST | None):
        self.executed.add(id(s))
        if read_expr is not None and self.reads(read_expr):
            self.effects_reading.append(s)

    def stmt(self, s) -> bool:
        """returns False when the flow certainly stops (return/raise)."""
        if isinstance(s, ast.If):
            r = _eval(s.test, self.env)
            if self.reads(s.test):
                pass
            if r == Tri.T:
                return self.run(s.body)
            if r == Tri.F:
                return self.run(s.orelse)
            # unknown: both arms, with state merged (taint union, env kept conservative)
            saved_env = dict(self.env)
            saved_taint = set(self.tainted)
            a = self.run(s.body)
            env_a = self.env
            taint_a = self.tainted
            self.env = dict(saved_env)
            self.tainted = set(saved_taint)
            b = self.run(s.orelse)
            self.tainted |= taint_a
            for k in set(env_a) | set(self.env):
                if env_a.get(k) != self.env.get(k):
                    self.env[k] = Tri.U if not isinstance(k, tuple) else None
            self.env = {k: v for k, v in self.env.items() if v is not None}
            return a or b
        if isinstance(s, (ast.For, ast.While)):
            it = s.iter if isinstance(s, ast.For) else s.test
            has_effect = any(isinstance(n, (ast.Call, ast.Assign, ast.AugAssign)) for b in s.body for n in ast.walk(b))
            if isinstance(s, ast.For) and self.reads(it):
                for t in ast.walk(s.target):
                    if isinstance(t, ast.Name):
                        self.tainted.add(t.id)
                if has_effect:
                    self.effect(s, it)
            saved_taint = set(self.tainted)
            self.run(s.body)
            self.run(s.orelse)
            self.tainted |= saved_taint
            return True
        if isinstance(s, ast.With):
            return self.run(s.body)
        if isinstance(s, ast.Try):
            saved_taint = set(self.tainted)
            self.run(s.body)
            for h in s.handlers:
                self.run(h.body)
            self.run(s.orelse)
            self.run(s.finalbody)
            self.tainted |= saved_taint
            return True
        if isinstance(s, (ast.Return, ast.Raise)):
            if isinstance(s, ast.Raise) and s.exc is not None:
                self.effect(s, s.exc)
            return False
        if isinstance(s, (ast.Assign, ast.AnnAssign, ast.AugAssign)):
            value = s.value
            targets = s.targets if isinstance(s, ast.Assign) else [s.target]
            if value is None:
                return True
            for t in targets:
                if isinstance(t, ast.Name):
                    if self.reads(value):
                        self.tainted.add(t.id)
                        # truthiness: `x = x or 1` stays provided
                    elif t.id in self.tainted and not isinstance(s, ast.AugAssign):
                        self.tainted.discard(t.id)
                    # refresh env knowledge of a rebound local
                    if t.id in self.env or ("none", t.id) in self.env:
                        self.env.pop(t.id, None)
                        self.env.pop(("none", t.id), None)
                    # a call inside a local assignment is still an effect reading p
                    if any(isinstance(n, ast.Call) for n in ast.walk(value)) and self.reads(value):
                        for c in ast.walk(value):
                            if isinstance(c, ast.Call) and isinstance(c.func, ast.Attribute) and isinstance(c.func.value, ast.Name) \
                                    and c.func.value.id in ("self", "kwargs"):
                                self.effect(s, value)
                elif isinstance(t, (ast.Attribute, ast.Subscript)):
                    self.effect(s, value)
                    if isinstance(t, ast.Subscript) and self.reads(t.slice):
                        self.effect(s, t.slice)
                elif isinstance(t, (ast.Tuple, ast.List)):
                    for x in ast.walk(t):
                        if isinstance(x, ast.Name) and self.reads(value):
                            self.tainted.add(x.id)
            return True
        if isinstance(s, ast.Expr):
            if isinstance(s.value, (ast.Call, ast.Await)):
                self.effect(s, s.value)
            return True
        if isinstance(s, ast.Delete):
            self.effect(s, None)
            return True
        return True


def _default_env(f: FuncInfo, p: str, provided: bool) -> dict | None:
    env: dict = {}
    if provided:
        env[p] = Tri.T
        env[("none", p)] = False
        return env
    d = f.defaults().get(p)
    if d is None:
        return None
    if isinstance(d, ast.Constant):
        env[p] = _truthy_const(d.value)
        env[("none", p)] = d.value is None
        return env
    return {p: Tri.U}


def r12c(ctx, reg):
    repo = ctx.repo
    ctx.rule("R12c", "every named constructor parameter of an element class reaches an effect when provided", floor=180)
    for c in element_classes(repo):
        inits = c.methods.get("__init__", [])
        if not inits:
            continue
        f = inits[0]
        body = body_no_doc(f.node)
        for a in f.all_params():
            p = a.arg
            if p == "self" or p.startswith("_"):
                continue
            envA = _default_env(f, p, True)
            runA = InitRun(f, p, envA)
            runA.run(body)
            live = bool(runA.effects_reading)
            why = "read by an effect when provided"
            if not live:
                d = f.defaults().get(p)
                flag = isinstance(d, ast.Constant) and isinstance(d.value, bool)
                envB = _default_env(f, p, False)
                if flag and envB is not None:
                    runB = InitRun(f, p, envB)
                    runB.run(body)
                    if runA.executed != runB.executed:
                        live = True
                        why = "boolean flag: selects which effects run"
                    else:
                        # the opposite polarity (default True, provided False)
                        envC = {p: Tri.F, ("none", p): False}
                        runC = InitRun(f, p, envC)
                        runC.run(body)
                        if runC.executed != runB.executed or runC.executed != runA.executed:
                            live = True
                            why = "boolean flag: selects which effects run"
            ctx.instance("R12c", f"{f.file}:{c.name}.__init__", f"parameter {p}: {why if live else 'DROPPED'}", ok=live, nontrivial=True, line=a.lineno)
            if not live:
                ctx.report("R12c", f, a, f"parameter {p} of {c.name}.__init__",
                           f"{c.name}({p}=…) accepts the argument but no statement executed when it is provided reads it: "
                           f"the value never reaches the XML (dead or mis-guarded parameter)")


# ----------------------------------------------------------------- R12d
def _accepted_keywords(repo: Repo, cls: ClassInfo) -> tuple[set[str], bool]:
    """(named keywords accepted along the __init__ chain, accepts-anything)."""
    accepted: set[str] = set()
    mro = cls.mro
    i = 0
    while i < len(mro):
        c = mro[i]
        inits = c.methods.get("__init__", [])
        if not inits:
            i += 1
            continue
        f = inits[0]
        accepted |= {a.arg for a in f.all_params() if a.arg != "self"}
        if not f.has_kwargs():
            return accepted, False
        kw = f.node.args.kwarg.arg
        body = body_no_doc(f.node)
        forwards = False
        consumes = False
        for n in walk_no_nested(f.node):
            if isinstance(n, ast.Call) and isinstance(n.func, ast.Attribute) and n.func.attr == "__init__":
                if any(k.arg is None and isinstance(k.value, ast.Name) and k.value.id == kw for k in n.keywords):
                    forwards = True
            if isinstance(n, ast.Call) and isinstance(n.func, ast.Attribute) and isinstance(n.func.value, ast.Name) \
                    and n.func.value.id == kw and n.func.attr in ("pop", "get"):
                if n.args and isinstance(n.args[0], ast.Constant):
                    accepted.add(n.args[0].value)
                else:
                    consumes = True
            if isinstance(n, (ast.For, ast.comprehension)) and kw in names_in(n.iter):
                consumes = True
            if isinstance(n, ast.Compare) and any(isinstance(o, ast.In) for o in n.ops) and any(
                    isinstance(x, ast.Name) and x.id == kw for x in n.comparators):
                consumes = True
            if isinstance(n, ast.Call) and not (isinstance(n.func, ast.Attribute) and n.func.attr == "__init__") and any(
                    k.arg is None and isinstance(k.value, ast.Name) and k.value.id == kw for k in n.keywords):
                consumes = True  # forwarded to something else (e.g. set_properties(**kwargs))
            if isinstance(n, ast.Call) and any(isinstance(x, ast.Name) and x.id == kw for x in n.args):
                consumes = True
        if consumes:
            return accepted, True
        if not forwards:
            return accepted, False
        i += 1
    return accepted, False


def r12d(ctx, reg):
    repo = ctx.repo
    ctx.rule("R12d", "no constructor keyword passed inside the package is swallowed by **kwargs", floor=60)
    el = repo.cls("Element")
    cache: dict[str, tuple[set[str], bool]] = {}
    for f in repo.all_funcs():
        for n in walk_no_nested(f.node):
            if not (isinstance(n, ast.Call) and isinstance(n.func, ast.Name) and n.func.id[:1].isupper() and n.keywords):
                continue
            c = repo.resolve_name(n.func.id, f.module)
            if not isinstance(c, ClassInfo) or el not in c.mro:
                continue
            if c.name not in cache:
                cache[c.name] = _accepted_keywords(repo, c)
            acc, anything = cache[c.name]
            for k in n.keywords:
                if k.arg is None:
                    continue
                ok = anything or k.arg in acc
                ctx.instance("R12d", f"{f.file}:{f.ident}", f"{c.name}({k.arg}=…)", ok=ok, nontrivial=not (k.arg in acc), line=n.lineno)
                if not ok:
                    ctx.report("R12d", f, n, f"{c.name}({k.arg}=…)",
                               f"keyword {k.arg!r} is not a parameter of {c.name}.__init__ nor of its bases: it lands in **kwargs, "
                               f"which Element.__init__ ignores — the value is silently dropped (accepted: {sorted(acc)[:12]}…)")


# ----------------------------------------------------------------- R12e
TRAVERSALS = ["Element.children", "Element.parent", "Element.root", "Element.get_element", "Element.get_elements",
              "Element.xpath", "Element._get_element_idx", "Element._get_element_idx2", "CachedElement.get_elements",
              "EText.parent", "XmlPart.root", "Element.clone"]


def r12e(ctx, reg):
    repo = ctx.repo
    ctx.rule("R12e", "wrappers are built only through from_tag/from_tag_for_clone; every traversal dispatches through them", floor=10)
    allowed = {"from_tag", "from_tag_for_clone"}
    n_sites = 0
    for f in repo.all_funcs():
        for n in walk_no_nested(f.node):
            if isinstance(n, ast.Call) and any(k.arg == "tag_or_elem" for k in n.keywords):
                n_sites += 1
                inside = f.name in allowed or (isinstance(n.func, ast.Attribute) and n.func.attr in allowed) \
                    or (isinstance(n.func, ast.Attribute) and n.func.attr == "__init__")
                ctx.instance("R12e", f"{f.file}:{f.ident}", f"wrapper construction {norm(n, 60)}", ok=inside, line=n.lineno)
                if not inside:
                    ctx.report("R12e", f, n, n, "an element wrapper is constructed directly with tag_or_elem= outside from_tag: "
                               "the registry dispatch is bypassed and the node comes back as the wrong class")
    for q in TRAVERSALS:
        f = repo.find_func(q) or repo.find_func(q, "getter")
        if f is None:
            raise AnalysisError(f"R12e: traversal anchor vanished: {q}")
        names = {call_name(n) for n in walk_no_nested(f.node) if isinstance(n, ast.Call)}
        delegates = {q2.split(".")[1] for q2 in TRAVERSALS}
        ok = bool(names & allowed) or bool(names & (delegates - {f.name})) or any(
            isinstance(n, ast.Attribute) and n.attr in ("root", "parent", "children") and n.attr != f.name for n in walk_no_nested(f.node))
        ctx.instance("R12e", f"{f.file}:{f.ident}", "returns wrappers obtained from from_tag/from_tag_for_clone", ok=ok, nontrivial=True)
        if not ok:
            ctx.report("R12e", f, f.node, f"{q} without from_tag", f"{q} no longer wraps its result through the registry dispatch")
    # the dispatchers consult the registry keyed by the lxml tag
    def reads_registry(node) -> bool:
        return any(isinstance(n, ast.Call) and isinstance(n.func, ast.Attribute) and n.func.attr == "get" and isinstance(n.func.value, ast.Name)
                   and n.func.value.id == "_class_registry" for n in walk_no_nested(node)) or \
            any(isinstance(n, ast.Subscript) and isinstance(n.value, ast.Name) and n.value.id == "_class_registry" for n in walk_no_nested(node))

    for q in ("Element.from_tag", "Element.from_tag_for_clone"):
        f = repo.func(q)
        ok = reads_registry(f.node)
        memo = None
        if not ok:
            # one level of helpers: the lookup may live in a module function — but the registry is mutable, so it must not be memoised
            for c in walk_no_nested(f.node):
                if isinstance(c, ast.Call) and isinstance(c.func, ast.Name):
                    h = repo.resolve_name(c.func.id, f.module)
                    if isinstance(h, FuncInfo) and reads_registry(h.node):
                        decos = [ast.unparse(d) for d in h.node.decorator_list]
                        if any("cache" in d for d in decos):
                            memo = (h, decos)
                        else:
                            ok = True
        ctx.instance("R12e", f"{f.file}:{f.ident}", "class chosen by a live read of _class_registry", ok=ok, nontrivial=True)
        if memo is not None:
            ctx.report("R12e", memo[0], memo[0].node, f"{memo[0].name} memoises the registry lookup ({', '.join(memo[1])})",
                       f"{q} resolves the class through {memo[0].name}, which is memoised although register_element_class can add classes later: a tag seen "
                       f"before its class was registered comes back as plain Element for ever")
        elif not ok:
            ctx.report("R12e", f, f.node, "registry lookup missing", f"{q} does not choose the class from _class_registry")


# ----------------------------------------------------------------- R12f
ATTR_FUNCS = {"get_attribute", "get_attribute_string", "get_attribute_integer", "set_attribute", "del_attribute",
              "set_style_attribute", "_set_attribute_str_default", "_get_attribute_str_default", "_set_attribute_str",
              "_set_attribute_bool_default", "_get_attribute_bool_default", "_set_attribute_number_default",
              "_get_attribute_number_default"}


def r12f(ctx, reg):
    repo = ctx.repo
    ns = _ns(repo)
    ctx.rule("R12f", "every prefix:name constant used as tag or attribute resolves in ODF_NAMESPACES", floor=500)

    def check(where, node, s, what, f=None):
        if not isinstance(s, str) or ":" not in s or "<" in s or " " in s or "/" in s or "(" in s or "[" in s:
            return
        parts = s.split(":")
        ok = len(parts) == 2 and parts[0] in ns and bool(parts[1])
        ctx.instance("R12f", where, f"{what} {s!r}", ok=ok)
        if not ok:
            ctx.report("R12f", f, node, f"{what} {s!r}", f"{what} {s!r}: prefix {parts[0]!r} is not declared in ODF_NAMESPACES "
                       f"(or the name is malformed): _decode_qname raises at first use")

    for c in element_classes(repo):
        if "_tag" in c.consts:
            t = repo.fold_class_const(c, "_tag")
            if isinstance(t, str) and not t.endswith(NOT_ODF):
                check(f"{c.module.relpath}:{c.name}", c.node, t, "class tag", c.module)
        for nm, attr, fam, dc in propdefs(repo, c, own_only=True):
            check(f"{c.module.relpath}:{c.name}", c.node, attr, f"PropDef {nm}", c.module)
    for r in reg.regs:
        check(r.module.relpath, r.node, r.tag, "registered tag", r.module)
    for f in repo.all_funcs():
        for n in walk_no_nested(f.node):
            if isinstance(n, ast.Call) and n.args and isinstance(n.args[0], ast.Constant) and isinstance(n.args[0].value, str):
                nm = call_name(n)
                if nm in ATTR_FUNCS:
                    check(f"{f.file}:{f.ident}", n, n.args[0].value, f"{nm} argument", f)
                elif nm == "from_tag" and "<" not in n.args[0].value:
                    check(f"{f.file}:{f.ident}", n, n.args[0].value, "from_tag argument", f)


# ----------------------------------------------------------------- R12g / R12h
def _attr_loads(repo: Repo) -> set[str]:
    loads = set()
    for m in repo.modules.values():
        for n in ast.walk(m.tree):
            if isinstance(n, ast.Attribute) and isinstance(n.ctx, ast.Load):
                loads.add(n.attr)
            elif isinstance(n, ast.Call) and call_name(n) in ("getattr", "hasattr") and len(n.args) >= 2 and isinstance(n.args[1], ast.Constant):
                loads.add(n.args[1].value)
    return loads


def r12gh(ctx, reg):
    repo = ctx.repo
    ctx.rule("R12g", "a constructor store `self.x = …param…` lands on a property with a setter or on Python state that is read", floor=150)
    ctx.rule("R12h", "a parameter named like a property is stored into that property, not only into another one", floor=100)
    loads = _attr_loads(repo)
    all_props: set[str] = set()
    pn_cache: dict[str, dict[str, str]] = {}
    for c in element_classes(repo):
        pn_cache[c.name] = property_names(repo, c, reg.define_calls)
        all_props |= {k for k, v in pn_cache[c.name].items() if v in ("propdef", "property")}
    for c in element_classes(repo):
        inits = c.methods.get("__init__", [])
        if not inits:
            continue
        f = inits[0]
        params = {a.arg for a in f.all_params()} - {"self"}
        props = pn_cache[c.name]
        methods = {n for cc in c.mro for n, fs in cc.methods.items() if any(x.kind in ("method", "static", "class") for x in fs)}
        stores: list[tuple[str, ast.Assign]] = []
        for n in walk_no_nested(f.node):
            if isinstance(n, ast.Assign):
                for t in n.targets:
                    if is_self_attr(t):
                        stores.append((t.attr, n))
        stored_attrs = {a for a, _ in stores}
        for attr, n in stores:
            reads_param = bool(names_in(n.value) & params)
            if not reads_param:
                continue
            kind = props.get(attr)
            if kind in ("propdef", "property"):
                ok, why = True, kind
            elif kind == "property-ro":
                ok, why = False, "read-only property"
            elif attr in methods:
                ok, why = False, "overwrites a method"
            elif attr in all_props and attr not in props:
                ok, why = False, f"property of another class, not of {c.name}"
            elif attr in loads or attr.startswith("_"):
                ok, why = True, "python state read elsewhere"
            else:
                ok, why = False, "attribute never read anywhere"
            ctx.instance("R12g", f"{f.file}:{c.name}.__init__", f"self.{attr} = {norm(n.value, 40)} ({why})", ok=ok, nontrivial=True, line=n.lineno)
            if not ok:
                ctx.report("R12g", f, n, f"self.{attr} = {norm(n.value, 50)}",
                           f"constructor argument stored into self.{attr}, which is {why}: a silent Python attribute, the XML never sees the value")
        # R12h
        for attr, n in stores:
            used = names_in(n.value) & params
            for p in sorted(used):
                if p == attr or props.get(p) not in ("propdef", "property") or props.get(attr) not in ("propdef", "property"):
                    continue
                # simple stores only: value is the bare parameter (cross-wiring, not a computation)
                if not (isinstance(n.value, ast.Name) and n.value.id == p):
                    continue
                ok = p in stored_attrs
                ctx.instance("R12h", f"{f.file}:{c.name}.__init__", f"self.{attr} = {p} while property {p} exists", ok=ok, nontrivial=True, line=n.lineno)
                if not ok:
                    ctx.report("R12h", f, n, f"self.{attr} = {p}",
                               f"{c.name} has a property {p!r} but the constructor stores argument {p!r} into {attr!r} and never into "
                               f"self.{p}: the arguments are cross-wired")
        for p in sorted(params):
            if props.get(p) in ("propdef", "property") and p in stored_attrs:
                ctx.instance("R12h", f"{f.file}:{c.name}.__init__", f"parameter {p} stored into self.{p}", ok=True, line=f.node.lineno)


# ----------------------------------------------------------------- R12i
import re as _re

_QN = _re.compile(r"(?<![:\w-])([a-z][a-z0-9]*):(?!:)([A-Za-z][\w-]*)")


def _inline_bodies(f: FuncInfo):
    """The function node plus the bodies of self.m(...) callees and self.p property reads (one level)."""
    nodes = [f.node]
    if f.cls is None:
        return nodes
    for n in walk_no_nested(f.node):
        if isinstance(n, ast.Call) and isinstance(n.func, ast.Attribute) and isinstance(n.func.value, ast.Name) and n.func.value.id == "self":
            g = f.cls.lookup(n.func.attr)
            if g is not None and g is not f and g.kind in ("method", "static", "class"):
                nodes.append(g.node)
    return nodes


def _qnames(nodes) -> set[str]:
    out = set()
    for node in nodes:
        for n in ast.walk(node):
            if isinstance(n, ast.Constant) and isinstance(n.value, str) and not (
                    isinstance(getattr(n, "_parent", None), ast.Expr)):
                for mt in _QN.finditer(n.value):
                    out.add(mt.group(0))
    return out


def r12i(ctx, reg):
    repo = ctx.repo
    ns = _ns(repo)
    ctx.rule("R12i", "explicit property getter and setter name the same attribute / child element", floor=25)
    for c in repo.all_classes():
        for name, fs in c.methods.items():
            g = [f for f in fs if f.kind == "getter"]
            s = [f for f in fs if f.kind == "setter"]
            if not g or not s:
                continue
            R = {q for q in _qnames(_inline_bodies(g[0])) if q.split(":")[0] in ns}
            W = {q for q in _qnames(_inline_bodies(s[0])) if q.split(":")[0] in ns}
            if not R or not W:
                continue
            ok = bool(R & W)
            ctx.instance("R12i", f"{c.module.relpath}:{c.name}.{name}", f"getter names {sorted(R)} / setter names {sorted(W)}", ok=ok, nontrivial=True,
                         line=g[0].node.lineno)
            if not ok:
                ctx.report("R12i", s[0], s[0].node, f"{c.name}.{name}: getter {sorted(R)} setter {sorted(W)}",
                           f"property {c.name}.{name}: the getter reads {sorted(R)} but the setter writes {sorted(W)} — no attribute or element in common")


def r12j(ctx, reg):
    """A constructor does not wipe what it has just stored.

    Some setters and helpers rebuild the element from scratch (`self.clear()` reachable from them: `Annotation.note_body` with an Element
    body, the typed-value setters of Cell/Variable…).  In a constructor such a store must come before every other store on `self`:
    whatever was written earlier — attributes, dc:creator, dc:date — is removed again, and the constructor parameter that produced it is
    silently dropped for that input shape.  Rule: in every element class __init__, no store/call on self that may reach `self.clear()` is
    reachable (CFG) from an earlier store/call on self.
    """
    from ..paths import cfg_of, node_of
    repo = ctx.repo
    ctx.rule("R12j", "in a constructor, a store that may rebuild the element (reaches self.clear()) precedes every other store on self", floor=50)
    memo: dict = {}

    def destructive(c, name, kind, depth=0, seen=()):
        """the clearing call chain `name → … → clear`, or None"""
        key = (c.name, name, kind)
        if key in memo:
            return memo[key]
        if depth > 3 or key in seen:
            return None
        f = c.lookup(name, kind)
        res = None
        if f is not None and f.name != "__init__":
            for n in walk_no_nested(f.node):
                if isinstance(n, ast.Call) and isinstance(n.func, ast.Attribute) and isinstance(n.func.value, ast.Name) and n.func.value.id == "self":
                    if n.func.attr == "clear":
                        res = [f"{f.ident}:{n.lineno} self.clear()"]
                        break
                    sub = destructive(c, n.func.attr, None, depth + 1, seen + (key,))
                    if sub:
                        res = [f"{f.ident}:{n.lineno} self.{n.func.attr}()"] + sub
                        break
                elif isinstance(n, ast.Assign) and len(n.targets) == 1 and isinstance(n.targets[0], ast.Attribute) and isinstance(n.targets[0].value, ast.Name) \
                        and n.targets[0].value.id == "self":
                    sub = destructive(c, n.targets[0].attr, "setter", depth + 1, seen + (key,))
                    if sub:
                        res = [f"{f.ident}:{n.lineno} self.{n.targets[0].attr} = …"] + sub
                        break
        if depth == 0:
            memo[key] = res
        return res

    for c in element_classes(repo):
        inits = c.methods.get("__init__", [])
        if not inits:
            continue
        f = inits[0]
        props = property_names(repo, c)
        muts = []  # (stmt, label, chain)
        for st in walk_no_nested(f.node):
            if isinstance(st, ast.Assign) and len(st.targets) == 1 and isinstance(st.targets[0], ast.Attribute) and isinstance(st.targets[0].value, ast.Name) \
                    and st.targets[0].value.id == "self" and props.get(st.targets[0].attr) in ("property", "propdef"):
                muts.append((st, f"self.{st.targets[0].attr} = …", destructive(c, st.targets[0].attr, "setter")))
            elif isinstance(st, (ast.Expr, ast.Assign)) and isinstance(st.value, ast.Call) and isinstance(st.value.func, ast.Attribute) and isinstance(st.value.func.value, ast.Name) \
                    and st.value.func.value.id == "self" and not st.value.func.attr.startswith("__") and not st.value.func.attr.startswith("get"):
                muts.append((st, f"self.{st.value.func.attr}(…)", destructive(c, st.value.func.attr, None)))
        if not muts:
            continue
        cfg = cfg_of(f)
        dest = [(st, lab, ch) for st, lab, ch in muts if ch]
        bad = None
        for st, lab, ch in dest:
            dn = node_of(cfg, st)
            for st2, lab2, _ in muts:
                if st2 is st:
                    continue
                n2 = node_of(cfg, st2)
                if n2 is not None and dn is not None and dn.id in cfg.reach_from(n2):
                    bad = (st, lab, ch, st2, lab2)
                    break
            if bad:
                break
        ctx.instance("R12j", f"{f.file}:{f.ident}", f"{len(muts)} store(s) on self, {len(dest)} may rebuild the element" + (f": {dest[0][1]} first" if dest and not bad else ""),
                     ok=bad is None, nontrivial=bool(dest), line=f.node.lineno)
        if bad:
            st, lab, ch, st2, lab2 = bad
            ctx.report("R12j", f, st, f"{lab} after {lab2}",
                       f"{c.name}.__init__ stores `{lab2}` (line {st2.lineno}) and afterwards `{lab}`, which can rebuild the element from scratch ({' → '.join(ch)}): "
                       f"what the earlier stores wrote is removed again, so those constructor parameters are lost for that input",
                       path=ch)


DOCUMENT_SINGLETONS = {  # containers that exist once per part: reaching them from any element with `//` is the documented intent
    "office:body", "text:tracked-changes", "text:variable-decls", "text:user-field-decls", "office:font-face-decls", "office:automatic-styles", "office:styles",
    "office:master-styles", "office:meta", "office:settings", "office:scripts",
}


def r12k(ctx, reg):
    """What an element says about itself is read from the element.

    XPath evaluation on an lxml node starts at that node, but a query beginning with `//` (or `/`) starts at the root of the tree the node
    lives in.  A property of an element class that looks its child up with `//child` therefore works on a free-standing element and returns
    the *first such node of the whole document* once the element is attached (every annotation reporting the first annotation's creator).
    Rule: in methods of Element subclasses and of the mixins they inherit (not of XmlPart subclasses, whose element is the root), no query
    handed to get_element / get_elements / xpath on `self` starts with `/`, unless it addresses one of the per-document singleton containers.
    """
    repo = ctx.repo
    ctx.rule("R12k", "element classes and their mixins query relative to self (no `//…` except the per-document singleton containers)", floor=40)
    el = repo.cls("Element")
    classes = set()
    for c in element_classes(repo):
        classes.add(c.name)
        for b in c.mro:
            if b is not el and not b.is_subclass_of("XmlPart") and b.name not in ("object",):
                classes.add(b.name)
    classes.add("Element")
    n = 0
    for cname in sorted(classes):
        c = repo.find_class(cname)
        if c is None:
            continue
        for name, fs in c.methods.items():
            for f in fs:
                qs = [(x, repo.fold(x.args[0], f.module, f.cls)) for x in walk_no_nested(f.node) if isinstance(x, ast.Call) and call_name(x) in ("get_element", "get_elements", "xpath", "get_element_list")
                      and isinstance(x.func, ast.Attribute) and isinstance(x.func.value, ast.Name) and x.func.value.id == "self" and x.args]
                for x, q in qs:
                    if not isinstance(q, str):
                        continue
                    n += 1
                    absolute = q.lstrip().startswith("/")
                    tag = q.lstrip("/").split("/")[0].split("[")[0] if absolute else ""
                    ok = not absolute or tag in DOCUMENT_SINGLETONS
                    ctx.instance("R12k", f"{f.file}:{f.ident}", f"query {q!r} is " + ("relative to the element" if not absolute else ("a per-document container" if ok else "ABSOLUTE")),
                                 ok=ok, nontrivial=absolute, line=x.lineno)
                    if not ok:
                        ctx.report("R12k", f, x, norm(x, 60),
                                   f"{cname}.{name} looks up {q!r} from the root of the tree: on an element attached to a document it returns (and its setter writes into) the first "
                                   f"such node of the whole document, not the element's own — the property values of the 2nd, 3rd … element of that kind are those of the first")
    if n == 0:
        raise AnalysisError("R12k: no constant XPath query on self found in element classes")


def _accessor_bodies(repo: Repo):
    """(FuncInfo, function node, role) of the generic attribute accessors of Element: the closures of the PropDef getter/setter factories and
    the get_attribute* / set_attribute family every explicit property goes through."""
    el = repo.cls("Element")
    out = []
    for name, role in (("_generic_attrib_getter", "get"), ("_generic_attrib_setter", "set")):
        f = el.lookup(name)
        if f is None:
            raise AnalysisError(f"Element.{name} not found")
        inner = [n for n in ast.walk(f.node) if isinstance(n, ast.FunctionDef) and n is not f.node]
        if len(inner) != 1:
            raise AnalysisError(f"Element.{name}: expected one closure")
        out.append((f, inner[0], role))
    for name, role in (("get_attribute", "get"), ("get_attribute_string", "get"), ("set_attribute", "set"), ("set_style_attribute", "fwd")):
        f = el.lookup(name)
        if f is None:
            raise AnalysisError(f"Element.{name} not found")
        out.append((f, f.node, role))
    return out


def r12l(ctx, reg):
    """The generic attribute accessors carry the value verbatim.

    Every PropDef property and every explicit property of the ~90 classes reads and writes its attribute through six small functions of
    Element.  "An instance built with any valid constructor arguments exposes those arguments through its properties" then needs them to be
    the identity on strings: what the setter hands to lxml is str(value) (or the boolean/colour encoding of it), what the getter returns is
    str() of what lxml gave (or its boolean decoding).  A strip(), case change, normalisation, slice or default substituted on that path makes
    `Section(name=" a ").name != " a "` for every class at once.
    """
    from .c14 import _lossy_call
    repo = ctx.repo
    ctx.rule("R12l", "the generic attribute accessors (PropDef getter/setter closures, get_attribute*, set_attribute) carry the value verbatim", floor=6)
    for f, node, role in _accessor_bodies(repo):
        params = [a.arg for a in node.args.args if a.arg not in ("self", "cls")]
        vparam = params[-1] if role in ("set", "fwd") and params else None
        bad: list[tuple[ast.AST, str]] = []
        for c in walk_no_nested(node):
            if isinstance(c, ast.Call) and _lossy_call(c):
                bad.append((c, f"`{norm(c, 50)}` rewrites the value"))
            if isinstance(c, ast.Subscript) and isinstance(c.slice, ast.Slice) and isinstance(c.value, ast.Name):
                bad.append((c, f"`{norm(c, 50)}` keeps part of the value"))
        if role == "set":
            sinks = [c for c in walk_no_nested(node) if isinstance(c, ast.Call) and isinstance(c.func, ast.Attribute) and c.func.attr == "set" and len(c.args) == 2]
            if not sinks:
                raise AnalysisError(f"{f.ident}: no lxml .set(name, value) call found")
            def unalias(e):
                for _ in range(3):
                    if isinstance(e, ast.Call) and call_name(e) == "str" and len(e.args) == 1:
                        e = e.args[0]
                    elif isinstance(e, ast.Name) and e.id != vparam:
                        ds = [a.value for a in walk_no_nested(node) if isinstance(a, ast.Assign) and any(isinstance(t, ast.Name) and t.id == e.id for t in a.targets)]
                        if len(ds) != 1:
                            break
                        e = ds[0]
                    else:
                        break
                return e

            for c in sinks:
                core = unalias(c.args[1])
                if not (isinstance(core, ast.Name) and core.id == vparam):
                    bad.append((c, f"`{norm(c, 60)}` stores something else than str({vparam})"))
        elif role == "fwd":
            calls = [c for c in walk_no_nested(node) if isinstance(c, ast.Call) and call_name(c) == "set_attribute"]
            for c in calls:
                if not (len(c.args) == 2 and isinstance(c.args[1], ast.Name) and c.args[1].id == vparam):
                    bad.append((c, f"`{norm(c, 60)}` forwards something else than {vparam}"))
        else:
            gets = [st for st in walk_no_nested(node) if isinstance(st, ast.Assign) and isinstance(st.value, ast.Call) and isinstance(st.value.func, ast.Attribute)
                    and st.value.func.attr == "get" and isinstance(st.targets[0], ast.Name)]
            if len(gets) != 1:
                raise AnalysisError(f"{f.ident}: expected one lxml .get(name) read")
            got = gets[0].targets[0].id
            for r in walk_no_nested(node):
                if isinstance(r, ast.Return) and r.value is not None and not (isinstance(r.value, ast.Constant) and r.value.value is None):
                    v = r.value
                    if not (isinstance(v, ast.Call) and len(v.args) == 1 and isinstance(v.args[0], ast.Name) and v.args[0].id == got
                            and (call_name(v) == "str" or call_name(v).endswith("decode")) or isinstance(v, ast.Name) and v.id == got):
                        bad.append((r, f"`{norm(r, 60)}` returns something else than str({got}) or its boolean decoding"))
            for st in walk_no_nested(node):
                if isinstance(st, (ast.Assign, ast.AugAssign)) and st is not gets[0] and any(isinstance(t, ast.Name) and t.id == got for t in (st.targets if isinstance(st, ast.Assign) else [st.target])):
                    bad.append((st, f"`{norm(st, 60)}` replaces the value read"))
            # an attribute that is present with the value "" is not absent: the raw value is tested with `is None`, never for truth
            for st in walk_no_nested(node):
                if isinstance(st, (ast.If, ast.IfExp, ast.While)):
                    work = [st.test]
                    while work:
                        e = work.pop()
                        if isinstance(e, ast.BoolOp):
                            work += e.values
                        elif isinstance(e, ast.UnaryOp) and isinstance(e.op, ast.Not):
                            work.append(e.operand)
                        elif isinstance(e, ast.Name) and e.id == got:
                            bad.append((st, f"`{norm(st.test, 40)}` tests the raw value for truth (an empty string is a value)"))
        label = f"{f.ident}{'.' + node.name if node is not f.node else ''}"
        ctx.instance("R12l", f"{f.file}:{label}", f"{role}: value carried verbatim", ok=not bad, nontrivial=True, line=node.lineno)
        for n_, why in bad[:2]:
            ctx.report("R12l", f, n_, f"{label}: {why.split('`')[1] if '`' in why else why}",
                       f"{label}: {why}; every PropDef and explicit attribute property of every element class goes through this accessor, so a constructor "
                       f"argument that the rewrite changes (surrounding blanks, case, composed characters, length) is not what the property gives back")


ACCESSOR_EXCEPTIONS = {
    ("Table.print_ranges", "getter"): "documented list form: the stored blank-separated string is split into its items",
    ("NamedRange.name", "setter"): "documented normalisation: the name check trims the name before validating and storing it",
}


def r12n(ctx, reg):
    """Names are spelled the way ODF spells them.

    `_decode_qname` and its three callers turn "prefix:name" into the lxml form; the class registry, every PropDef, every get/set of an
    attribute and every element that is built go through them.  ODF names are case-sensitive (`anim:transitionFilter`, `smil:fadeColor`)
    and carry no white space; a lower(), strip() or replace() in there makes the registry key and the attribute names disagree with the
    nodes that are parsed — one class stops coming back as itself, one attribute is written under another name.  Rule: the helpers apply
    no string method to the name but the split on ':' / '}' that separates prefix and local name.
    """
    from .c14 import _lossy_call
    repo = ctx.repo
    ctx.rule("R12n", "the qualified-name helpers keep the spelling of names (only the split into prefix and local name)", floor=4)
    m = repo.module("element")
    for fname in ("_decode_qname", "_get_lxml_tag", "_get_lxml_tag_or_name", "_get_prefixed_name", "_uri_to_prefix"):
        f = next((g for g in m.all_funcs if g.name == fname and g.cls is None), None)
        if f is None:
            continue
        bad = []
        for x in walk_no_nested(f.node):
            if isinstance(x, ast.Call) and _lossy_call(x):
                sep = x.args[0].value if x.args and isinstance(x.args[0], ast.Constant) else None
                if isinstance(x.func, ast.Attribute) and x.func.attr in ("split", "rsplit", "partition", "rpartition") and sep in (":", "}"):
                    continue
                bad.append(x)
        ctx.instance("R12n", f"{f.file}:{f.ident}", "name kept as spelled", ok=not bad, nontrivial=True, line=f.node.lineno)
        for x in bad[:1]:
            ctx.report("R12n", f, x, f"{fname}: {norm(x, 50)}",
                       f"{fname} rewrites the qualified name with `{norm(x, 40)}`: the registry key of a tag or the lxml name of an attribute no longer equals the name in the parsed "
                       f"document when the rewrite changes it (ODF has mixed-case names: anim:transitionFilter, smil:fadeColor) — the class is not found again, the attribute is "
                       f"written under another name")


def r12o(ctx, reg):
    """serialize() takes declarations out of the tags, nothing out of the content.

    Element.serialize() removes the `xmlns:*` declarations lxml repeats on a fragment.  "Parsing that XML yields an equal infoset" needs
    the removal to touch start tags only: character data and attribute values that merely look like a declaration are content.  In
    serialized XML `<` and `>` are escaped in content and `"` is escaped inside attribute values, so a substitution applied inside
    `<…>` matches with a double-quoted pattern is safe; applied to the whole string, or accepting single quotes (which lxml leaves raw
    inside attribute values), it deletes content.  Rule: in `_strip_namespaces` the declaration pattern is applied to the text of a tag
    match, never to the function's parameter, and its quotes are double quotes.
    """
    repo = ctx.repo
    ctx.rule("R12o", "Element._strip_namespaces removes xmlns declarations inside tags only, double-quoted as lxml writes them", floor=1)
    f = repo.func("Element._strip_namespaces")
    par = [a.arg for a in f.node.args.args if a.arg not in ("self", "cls")][0]
    m = f.module

    def pattern_of(c):
        if isinstance(c.func.value, ast.Name) and c.func.value.id == "re":
            return repo.fold(c.args[0], m) if c.args else None
        node = m.assigns.get(c.func.value.id) if isinstance(c.func.value, ast.Name) else None
        return repo.fold(node.args[0], m) if isinstance(node, ast.Call) and node.args else None

    subs = [c for c in ast.walk(f.node) if isinstance(c, ast.Call) and isinstance(c.func, ast.Attribute) and c.func.attr in ("sub", "subn")]
    bad = []
    seen_decl = False
    for c in subs:
        pat = pattern_of(c)
        if not isinstance(pat, str) or "xmlns" not in pat:
            continue
        seen_decl = True
        subject = c.args[-1] if isinstance(c.func.value, ast.Name) and c.func.value.id != "re" else (c.args[2] if len(c.args) > 2 else None)
        if isinstance(subject, ast.Name) and subject.id == par:
            bad.append((c, f"`{norm(c, 50)}` runs over the whole serialized text"))
        if "'" in pat:
            bad.append((c, f"pattern {pat!r} also accepts single quotes, which lxml leaves raw inside attribute values"))
    if not seen_decl:
        raise AnalysisError("R12o: declaration pattern not found in Element._strip_namespaces")
    ctx.instance("R12o", f"{f.file}:{f.ident}", "declarations removed inside tags only", ok=not bad, nontrivial=True, line=f.node.lineno)
    for c, why in bad[:1]:
        ctx.report("R12o", f, c, why.split("`")[1] if "`" in why else why,
                   f"Element._strip_namespaces: {why}; text or an attribute value that looks like ' xmlns:a=\"b\"' is deleted from the serialisation, so parsing it back does not give "
                   f"the element that was serialised")


def r12p(ctx, reg):
    """A memo and the attribute it remembers are written together.

    A few getters remember their answer in a plain attribute of the wrapper (`Style.family` in `_family`) and never look at the XML again.
    The setter of such a property must refresh the memo on every path, whatever else it does; a setter that updates only the XML leaves the
    instance answering the old value — and everything that is gated on it (family-specific properties, default property area) — while
    the serialised element, its clone and its re-parsed twin answer the new one.  Rule: for every explicit property of an element class
    whose getter stores into `self._x` and returns it, every normal path through the setter assigns `self._x`.
    """
    from ..paths import cfg_of, node_of
    repo = ctx.repo
    ctx.rule("R12p", "a property whose getter memoises in self._x has a setter that assigns self._x on every path", floor=1)
    n = 0
    for c in element_classes(repo) + [repo.cls("Element")]:
        for name, fs in c.methods.items():
            g = next((f for f in fs if f.kind == "getter" and f.cls is c), None)
            st = next((f for f in fs if f.kind == "setter" and f.cls is c), None)
            if g is None or st is None:
                continue
            memo = {t.attr for a in walk_no_nested(g.node) if isinstance(a, ast.Assign) for t in a.targets
                    if isinstance(t, ast.Attribute) and isinstance(t.value, ast.Name) and t.value.id == "self" and t.attr.startswith("_")}
            rets = {r.value.attr for r in walk_no_nested(g.node) if isinstance(r, ast.Return) and isinstance(r.value, ast.Attribute) and isinstance(r.value.value, ast.Name) and r.value.value.id == "self"}
            memo &= rets
            for m_ in sorted(memo):
                n += 1
                cfg = cfg_of(st)
                ws = [node_of(cfg, a) for a in walk_no_nested(st.node) if isinstance(a, (ast.Assign, ast.AugAssign)) and any(
                    isinstance(t, ast.Attribute) and t.attr == m_ and isinstance(t.value, ast.Name) and t.value.id == "self" for t in (a.targets if isinstance(a, ast.Assign) else [a.target]))]
                ws = [w for w in ws if w is not None]
                byp = cfg.path_avoiding(cfg.entry, cfg.exit, ws, follow_exc=False) if ws else [None]
                ok = bool(ws) and byp is None
                ctx.instance("R12p", f"{st.file}:{st.ident}", f"setter refreshes the memo self.{m_} of the getter on every path", ok=ok, nontrivial=True, line=st.node.lineno)
                if not ok:
                    ctx.report("R12p", st, st.node, f"{c.name}.{name} setter may leave self.{m_} unchanged",
                               f"the getter of {c.name}.{name} answers from the memo self.{m_} once it is set; its setter has a path that does not assign it: after a read, assigning the "
                               f"property changes the XML but the instance keeps answering the old value — it disagrees with its own serialisation, its clone and its re-parsed twin")
    if n == 0:
        raise AnalysisError("R12p: no memoising property found (Style.family expected)")


def r12q(ctx, reg):
    """Renaming a node does not change the class of the wrapper that is already around it.

    `elem.tag = "text:p"` renames the XML node; the Python object stays an instance of the class it was created with.  Where the old and the
    new tag belong to different registered classes, the object that is handed on is a `<text:p>` that is a Header: every other access path
    (re-parsing, clone, children, xpath) gives a Paragraph for the same node.  Rule: for every store `<x>.tag = <constant>` whose receiver's
    former tag is known (created with from_tag/constructor in the function, or tested with `<y>.tag == <constant>` in force for the value
    it was cloned from), the class registered for the new tag is the class registered for the old one.
    """
    repo = ctx.repo
    ctx.rule("R12q", "a wrapper is retagged only between tags of the same registered class", floor=2)
    tag2cls = {t: c.name for t, c in reg.tag2cls.items()}
    n = 0
    for f in repo.all_funcs():
        if "/scripts/" in f.file:
            continue
        for a in walk_no_nested(f.node):
            if not (isinstance(a, ast.Assign) and len(a.targets) == 1 and isinstance(a.targets[0], ast.Attribute) and a.targets[0].attr == "tag" and isinstance(a.targets[0].value, ast.Name)):
                continue
            new = repo.fold(a.value, f.module, f.cls)
            if not isinstance(new, str):
                if isinstance(a.value, ast.Attribute) and a.value.attr == "_tag" and isinstance(a.value.value, ast.Name) and repo.find_class(a.value.value.id) is not None:
                    new = repo.fold_class_const(repo.find_class(a.value.value.id), "_tag")
            if not isinstance(new, str):
                continue
            x = a.targets[0].value.id
            old = None
            # created here
            for d in walk_no_nested(f.node):
                if isinstance(d, ast.Assign) and any(isinstance(t, ast.Name) and t.id == x for t in d.targets) and d.lineno < a.lineno:
                    v = d.value
                    src = v.value if isinstance(v, ast.Attribute) and v.attr == "clone" else v
                    if isinstance(src, ast.Call) and call_name(src) == "from_tag" and src.args:
                        t_ = repo.fold(src.args[0], f.module)
                        old = t_ if isinstance(t_, str) and not t_.startswith("<") else old
                    elif isinstance(src, ast.Call) and isinstance(src.func, ast.Name) and repo.find_class(src.func.id) is not None:
                        t_ = repo.fold_class_const(repo.find_class(src.func.id), "_tag")
                        old = t_ if isinstance(t_, str) else old
                    elif isinstance(src, ast.Name):
                        # cloned from / alias of a value whose tag is tested in force
                        for t, pol in structural_guards(a, stop=f.node):
                            if pol and isinstance(t, ast.Compare) and len(t.ops) == 1 and isinstance(t.ops[0], ast.Eq) and isinstance(t.left, ast.Attribute) and t.left.attr == "tag" \
                                    and isinstance(t.left.value, ast.Name) and t.left.value.id == src.id:
                                t_ = repo.fold(t.comparators[0], f.module)
                                old = t_ if isinstance(t_, str) else old
            n += 1
            if old is None:
                ctx.instance("R12q", f"{f.file}:{f.ident}", f"`{norm(a, 40)}`: former tag not known here", ok=True, line=a.lineno)
                continue
            co, cn = tag2cls.get(old, "Element"), tag2cls.get(new, "Element")
            ok = co == cn
            ctx.instance("R12q", f"{f.file}:{f.ident}", f"`{norm(a, 40)}`: {old} ({co}) -> {new} ({cn})", ok=ok, nontrivial=True, line=a.lineno)
            if not ok:
                ctx.report("R12q", f, a, norm(a, 60),
                           f"{f.ident} renames a node wrapped as {co} ({old}) to {new}, the tag of {cn}: the object handed on is a <{new}> of class {co}, while parsing the same XML, "
                           f"cloning it or reaching it through children/xpath gives a {cn}")
    if n < 2:
        raise AnalysisError("R12q: tag stores not found")


def r12m(ctx, reg):
    """Explicit property accessors do not rewrite the value either.

    Same obligation as R12l for the ~130 hand-written getters and setters of the element classes: between the caller's value and
    set_attribute()/the child text (and back) there is no strip(), case change, normalisation, replace() or re.sub().  The accessors of the
    pinned tree are clean except two documented normalisations, frozen below with their reason; a new one is reported.
    """
    from .c14 import _lossy_call
    repo = ctx.repo
    ctx.rule("R12m", "explicit property getters/setters of element classes apply no lossy string transformation (2 frozen, documented exceptions)", floor=100)
    seen_exc = set()
    for c in element_classes(repo) + [repo.cls("Element")]:
        for name, fs in c.methods.items():
            for f in fs:
                if f.kind not in ("getter", "setter") or f.cls is not c:
                    continue
                key = (f"{c.name}.{name}", f.kind)
                bad = [x for x in walk_no_nested(f.node) if isinstance(x, ast.Call) and _lossy_call(x)]
                if key in ACCESSOR_EXCEPTIONS:
                    seen_exc.add(key)
                    ctx.instance("R12m", f"{f.file}:{f.ident}", f"frozen exception: {ACCESSOR_EXCEPTIONS[key]}", ok=True, nontrivial=True, line=f.node.lineno)
                    continue
                ctx.instance("R12m", f"{f.file}:{f.ident}", f"{f.kind}: no lossy transformation", ok=not bad, nontrivial=bool(bad), line=f.node.lineno)
                for x in bad[:2]:
                    ctx.report("R12m", f, x, f"{norm(x, 50)} in the {f.kind} of {c.name}.{name}",
                               f"the {f.kind} of {c.name}.{name} rewrites the value with `{norm(x, 40)}`: a constructor argument or assigned value that the rewrite changes "
                               f"is not what the property gives back after the round trip")
    for key in ACCESSOR_EXCEPTIONS:
        if key not in seen_exc:
            ctx.note(f"R12m: frozen exception {key} no longer exists")


_FIXTURE_R = '''
class Frame:
    def __init__(self, name=None, presentation_class=None, presentation_style=None, layer=None):
        pass
    @classmethod
    def text_frame(cls, text, presentation_class=None, presentation_style=None, layer=None):
        return cls(presentation_class=presentation_class, presentation_style=presentation_class, layer=layer)
    @classmethod
    def image_frame(cls, image, presentation_class=None, presentation_style=None, layer=None):
        return cls(presentation_class=presentation_class, presentation_style=presentation_style, layer=layer)
'''


def _crossed_keywords(fn: ast.FunctionDef, callee_params):
    """keywords `a=b` of calls in fn where a and b are both parameters of fn, a != b, and the callee declares both a and b"""
    own = {a.arg for a in fn.args.posonlyargs + fn.args.args + fn.args.kwonlyargs} - {"self", "cls"}
    out = []
    for c in walk_no_nested(fn):
        if not isinstance(c, ast.Call):
            continue
        for k in c.keywords:
            if k.arg and isinstance(k.value, ast.Name) and k.value.id in own and k.arg in own and k.arg != k.value.id:
                if any({k.arg, k.value.id} <= ps for ps in callee_params(c)):
                    out.append((c, k))
    return out


def r12r(ctx):
    """An argument is handed on under its own name.

    The factories (`Frame.text_frame`, `Frame.image_frame`, `Table.…`) and the shortcuts take the same keyword arguments as the constructor
    they call and forward them one by one.  A copied line with only its left side edited — `presentation_style=presentation_class` — still
    type-checks: the value of one argument is stored under the other's attribute, and the argument that should have gone there is dropped.
    Rule (expected count 0, fixture evaluated on every run): no call passes `a=b` where a and b are two different parameters of the calling
    function and the callee declares both.
    """
    repo = ctx.repo
    ctx.rule("R12r", "no keyword argument is fed from a sibling parameter that the callee also declares", floor=200)
    tree = ast.parse(_FIXTURE_R)
    init_ps = [{"name", "presentation_class", "presentation_style", "layer"}]
    got = sorted(fn.name for fn in ast.walk(tree) if isinstance(fn, ast.FunctionDef) and _crossed_keywords(fn, lambda c: init_ps))
    if got != ["text_frame"]:
        raise AnalysisError(f"R12r fixture: detector broken: {got}")
    byname: dict[str, list[set]] = {}
    for g in repo.all_funcs():
        byname.setdefault(g.name, []).append({a.arg for a in g.all_params()})
    for c in repo.all_classes():
        for g in c.methods.get("__init__", []):
            byname.setdefault(c.name, []).append({a.arg for a in g.all_params()})
    for f in repo.all_funcs():
        if f.kind == "nested":
            continue

        def callee_params(call, f=f):
            nm = call_name(call)
            if nm == "cls" and f.cls is not None:
                g = f.cls.lookup("__init__")
                return [{a.arg for a in g.all_params()}] if g is not None else []
            return byname.get(nm, [])

        bad = _crossed_keywords(f.node, callee_params)
        has_kw = any(isinstance(c, ast.Call) and c.keywords for c in walk_no_nested(f.node))
        if not has_kw:
            continue
        ctx.instance("R12r", f"{f.file}:{f.ident}", "keywords forwarded under their own names", ok=not bad, nontrivial=bool(bad), line=f.node.lineno)
        for c, k in bad[:1]:
            ctx.report("R12r", f, c, f"{k.arg}={k.value.id}",
                       f"{f.ident} passes its parameter `{k.value.id}` as `{k.arg}=` to `{call_name(c)}`, which has a parameter `{k.value.id}` of its own: the value lands under the wrong "
                       f"attribute and the caller's `{k.arg}` is dropped — the object does not expose what it was built with")


def r12s(ctx):
    """from_tag wraps a node in the class registered for its tag, whoever is asked.

    `Element.from_tag` is the one door from lxml nodes to wrappers: parsing, `children`, `get_elements`, `xpath` and `clone` all end there, and
    it looks the node's tag up in `_class_registry`.  Called on a subclass (`Paragraph.from_tag(node)`, or `self.from_tag(copy)` at the end of
    clone) it must still answer with the registered class: after a retag the wrapper's own class is the old one.  A shortcut "the class is
    already known" gives a clone another class than the re-parsed element has.  Rule: every wrapper that from_tag returns is built by a class
    taken from the registry (a local bound from `_class_registry.get(…)` / `_class_registry[…]`), never directly by `cls`.
    """
    repo = ctx.repo
    ctx.rule("R12s", "Element.from_tag builds every wrapper with the class looked up in the registry", floor=1)
    n = 0
    for q in ("Element.from_tag", "Element.from_tag_for_clone"):
        f = repo.find_func(q)
        if f is None:
            continue
        # the registry, or a module-level helper that reads it
        readers = {"_class_registry"} | {g.name for g in repo.all_funcs() if g.cls is None and g.file == f.file
                                         and any(isinstance(x, ast.Name) and x.id == "_class_registry" for x in ast.walk(g.node))}
        from_reg = {a.targets[0].id for a in walk_no_nested(f.node) if isinstance(a, ast.Assign) and len(a.targets) == 1 and isinstance(a.targets[0], ast.Name)
                    and any(isinstance(x, ast.Name) and x.id in readers for x in ast.walk(a.value))}
        for r in [x for x in walk_no_nested(f.node) if isinstance(x, ast.Return) and isinstance(x.value, ast.Call)]:
            c = r.value
            if not (any(k.arg == "tag_or_elem" for k in c.keywords) or c.args):
                continue
            n += 1
            ok = isinstance(c.func, ast.Name) and c.func.id in from_reg
            ctx.instance("R12s", f"{f.file}:{f.ident}", f"{norm(r, 40)}: class from the registry", ok=ok, nontrivial=True, line=r.lineno)
            if not ok:
                ctx.report("R12s", f, r, norm(r, 50),
                           f"{f.ident} returns `{norm(c, 40)}`, a wrapper built without looking the node's tag up in the registry: called on a subclass — as `clone` does with "
                           f"`self.from_tag(copy)` — it answers with the caller's class, so a retagged element clones into another class than the one it parses back as")
    if n < 1:
        raise AnalysisError("R12s: no wrapper-returning statement found in Element.from_tag")


def run(ctx):
    reg = build_registry(ctx.repo)
    ctx.extra["registry"] = {"modules_in_import_order": len(reg.order), "registrations": len(reg.regs), "tags": len(reg.tag2cls),
                             "classes_registered": len(reg.classes_registered()), "define_attribut_property_calls": len(reg.define_order)}
    r12a(ctx, reg)
    r12b(ctx, reg)
    r12c(ctx, reg)
    r12d(ctx, reg)
    r12e(ctx, reg)
    r12f(ctx, reg)
    r12gh(ctx, reg)
    r12i(ctx, reg)
    r12j(ctx, reg)
    r12k(ctx, reg)
    r12l(ctx, reg)
    r12m(ctx, reg)
    r12n(ctx, reg)
    r12o(ctx, reg)
    r12p(ctx, reg)
    r12q(ctx, reg)
    r12r(ctx)
    r12s(ctx)
    # `clone` is one of the access paths of the property: a clone must be a detached copy of its own (rules shared with C10)
    from .c10 import r10c, r10g
    r10c(ctx)
    r10g(ctx)
    # "parsing that XML yields … an equal XML infoset": no parser of the package may drop content (rule shared with C11)
    from .c11 import r11h
    r11h(ctx)
    # "any valid constructor arguments" include dates and durations (VarTime(time_adjust=…), typed values): the argument is exposed again only if the
    # codecs are inverse (rules shared with C18)
    from .c18 import r18b, r18d
    r18b(ctx)
    r18d(ctx)
    from .round12 import r12t
    r12t(ctx)
    from .round12 import r12u
    r12u(ctx)


from ..selftest import Seed, unparse_seed  # noqa: E402

SEEDS = [
    Seed("DrawGroup loses its pos_y PropDef", "fault", "src/odfdo/shapes.py",
         "        PropDef(\"pos_x\", \"svg:x\"),\n        PropDef(\"pos_y\", \"svg:y\"),\n    )\n", "        PropDef(\"pos_x\", \"svg:x\"),\n    )\n", "R12u"),
    Seed("Element.parent hides a parentless wrapper element", "fault", "src/odfdo/element.py",
         "        if parent is None:\n            # Already at root\n            return None\n        return Element.from_tag(parent)",
         "        if parent is None:\n            # Already at root\n            return None\n        if parent.getparent() is None and len(parent) == 1:\n            return None\n        return Element.from_tag(parent)", "R12t"),
    Seed("Element.parent tests for a parent first", "neutral", "src/odfdo/element.py",
         "        if parent is None:\n            # Already at root\n            return None\n        return Element.from_tag(parent)",
         "        if parent is not None:\n            return Element.from_tag(parent)\n        else:\n            return None"),
    Seed("from_tag skips the registry when called on a specialised class", "fault", "src/odfdo/element.py",
         "        klass = _class_registry.get(elem.tag, cls)\n        return klass(tag_or_elem=elem)", "        if cls._tag and not isinstance(tag_or_elem, str):\n            return cls(tag_or_elem=elem)\n        klass = _class_registry.get(elem.tag, cls)\n        return klass(tag_or_elem=elem)", "R12s"),
    Seed("Frame.text_frame feeds presentation_style from presentation_class", "fault", "src/odfdo/frame.py",
         "            presentation_style=presentation_style,\n            **kwargs,\n        )\n        frame.set_text_box(", "            presentation_style=presentation_class,\n            **kwargs,\n        )\n        frame.set_text_box(", "R12r"),
    Seed("creator read with an absolute XPath again", "fault", "src/odfdo/mixin_dc_creator.py",
         '        element = self.get_element("descendant::dc:creator")\n        if element is None:\n            return None', '        element = self.get_element("//dc:creator")\n        if element is None:\n            return None', "R12k"),
    Seed("TOC reads its outline level from the first TOC source of the document", "fault", "src/odfdo/toc.py",
         'source = self.get_element("text:table-of-content-source")\n        if source is None:\n            return None\n        return source.get_attribute_integer("text:outline-level")',
         'source = self.get_element("//text:table-of-content-source")\n        if source is None:\n            return None\n        return source.get_attribute_integer("text:outline-level")', "R12k"),
    Seed("Annotation sets its body last", "fault", "src/odfdo/note.py",
         "            self.note_body = text_or_element  # type:ignore\n            if creator:\n                self.creator = creator\n",
         "            if creator:\n                self.creator = creator\n            self.note_body = text_or_element  # type:ignore\n", "R12j"),
    Seed("Cell sets its style before its value", "fault", "src/odfdo/cell.py",
         "            if style is not None:\n                self.style = style\n\n    def __repr__", "            pass\n\n    def __repr__", "R12j",
         edits=[("src/odfdo/cell.py", "        if self._do_init:\n            self.set_value(\n                value,", "        if self._do_init:\n            if style is not None:\n                self.style = style\n            self.set_value(\n                value,")]),
    Seed("Annotation stores its name before the creator", "neutral", "src/odfdo/note.py",
         "            if creator:\n                self.creator = creator\n            if date is None:\n                date = datetime.now()\n            self.date = date\n            if not name:\n                name = get_unique_office_name(parent)\n            self.name = name\n",
         "            if not name:\n                name = get_unique_office_name(parent)\n            self.name = name\n            if creator:\n                self.creator = creator\n            if date is None:\n                date = datetime.now()\n            self.date = date\n"),
    Seed("PropDef setter trims the value", "fault", "src/odfdo/element.py", "            self.__element.set(name, str(value))", "            self.__element.set(name, str(value).strip())", "R12l"),
    Seed("PropDef setter trims through a local", "fault", "src/odfdo/element.py", "            self.__element.set(name, str(value))", "            text = str(value)\n            text = text.strip()\n            self.__element.set(name, text)", "R12l"),
    Seed("get_attribute_string lower-cases", "fault", "src/odfdo/element.py", "        if value is None:\n            return None\n        return str(value)\n\n    def set_attribute(", "        if value is None:\n            return None\n        return str(value).lower()\n\n    def set_attribute(", "R12l"),
    Seed("set_attribute truncates", "fault", "src/odfdo/element.py", "        element.set(lxml_tag, str(value))", "        element.set(lxml_tag, str(value)[:255])", "R12l"),
    Seed("PropDef getter substitutes a default", "fault", "src/odfdo/element.py", "            elif value in (\"true\", \"false\"):\n                return Boolean.decode(value)\n            return str(value)\n\n        return getter", "            elif value in (\"true\", \"false\"):\n                return Boolean.decode(value)\n            return str(value) or None\n\n        return getter", "R12l"),
    Seed("Section.name setter is not that; Table.protection_key setter trims the key", "fault", "src/odfdo/table.py",
         '        self.set_attribute("table:protection-key", key)', '        self.set_attribute("table:protection-key", key.strip())', "R12m"),
    Seed("Table.protection_key getter lower-cases", "fault", "src/odfdo/table.py",
         '        return self.get_attribute_string("table:protection-key")', '        key = self.get_attribute_string("table:protection-key")\n        return key.lower() if key else key', "R12m"),
    Seed("get_attribute treats an empty value as absent", "fault", "src/odfdo/element.py",
         "        value = element.get(lxml_tag)\n        if value is None:\n            return None\n        elif value in (\"true\", \"false\"):",
         "        value = element.get(lxml_tag)\n        if not value:\n            return None\n        if value in (\"true\", \"false\"):", "R12l"),
    Seed("_decode_qname lower-cases the name", "fault", "src/odfdo/element.py", '    if ":" in qname:\n        prefix, name = qname.split(":")', '    qname = qname.strip().lower()\n    if ":" in qname:\n        prefix, name = qname.split(":")', "R12n"),
    Seed("_decode_qname splits on the first colon only", "neutral", "src/odfdo/element.py", '        prefix, name = qname.split(":")', '        prefix, name = qname.split(":", 1)'),
    Seed("_strip_namespaces runs over the whole text again", "fault", "src/odfdo/element.py",
         '        return _re_tag.sub(lambda tag: _re_xmlns.sub("", tag.group()), data)', '        return _re_xmlns.sub("", data)', "R12o"),
    Seed("_strip_namespaces accepts single-quoted declarations", "fault", "src/odfdo/element.py",
         '_re_xmlns = re.compile(r\' xmlns:\\w*="[\\w:\\-\\/\\.#]*"\')', '_re_xmlns = re.compile(r""" xmlns:\\w*=(["\'])[\\w:\\-\\/\\.#]*\\1""")', "R12o"),
    Seed("Style.family setter leaves the memo alone for standard families", "fault", "src/odfdo/style.py",
         '        self._family = family\n        if family in FAMILY_ODF_STD and self.tag == "style:style":\n            self.set_attribute("style:family", family)',
         '        if family in FAMILY_ODF_STD and self.tag == "style:style":\n            self.set_attribute("style:family", family)\n        else:\n            self._family = family', "R12p"),
    Seed("get_deleted(no_header) retags a clone of the heading", "fault", "src/odfdo/tracked_changes.py",
         '                    para = Element.from_tag("text:p")\n                    para.text = text\n                    for child in children:\n                        para.append(child.clone)',
         '                    para = element.clone\n                    para.tag = "text:p"', "R12q"),
    Seed("PropDef setter names its sink arguments", "neutral", "src/odfdo/element.py", "            self.__element.set(name, str(value))", "            elem = self.__element\n            text = str(value)\n            elem.set(name, text)"),
    Seed("unregister Section", "fault", "src/odfdo/section.py", "register_element_class(Section)\n", "", "R12a"),
    Seed("Span registered for text:a too (shadowing Link)", "fault", "src/odfdo/paragraph.py",
         "register_element_class(Span)", 'register_element_class_list(Span, ("text:span", "text:a"))', "R12a"),
    Seed("drop Frame._define_attribut_property()", "fault", "src/odfdo/frame.py", "Frame._define_attribut_property()\n", "", "R12b"),
    Seed("Header(style) commented out again", "fault", "src/odfdo/header.py",
         "            if style:\n                self.style = style\n", "            # if style:\n            #     self.style = style\n", "R12c"),
    Seed("Section name stored only when absent", "fault", "src/odfdo/section.py",
         "            if name:\n                self.name = name", "            if not name:\n                self.name = 'Section1'", "R12c"),
    Seed("rename IndexTitle parameter at the definition only", "fault", "src/odfdo/toc.py",
         "        title_text_style: str | None = None,\n        xml_id: str | None = None,\n        **kwargs: Any,\n    ) -> None:\n        super().__init__(**kwargs)\n        if self._do_init:\n            if name:",
         "        text_style_of_title: str | None = None,\n        xml_id: str | None = None,\n        **kwargs: Any,\n    ) -> None:\n        title_text_style = text_style_of_title\n        super().__init__(**kwargs)\n        if self._do_init:\n            if name:", "R12d"),
    Seed("direct wrapper construction bypassing the registry", "fault", "src/odfdo/element.py",
         "            return Element.from_tag(result[0])  # type:ignore\n        return None\n\n    def _get_element_idx(",
         "            return Element(tag_or_elem=result[0])  # type:ignore\n        return None\n\n    def _get_element_idx(", "R12e"),
    Seed("registry lookup memoised", "fault", "src/odfdo/element.py",
         "        klass = _class_registry.get(elem.tag, cls)\n        return klass(tag_or_elem=elem)",
         "        klass = _registered_class(elem.tag) or cls\n        return klass(tag_or_elem=elem)", "R12e",
         edits=[("src/odfdo/element.py", "def register_element_class(cls: type[Element]) -> None:", "@cache\ndef _registered_class(tag):\n    return _class_registry.get(to_str(tag))\n\n\ndef register_element_class(cls: type[Element]) -> None:")]),
    Seed("registry lookup through a plain helper", "neutral", "src/odfdo/element.py",
         "        klass = _class_registry.get(elem.tag, cls)\n        return klass(tag_or_elem=elem)",
         "        klass = _registered_class(elem.tag) or cls\n        return klass(tag_or_elem=elem)",
         edits=[("src/odfdo/element.py", "def register_element_class(cls: type[Element]) -> None:", "def _registered_class(tag):\n    return _class_registry.get(to_str(tag))\n\n\ndef register_element_class(cls: type[Element]) -> None:")]),
    Seed("unknown prefix in a PropDef", "fault", "src/odfdo/section.py", 'PropDef("name", "text:name")', 'PropDef("name", "txt:name")', "R12f"),
    Seed("unknown prefix in set_attribute", "fault", "src/odfdo/table.py",
         'self.set_attribute("table:protection-key", key)', 'self.set_attribute("tabel:protection-key", key)', "R12f"),
    Seed("Table(protection_key) mis-stored", "fault", "src/odfdo/table.py",
         "                self.protection_key = protection_key", "                self.set_protection_key = protection_key", "R12g"),
    Seed("Column(default_cell_style) stored on a typo", "fault", "src/odfdo/table.py",
         "                self.default_cell_style = default_cell_style", "                self.default_cel_style = default_cell_style", "R12g"),
    Seed("BackgroundImage cross-wired", "fault", "src/odfdo/style.py",
         "                self.opacity = opacity", "                self.position = opacity", "R12h"),
    Seed("Table.protection_key getter reads another attribute", "fault", "src/odfdo/table.py",
         'return self.get_attribute_string("table:protection-key")', 'return self.get_attribute_string("table:protection-key-digest-algorithm")', "R12i"),
    Seed("conflicting PropDef", "fault", "src/odfdo/style.py",
         '        PropDef("style_position", "style:position"),\n', '        PropDef("style_position", "style:position"),\n        PropDef("leader_text", "style:position"),\n', "R12b"),
    unparse_seed("src/odfdo/toc.py"), unparse_seed("src/odfdo/style.py"), unparse_seed("src/odfdo/table.py"),
    unparse_seed("src/odfdo/element.py"), unparse_seed("src/odfdo/variable.py"), unparse_seed("src/odfdo/frame.py"),
    Seed("constructor argument through a derived local", "neutral", "src/odfdo/section.py",
         "            if name:\n                self.name = name", "            if name:\n                label = name.strip() or name\n                self.name = label"),
]
