"""C08 — getters return addressed, expanded, detached copies (structural clauses).

R08a  detachment: documented-copy getters return DETACHED wrappers under the default flags (TOM escape analysis)
R08b  coordinates: every returned cell carries x and y, rows y, columns x (TOM stamps)
R08c  expansion clears repeats: in the expanding traversals the clone loses its repeat whenever the run is longer
      than 1 or the range starts inside a run; the test reads the x that was stamped (sibling agreement)
R08d  reading outside the populated area returns a fresh empty object and mutates nothing
R08e  clone=True is the default of every getter that documents copies
"""

from __future__ import annotations

import ast

from ..core import UNKNOWN, AnalysisError, FuncInfo, body_no_doc, call_name, get_arg, is_self_attr, norm, walk_no_nested
from ..paths import structural_guards
from ..tomrun import COPY_GETTERS, run_tom

EXPLANATION = (
    "R08a/R08b come from the table-object-model interpreter run with the documented default flags: every value "
    "returned or yielded by the 16 documented-copy getters is traced to its provenance (cached wrapper, other live "
    "wrapper, clone/new object) through all inlined helpers, and its coordinate stamps are tracked. R08c compares the "
    "two expanding traversals (Row.traverse, Table.traverse_columns; two arms each) structurally: clone, stamp, "
    "repeat-clearing test, increment, in an order in which the test reads the stamped x. R08d checks the "
    "outside-the-area arms. Correctness of coordinate values, ranges (C19) and filters is not decided."
)
ASSUMPTIONS = [
    "Element.clone deep-copies the node (R10c) — a clone is detached",
    "position maps are consistent with the XML (C02), so a run length of 1 means the item has no repeat attribute",
]


def r08ab(ctx, tom):
    ctx.rule("R08a", "documented-copy getters hand out detached wrappers under the default flags", floor=12)
    ctx.rule("R08b", "returned cells carry x and y, rows y, columns x", floor=12)
    for rule, f, node, construct, message, path in tom.findings:
        if rule in ("R08a", "R08b"):
            ctx.report(rule, f, node, construct, message, path)
    for rule, where, what, ok, line in tom.instances:
        if rule in ("R08a", "R08b"):
            ctx.instance(rule, where, what, ok=ok, nontrivial=True, line=line)
    ctx.extra["tom"] = tom.stats


def _arms(f: FuncInfo):
    """The innermost `for _i in range(repeated …)` loops of an expanding traversal: one per arm."""
    out = []
    for n in walk_no_nested(f.node):
        if isinstance(n, ast.For) and isinstance(n.iter, ast.Call) and call_name(n.iter) == "range" and "repeated" in ast.unparse(n.iter):
            out.append(n)
    return out


def r08c(ctx):
    repo = ctx.repo
    ctx.rule("R08c", "expanding traversals: clone, stamp, clear the repeat (run > 1, or range starting inside a run, tested on the stamped x), then advance", floor=4)
    for q, var in (("Row.traverse", "cell"), ("Table.traverse_columns", "column")):
        f = repo.func(q)
        arms = _arms(f)
        if len(arms) != 2:
            raise AnalysisError(f"R08c: expected two expansion loops in {q}, found {len(arms)}")
        for i, loop in enumerate(arms):
            # flatten the statements that handle one yielded item (inside optional `if x <= end:` / `if var is None … else`)
            stmts: list[ast.stmt] = []

            def flat(body):
                for s in body:
                    if isinstance(s, ast.If) and not any(isinstance(x, ast.Yield) for x in ast.walk(s.test)):
                        t = ast.unparse(s.test)
                        if "repeated" in t and any(isinstance(a, ast.Assign) and isinstance(a.targets[0], ast.Attribute) and a.targets[0].attr == "repeated"
                                                   for a in ast.walk(s)):
                            stmts.append(s)  # the repeat-clearing test
                        else:
                            flat(s.body)
                            flat(s.orelse)
                    else:
                        stmts.append(s)

            flat(loop.body)
            idx = {}
            for k, s in enumerate(stmts):
                u = ast.unparse(s)
                if isinstance(s, ast.Assign) and u.replace(" ", "") == f"{var}={var}.clone":
                    idx.setdefault("clone", k)
                if isinstance(s, ast.Assign) and isinstance(s.targets[0], ast.Attribute) and s.targets[0].attr == "x" and ast.unparse(s.targets[0].value) == var:
                    idx.setdefault("stamp", k)
                if isinstance(s, ast.If) and "repeated" in ast.unparse(s.test) and f"{var}.repeated = None" in u:
                    idx.setdefault("clear", k)
                    clear_test = s.test
                if isinstance(s, ast.AugAssign) and isinstance(s.target, ast.Name) and s.target.id == "x":
                    idx.setdefault("advance", k)
                if isinstance(s, ast.Expr) and isinstance(s.value, ast.Yield):
                    idx.setdefault("yield", k)
            ranged = "start" in ast.unparse(loop) or "end" in ast.unparse(loop)
            where = f"{f.file}:{f.ident}"
            need = ["clone", "stamp", "clear", "advance", "yield"]
            missing = [k for k in need if k not in idx]
            ok = not missing
            why = f"missing {missing}" if missing else ""
            if ok:
                reads_x = any(isinstance(x, ast.Name) and x.id == "x" for x in ast.walk(clear_test))
                t = ast.unparse(clear_test).replace(" ", "")
                has_run = "repeated>1" in t
                has_inside = ("x==start" in t and "start>0" in t)
                if not has_run:
                    ok, why = False, "the repeat is not cleared when the run is longer than 1"
                elif ranged and not has_inside:
                    ok, why = False, "the repeat is not cleared when the range starts inside a run (x == start and start > 0)"
                elif reads_x and not (idx["stamp"] < idx["advance"] and idx["clear"] < idx["advance"]):
                    ok, why = False, "x is advanced between the stamp and the test that reads it"
                elif not (idx["clone"] < idx["clear"] < idx["yield"] and idx["clone"] < idx["stamp"] < idx["yield"]):
                    ok, why = False, "clone / stamp / clear are not all before the yield"
                elif not idx["advance"] < idx["yield"] and "advance" in idx and idx["advance"] > idx["yield"]:
                    ok, why = True, ""
            ctx.instance("R08c", where, f"arm {i + 1} ({'range' if ranged else 'full'}): order {sorted(idx, key=idx.get)} {why}", ok=ok, nontrivial=True, line=loop.lineno)
            if not ok:
                ctx.report("R08c", f, loop, f"{q} arm {i + 1}: {why}",
                           f"expanding traversal {q} ({'range' if ranged else 'full'} arm): {why}; a returned copy can still carry a repeat count")
        # each expansion step is bounded by the end of the range
        ranged_loops = [l for l in arms if "end" in ast.unparse(l)]
        for l in ranged_loops:
            okb = any(isinstance(n, ast.If) and ast.unparse(n.test).replace(" ", "") == "x<=end" for n in ast.walk(l))
            ctx.instance("R08c", f"{f.file}:{f.ident}", "range arm yields only while x <= end", ok=okb, line=l.lineno)
            if not okb:
                ctx.report("R08c", f, l, f"{q}: no `x <= end` bound", f"{q} range arm is not bounded on the right by `x <= end`")


def r08d(ctx):
    repo = ctx.repo
    ctx.rule("R08d", "reading outside the populated area returns a fresh empty object without touching the table", floor=4)
    specs = [("Table.get_cell", "y >= self.height", "Cell"), ("Table._get_row2", "y >= self.height", "Row"),
             ("Row._get_cell2", "x >= self.width", "Cell"), ("Table._get_column2", "x >= self.width", "Column")]
    for q, test, cls in specs:
        f = repo.func(q)
        ok = False
        for n in walk_no_nested(f.node):
            if isinstance(n, ast.If) and ast.unparse(n.test).replace(" ", "") == test.replace(" ", ""):
                calls = [c for s in n.body for c in ast.walk(s) if isinstance(c, ast.Call)]
                makes = [c for c in calls if call_name(c) == cls and not c.args and not c.keywords]
                others = [c for c in calls if call_name(c) not in (cls, "ValueError")]
                ok = bool(makes) and not others
        ctx.instance("R08d", f"{f.file}:{f.ident}", f"`if {test}:` returns a new empty {cls}() and calls nothing else", ok=ok, nontrivial=True)
        if not ok:
            ctx.report("R08d", f, f.node, f"{q}: outside-area arm", f"{q} no longer answers a read beyond the populated area with a fresh empty {cls}()")
    g = repo.func("Table.get_value")
    ok = any(isinstance(n, ast.If) and ast.unparse(n.test).replace(" ", "") == "y>=self.height" and
             not any(isinstance(c, ast.Call) for s in n.body for c in ast.walk(s)) for n in walk_no_nested(g.node))
    ctx.instance("R08d", f"{g.file}:{g.ident}", "`if y >= self.height:` returns None without any call", ok=ok)
    if not ok:
        ctx.report("R08d", g, g.node, "Table.get_value outside-area arm", "Table.get_value outside the table no longer returns None without side effect")


def r08e(ctx):
    repo = ctx.repo
    ctx.rule("R08e", "clone=True is the default wherever a getter takes a clone flag, and the flag selects .clone", floor=5)
    for cname in ("Table", "Row"):
        c = repo.cls(cname)
        for name, fs in sorted(c.methods.items()):
            f = fs[0]
            d = f.defaults()
            if "clone" not in d or not name.lstrip("_").startswith("get"):
                continue
            ok = isinstance(d["clone"], ast.Constant) and d["clone"].value is True
            ctx.instance("R08e", f"{f.file}:{cname}.{name}", "clone defaults to True", ok=ok, line=f.node.lineno)
            if not ok:
                ctx.report("R08e", f, f.node, f"{cname}.{name}(clone={ast.unparse(d['clone'])})", "a getter documented as returning copies defaults to clone=False")


def run(ctx):
    tom = run_tom(ctx.repo)
    r08ab(ctx, tom)
    r08c(ctx)
    r08d(ctx)
    r08e(ctx)


from ..selftest import Seed, unparse_seed  # noqa: E402

_T = "src/odfdo/table.py"
_R = "src/odfdo/row.py"
SEEDS = [
    Seed("_yield_odf_rows yields the live row again", "fault", _T, "            if row.repeated is None:\n                yield row.clone", "            if row.repeated is None:\n                yield row", "R08a"),
    Seed("_get_row2 returns the cached row", "fault", _T, "        if clone:\n            return row.clone\n        return row\n\n    def _get_row2_base(", "        return row\n\n    def _get_row2_base(", "R08a"),
    Seed("Row._get_cell2 returns the cached cell", "fault", _R, "        if clone:\n            return self._get_cell2_base(x).clone  # type: ignore\n        else:\n            return self._get_cell2_base(x)",
         "        return self._get_cell2_base(x)", "R08a"),
    Seed("Row.traverse yields the cached cell", "fault", _R,
         "                    if cell is None:\n                        cell = Cell()\n                    else:\n                        cell = cell.clone\n                        if repeated > 1:\n                            cell.repeated = None\n                    cell.y = self.y",
         "                    if cell is None:\n                        cell = Cell()\n                    cell.y = self.y", "R08a"),
    Seed("_get_column2 returns the live column", "fault", _T, "            return column.clone  # type: ignore\n", "            return column  # type: ignore\n", "R08a"),
    Seed("get_column_cells asks for live cells", "fault", _T, "            for row in self.traverse():\n                cells.append(row.get_cell(x, clone=True))\n            return cells",
         "            for row in self._get_rows():\n                cells.append(row.get_cell(x, clone=False))\n            return cells", "R08a"),
    Seed("Table.get_cell forgets cell.x", "fault", _T, "        cell.x = x\n        cell.y = y\n        return cell", "        cell.y = y\n        return cell", "R08b"),
    Seed("Table.traverse forgets row.y", "fault", _T, "            row.y = y\n            yield row", "            yield row", "R08b"),
    Seed("get_column forgets column.x", "fault", _T, "        column.x = x\n        return column", "        return column", "R08b"),
    Seed("traverse_columns advances x before the test again", "fault", _T,
         "                        column.x = x\n                        if repeated > 1 or (x == start and start > 0):\n                            column.repeated = None\n                        x += 1",
         "                        column.x = x\n                        x += 1\n                        if repeated > 1 or (x == start and start > 0):\n                            column.repeated = None", "R08c"),
    Seed("Row.traverse range arm forgets the inside-run case", "fault", _R,
         "                            if repeated > 1 or (x == start and start > 0):\n                                cell.repeated = None", "                            if repeated > 1:\n                                cell.repeated = None", "R08c"),
    Seed("Row.traverse full arm keeps repeats", "fault", _R,
         "                        cell = cell.clone\n                        if repeated > 1:\n                            cell.repeated = None\n                    cell.y = self.y", "                        cell = cell.clone\n                    cell.y = self.y", "R08c"),
    Seed("Table.get_cell outside the table grows it", "fault", _T, "        if y >= self.height:\n            cell = Cell()\n        else:\n            # Inside the defined table\n            row = self._get_row2_base(y)",
         "        if y >= self.height:\n            cell = self.set_cell((x, y), Cell())\n        else:\n            # Inside the defined table\n            row = self._get_row2_base(y)", "R08d"),
    Seed("Row.get_cell defaults to clone=False", "fault", _R, "    def get_cell(self, x: int, clone: bool = True) -> Cell | None:", "    def get_cell(self, x: int, clone: bool = False) -> Cell | None:", "R08"),
    unparse_seed(_T), unparse_seed(_R),
]
