"""C08 — getters return addressed, expanded, detached copies (structural clauses).

R08a  detachment: documented-copy getters return DETACHED wrappers under the default flags (TOM escape analysis)
R08b  coordinates: every returned cell carries x and y, rows y, columns x (TOM stamps)
R08c  expansion clears repeats: in the expanding traversals the clone loses its repeat whenever the run is longer
      than 1 or the range starts inside a run; the test reads the x that was stamped (sibling agreement)
R08d  reading outside the populated area returns a fresh empty object and mutates nothing
R08e  clone=True is the default of every getter that documents copies
"""

from __future__ import annotations

import ast

from ..core import UNKNOWN, AnalysisError, FuncInfo, body_no_doc, call_name, get_arg, is_self_attr, norm, walk_no_nested
from ..paths import enclosing_loops, structural_guards
from ..tomrun import COPY_GETTERS, run_tom

EXPLANATION = (
    "R08a/R08b come from the table-object-model interpreter run with the documented default flags: every value "
    "returned or yielded by the 16 documented-copy getters is traced to its provenance (cached wrapper, other live "
    "wrapper, clone/new object) through all inlined helpers, and its coordinate stamps are tracked. R08c compares the "
    "two expanding traversals (Row.traverse, Table.traverse_columns; two arms each) structurally: clone, stamp, "
    "repeat-clearing test, increment, in an order in which the test reads the stamped x. R08d checks the "
    "outside-the-area arms. Correctness of coordinate values, ranges (C19) and filters is not decided."
)
ASSUMPTIONS = [
    "Element.clone deep-copies the node (R10c) — a clone is detached",
    "position maps are consistent with the XML (C02), so a run length of 1 means the item has no repeat attribute",
]


def r08ab(ctx, tom):
    ctx.rule("R08a", "documented-copy getters hand out detached wrappers under the default flags", floor=12)
    ctx.rule("R08b", "returned cells carry x and y, rows y, columns x", floor=12)
    for rule, f, node, construct, message, path in tom.findings:
        if rule in ("R08a", "R08b"):
            ctx.report(rule, f, node, construct, message, path)
    for rule, where, what, ok, line in tom.instances:
        if rule in ("R08a", "R08b"):
            ctx.instance(rule, where, what, ok=ok, nontrivial=True, line=line)
    ctx.extra["tom"] = tom.stats


def _arms(f: FuncInfo):
    """The innermost `for _i in range(<repeat> …)` loops of an expanding traversal that yield: one per arm."""
    out = []
    for n in walk_no_nested(f.node):
        if isinstance(n, ast.For) and isinstance(n.iter, ast.Call) and call_name(n.iter) == "range" and any(isinstance(x, ast.Yield) for x in ast.walk(n)) \
                and not any(isinstance(m, ast.For) and m is not n and any(isinstance(x, ast.Yield) for x in ast.walk(m)) for m in ast.walk(n)):
            out.append(n)
    return out


def r08c(ctx):
    repo = ctx.repo
    ctx.rule("R08c", "expanding traversals: clone, stamp, clear the repeat (run > 1, or range starting inside a run, tested on the stamped x), then advance; run arithmetic starts from before = x - 1", floor=8)
    for q in ("Row.traverse", "Table.traverse_columns"):
        f = repo.func(q)
        arms = _arms(f)
        if len(arms) != 2:
            raise AnalysisError(f"R08c: expected two expansion loops in {q}, found {len(arms)}")
        for i, loop in enumerate(arms):
            # roles, from use: the item is what is yielded; the counter is what is stamped on it; the repeat is what range() counts
            ys = [x for x in ast.walk(loop) if isinstance(x, ast.Yield) and isinstance(x.value, ast.Name)]
            if not ys:
                raise AnalysisError(f"R08c: {q} arm {i + 1} yields no local")
            var = ys[0].value.id
            rep = next((x.id for x in ast.walk(loop.iter) if isinstance(x, ast.Name) and x.id != "range"), None)
            stamp_assigns = [a_ for a_ in ast.walk(loop) if isinstance(a_, ast.Assign) and isinstance(a_.targets[0], ast.Attribute) and a_.targets[0].attr == "x"
                             and isinstance(a_.targets[0].value, ast.Name) and a_.targets[0].value.id == var and isinstance(a_.value, ast.Name)]
            xv = stamp_assigns[0].value.id if stamp_assigns else None
            # flatten the statements that handle one yielded item (inside optional `if x <= end:` / `if var is None … else`)
            stmts: list[ast.stmt] = []

            def clears(s_):
                # the If whose own body (not a nested one) resets the repeat of the item
                return isinstance(s_, ast.If) and any(isinstance(a_, ast.Assign) and isinstance(a_.targets[0], ast.Attribute) and a_.targets[0].attr == "repeated"
                                                      and isinstance(a_.targets[0].value, ast.Name) and a_.targets[0].value.id == var
                                                      and isinstance(a_.value, ast.Constant) and a_.value.value is None for a_ in s_.body)

            def flat(body):
                for s_ in body:
                    if isinstance(s_, ast.If) and not any(isinstance(x, ast.Yield) for x in ast.walk(s_.test)):
                        if clears(s_) and not any(isinstance(x, ast.Yield) for x in ast.walk(s_)):
                            stmts.append(s_)  # the repeat-clearing test
                        else:
                            flat(s_.body)
                            flat(s_.orelse)
                    else:
                        stmts.append(s_)

            flat(loop.body)
            idx = {}
            clear_test = None
            clone_src = None
            for k, s_ in enumerate(stmts):
                if isinstance(s_, ast.Assign) and isinstance(s_.targets[0], ast.Name) and s_.targets[0].id == var and isinstance(s_.value, ast.Attribute) \
                        and s_.value.attr == "clone" and isinstance(s_.value.value, ast.Name):
                    idx.setdefault("clone", k)
                    clone_src = s_.value.value.id
                if s_ in stamp_assigns:
                    idx.setdefault("stamp", k)
                if isinstance(s_, ast.If) and clears(s_):
                    idx.setdefault("clear", k)
                    clear_test = s_.test
                if isinstance(s_, ast.AugAssign) and isinstance(s_.target, ast.Name) and s_.target.id == xv:
                    idx.setdefault("advance", k)
                if isinstance(s_, ast.Expr) and isinstance(s_.value, ast.Yield):
                    idx.setdefault("yield", k)
            lnames = {x.id for x in ast.walk(loop) if isinstance(x, ast.Name)}
            ranged = "start" in lnames or "end" in lnames
            where = f"{f.file}:{f.ident}"
            need = ["clone", "stamp", "clear", "advance", "yield"]
            missing = [k for k in need if k not in idx]
            ok = not missing
            why = f"missing {missing}" if missing else ""
            # every copy of a run is cloned from the stored item, not from the copy yielded just before (which the caller may have edited while iterating)
            if clone_src is not None:
                indep = clone_src != var
                ctx.instance("R08c", where, f"arm {i + 1}: each copy is cloned from `{clone_src}`" + ("" if indep else ", the variable that is yielded"), ok=indep, nontrivial=True, line=loop.lineno)
                if not indep:
                    ctx.report("R08c", f, loop, f"{q} arm {i + 1}: `{var} = {var}.clone` inside the run loop",
                               f"{q} clones each copy of a repeated run from the copy it yielded before: an edit made by the caller while iterating lazily reappears in the "
                               f"following copies of the run, which are documented as independent copies of what the table holds")
            if ok:
                reads_x = any(isinstance(x, ast.Name) and x.id == xv for x in ast.walk(clear_test))

                def cmp_is(t, l, op, r):
                    """t is `l op r` (names or small constants), in either orientation"""
                    if not (isinstance(t, ast.Compare) and len(t.ops) == 1):
                        return False
                    def same(e, w):
                        return (isinstance(e, ast.Name) and e.id == w) or (isinstance(e, ast.Constant) and e.value == w)
                    flip = {ast.Gt: ast.Lt, ast.Lt: ast.Gt, ast.GtE: ast.LtE, ast.LtE: ast.GtE, ast.Eq: ast.Eq}
                    return (isinstance(t.ops[0], op) and same(t.left, l) and same(t.comparators[0], r)) or \
                        (isinstance(t.ops[0], flip[op]) and same(t.left, r) and same(t.comparators[0], l))

                atoms = [x for x in ast.walk(clear_test) if isinstance(x, ast.Compare)]
                has_run = any(cmp_is(t, rep, ast.Gt, 1) or cmp_is(t, rep, ast.GtE, 2) for t in atoms)
                has_inside = any(cmp_is(t, xv, ast.Eq, "start") for t in atoms) and any(cmp_is(t, "start", ast.Gt, 0) or cmp_is(t, "start", ast.GtE, 1) for t in atoms)
                if not has_run:
                    ok, why = False, "the repeat is not cleared when the run is longer than 1"
                elif ranged and not has_inside:
                    ok, why = False, "the repeat is not cleared when the range starts inside a run (x == start and start > 0)"
                elif reads_x and not (idx["stamp"] < idx["advance"] and idx["clear"] < idx["advance"]):
                    ok, why = False, "x is advanced between the stamp and the test that reads it"
                elif not (idx["clone"] < idx["clear"] < idx["yield"] and idx["clone"] < idx["stamp"] < idx["yield"]):
                    ok, why = False, "clone / stamp / clear are not all before the yield"
            ctx.instance("R08c", where, f"arm {i + 1} ({'range' if ranged else 'full'}): order {sorted(idx, key=idx.get)} {why}", ok=ok, nontrivial=True, line=loop.lineno)
            if not ok:
                ctx.report("R08c", f, loop, f"{q} arm {i + 1}: {why}",
                           f"expanding traversal {q} ({'range' if ranged else 'full'} arm): {why}; a returned copy can still carry a repeat count")
            # the run arithmetic: `repeat = <last position of the run> - <before>` is the number of positions of the run from x on only if
            # before = x - 1 when the loop over the runs starts (then each run leaves before' = last, x' = last + 1)
            from ..paths import cfg_of, node_of, reaching_defs
            from .c01 import Aff
            outer = [l for l in enclosing_loops(loop) if isinstance(l, ast.For)]
            rdef = [a_ for l in outer for a_ in ast.walk(l) if isinstance(a_, ast.Assign) and isinstance(a_.targets[0], ast.Name) and a_.targets[0].id == rep
                    and isinstance(a_.value, ast.BinOp) and isinstance(a_.value.op, ast.Sub) and isinstance(a_.value.right, ast.Name)]
            if outer and rdef and xv is not None:
                ol = outer[0]
                bv = rdef[0].value.right.id
                cfg = cfg_of(f)
                head = node_of(cfg, ol)
                inside = {id(x) for x in ast.walk(ol)}
                byid = {n_.id: n_ for n_ in cfg.nodes}

                def aff(e):
                    if isinstance(e, ast.Constant) and isinstance(e.value, int) and not isinstance(e.value, bool):
                        return Aff(c=e.value)
                    if isinstance(e, ast.Name) and e.id == "start":
                        return Aff({"start": 1})
                    if isinstance(e, ast.UnaryOp) and isinstance(e.op, ast.USub):
                        a1 = aff(e.operand)
                        return None if a1 is None else -a1
                    if isinstance(e, ast.BinOp) and isinstance(e.op, (ast.Add, ast.Sub)):
                        a1, b1 = aff(e.left), aff(e.right)
                        if a1 is None or b1 is None:
                            return None
                        return a1 + b1 if isinstance(e.op, ast.Add) else a1 - b1
                    return None

                def entry_forms(var):
                    out = []
                    for d in reaching_defs(cfg, var).get(head.id, frozenset()):
                        st = byid[d].stmt
                        if st is None or id(st) in inside:
                            continue  # loop-carried definition
                        out.append((st, aff(st.value) if isinstance(st, ast.Assign) else None))
                    return out

                fb, fx = entry_forms(bv), entry_forms(xv)
                bad = [(sb, sx) for sb, ab in fb for sx, ax in fx if ab is None or ax is None or not (ab == ax - Aff(c=1))]
                oki = bool(fb) and bool(fx) and not bad
                ctx.instance("R08c", where, f"arm {i + 1}: on entering the loop over the runs, {bv} = {xv} - 1 "
                             f"({[repr(a_) for _, a_ in fb]} vs {[repr(a_) for _, a_ in fx]})", ok=oki, nontrivial=True, line=ol.lineno)
                if not oki:
                    sb = bad[0][0] if bad else ol
                    ctx.report("R08c", f, sb, f"{q} arm {i + 1}: `{bv}` is not `{xv} - 1` when the run loop starts ({norm(sb, 40)})",
                               f"{q} computes the copies of a run as (last position of the run) - `{bv}`; that is the remainder of the run from `{xv}` on only if `{bv}` = `{xv}` - 1 "
                               f"when the loop starts. With another value a range starting inside a repeated run yields the run's full count and overruns the items that follow")
            # each expansion step of a ranged arm is bounded by the end of the range
            if ranged and xv is not None:
                okb = any(isinstance(n, ast.If) and isinstance(n.test, ast.Compare) and len(n.test.ops) == 1 and (
                    (isinstance(n.test.ops[0], ast.LtE) and isinstance(n.test.left, ast.Name) and n.test.left.id == xv and isinstance(n.test.comparators[0], ast.Name) and n.test.comparators[0].id == "end")
                    or (isinstance(n.test.ops[0], ast.GtE) and isinstance(n.test.left, ast.Name) and n.test.left.id == "end" and isinstance(n.test.comparators[0], ast.Name) and n.test.comparators[0].id == xv))
                    for n in ast.walk(loop))
                ctx.instance("R08c", f"{f.file}:{f.ident}", "range arm yields only while x <= end", ok=okb, line=loop.lineno)
                if not okb:
                    ctx.report("R08c", f, loop, f"{q}: no `x <= end` bound", f"{q} range arm is not bounded on the right by `x <= end`")


def r08d(ctx):
    repo = ctx.repo
    ctx.rule("R08d", "reading outside the populated area returns a fresh empty object without touching the table", floor=4)
    specs = [("Table.get_cell", "height", "Cell"), ("Table._get_row2", "height", "Row"),
             ("Row._get_cell2", "width", "Cell"), ("Table._get_column2", "width", "Column")]

    def beyond(t, dim):
        """`V >= self.<dim>` (or `self.<dim> <= V`) for some local or parameter V"""
        if not (isinstance(t, ast.Compare) and len(t.ops) == 1):
            return False
        l, op, r = t.left, t.ops[0], t.comparators[0]
        return (isinstance(op, ast.GtE) and isinstance(l, ast.Name) and is_self_attr(r, dim)) or (isinstance(op, ast.LtE) and is_self_attr(l, dim) and isinstance(r, ast.Name))

    def inside(t, dim):
        """`V < self.<dim>`: the complement of `beyond`"""
        if not (isinstance(t, ast.Compare) and len(t.ops) == 1):
            return False
        l, op, r = t.left, t.ops[0], t.comparators[0]
        return (isinstance(op, ast.Lt) and isinstance(l, ast.Name) and is_self_attr(r, dim)) or (isinstance(op, ast.Gt) and is_self_attr(l, dim) and isinstance(r, ast.Name))

    def outside_arm(n, dim):
        """statements run when the position lies beyond the dimension, whichever way the `if` is written; None if `n` is not that test"""
        from ..paths import if_arms
        t, a_, b_ = if_arms(n)
        if beyond(t, dim):
            return a_
        if inside(t, dim) and b_:
            return b_
        return None

    for q, dim, cls in specs:
        f = repo.func(q)
        ok = False
        for n in walk_no_nested(f.node):
            if isinstance(n, ast.If) and outside_arm(n, dim) is not None:
                calls = [c for s_ in outside_arm(n, dim) for c in ast.walk(s_) if isinstance(c, ast.Call)]
                makes = [c for c in calls if call_name(c) == cls and not c.args and not c.keywords]
                others = [c for c in calls if call_name(c) not in (cls, "ValueError")]
                ok = bool(makes) and not others
        ctx.instance("R08d", f"{f.file}:{f.ident}", f"beyond self.{dim}: returns a new empty {cls}() and calls nothing else", ok=ok, nontrivial=True)
        if not ok:
            ctx.report("R08d", f, f.node, f"{q}: outside-area arm", f"{q} no longer answers a read beyond the populated area with a fresh empty {cls}()")
    g = repo.func("Table.get_value")
    ok = any(isinstance(n, ast.If) and outside_arm(n, "height") is not None and not any(isinstance(c, ast.Call) for s_ in outside_arm(n, "height") for c in ast.walk(s_))
             for n in walk_no_nested(g.node))
    ctx.instance("R08d", f"{g.file}:{g.ident}", "beyond self.height: returns None without any call", ok=ok)
    if not ok:
        ctx.report("R08d", g, g.node, "Table.get_value outside-area arm", "Table.get_value outside the table no longer returns None without side effect")


def r08e(ctx):
    repo = ctx.repo
    ctx.rule("R08e", "clone=True is the default wherever a getter takes a clone flag, and the flag selects .clone", floor=5)
    for cname in ("Table", "Row"):
        c = repo.cls(cname)
        for name, fs in sorted(c.methods.items()):
            f = fs[0]
            d = f.defaults()
            if "clone" not in d or not name.lstrip("_").startswith("get"):
                continue
            ok = isinstance(d["clone"], ast.Constant) and d["clone"].value is True
            ctx.instance("R08e", f"{f.file}:{cname}.{name}", "clone defaults to True", ok=ok, line=f.node.lineno)
            if not ok:
                ctx.report("R08e", f, f.node, f"{cname}.{name}(clone={ast.unparse(d['clone'])})", "a getter documented as returning copies defaults to clone=False")


def r08f(ctx):
    """Row traversal: the stamp `row.y` is the row's position.

    `Table.traverse` stamps each row it receives from a producer generator with a counter.
    The k-th item received (k from 0) is stamped init + (k + 1) if the counter is advanced
    before the stamp, init + k otherwise.  Exact argument for the design in the tree: the
    producer yields, for every XML row from the first on, exactly `repeated or 1` copies
    (no path through an iteration without its yields), so the k-th item *is* logical row k,
    and the stamp is right iff the counter starts at the matching constant (-1 / 0).
    A producer that can skip XML rows and then expands a run from its head starts at a run
    head only the table's run structure determines; a consumer whose counter starts from a
    value computed from its own parameters cannot match it for every table → violation.
    Any other protocol (partial expansion, positions handed over by the producer) is not
    decided by this rule and stops the check as undecided (exit 2) rather than passing.
    """
    from ..paths import cfg_of, node_of
    repo = ctx.repo
    ctx.rule("R08f", "Table.traverse: the y stamped on each expanded row is its position (complete producer from row 0, counter from the matching constant, range tests on the counter; one fresh copy per row)", floor=7)
    f = repo.func("Table.traverse")
    where = f"{f.file}:{f.ident}"
    loops = [n for n in walk_no_nested(f.node) if isinstance(n, ast.For) and any(isinstance(x, ast.Yield) for x in ast.walk(n))]
    if len(loops) != 1 or not (isinstance(loops[0].iter, ast.Call) and isinstance(loops[0].iter.func, ast.Attribute) and is_self_attr(loops[0].iter.func)):
        raise AnalysisError("R08f: Table.traverse no longer is one loop over a producer method that yields")
    loop = loops[0]
    item = loop.target.id if isinstance(loop.target, ast.Name) else None
    stamps = [a for a in ast.walk(loop) if isinstance(a, ast.Assign) and isinstance(a.targets[0], ast.Attribute) and a.targets[0].attr == "y"
              and isinstance(a.targets[0].value, ast.Name) and a.targets[0].value.id == item]
    ok = len(stamps) == 1 and isinstance(stamps[0].value, ast.Name)
    ctx.instance("R08f", where, f"each received row is stamped once from a counter ({[norm(a, 30) for a in stamps]})", ok=ok, line=loop.lineno)
    if not ok:
        ctx.report("R08f", f, loop, "rows are not stamped with a counter", "Table.traverse does not stamp `y` on the rows it yields from one counter")
        return
    cvar = stamps[0].value.id
    cfg = cfg_of(f)
    head, sn = node_of(cfg, loop), node_of(cfg, stamps[0])
    incs = [a for a in ast.walk(loop) if isinstance(a, ast.AugAssign) and isinstance(a.target, ast.Name) and a.target.id == cvar]
    others = [a for a in ast.walk(loop) if isinstance(a, (ast.Assign, ast.AnnAssign)) and any(isinstance(t, ast.Name) and t.id == cvar for t in ast.walk(a) if isinstance(getattr(t, "ctx", None), ast.Store))]
    one = len(incs) == 1 and not others and isinstance(incs[0].op, ast.Add) and repo.fold(incs[0].value, f.module) == 1 and incs[0] in loop.body
    inc_n = node_of(cfg, incs[0]) if incs else None
    first = node_of(cfg, loop.body[0])
    every = one and cfg.path_avoiding(first, head, [inc_n], follow_exc=False) is None
    ctx.instance("R08f", where, f"the counter `{cvar}` advances by exactly one for every item received", ok=bool(every), nontrivial=True, line=incs[0].lineno if incs else loop.lineno)
    if not every:
        ctx.report("R08f", f, incs[0] if incs else loop, f"`{cvar}` does not advance by one per received row",
                   "the stamp counter of Table.traverse is not advanced exactly once per expanded row: later rows carry a wrong y")
        return
    pre = cfg.dominates(inc_n, sn)
    want = -1 if pre else 0
    inits = [a for a in walk_no_nested(f.node) if isinstance(a, ast.Assign) and len(a.targets) == 1 and isinstance(a.targets[0], ast.Name) and a.targets[0].id == cvar
             and a not in list(ast.walk(loop))]
    init_val = repo.fold(inits[0].value, f.module) if len(inits) == 1 else UNKNOWN
    params = {a.arg for a in f.node.args.args + f.node.args.kwonlyargs}
    # ---- the producer
    pname = loop.iter.func.attr
    g = repo.func(f"Table.{pname}")
    gcfg = cfg_of(g)
    outer = [n for n in walk_no_nested(g.node) if isinstance(n, ast.For) and any(isinstance(x, ast.Yield) for x in ast.walk(n))
             and not any(isinstance(p_, ast.For) and n is not p_ and n in list(ast.walk(p_)) for p_ in walk_no_nested(g.node))]
    src_ok = len(outer) == 1 and isinstance(outer[0].iter, ast.Call) and call_name(outer[0].iter) in ("_get_rows", "get_elements")
    if not src_ok:
        raise AnalysisError(f"R08f: producer Table.{pname} no longer is one loop over the table's XML rows")
    ol = outer[0]
    rowv = ol.target.id if isinstance(ol.target, ast.Name) else "?"
    inner = [n for n in ast.walk(ol) if isinstance(n, ast.For) and n is not ol and any(isinstance(x, ast.Yield) for x in ast.walk(n))]
    direct = [x for st in ast.walk(ol) for x in [st] if isinstance(x, ast.Yield) and not any(x in list(ast.walk(i)) for i in inner)]
    ynodes = [node_of(gcfg, x) for x in direct] + [node_of(gcfg, i) for i in inner]
    gfirst, ghead = node_of(gcfg, ol.body[0]), node_of(gcfg, ol)
    skip = gcfg.path_avoiding(gfirst, ghead, [y for y in ynodes if y is not None], follow_exc=False)
    # full expansion from the head of the run: `for _ in range(row.repeated)` each iteration yielding; a direct yield only for an unrepeated row
    full = True
    why = ""
    for i in inner:
        it = i.iter
        rng = isinstance(it, ast.Call) and call_name(it) == "range" and len(it.args) == 1 and isinstance(it.args[0], ast.Attribute) and it.args[0].attr == "repeated" \
            and isinstance(it.args[0].value, ast.Name) and it.args[0].value.id == rowv
        ys = [node_of(gcfg, x) for x in ast.walk(i) if isinstance(x, ast.Yield)]
        each = gcfg.path_avoiding(node_of(gcfg, i.body[0]), node_of(gcfg, i), ys, follow_exc=False) is None
        if not (rng and each):
            full, why = False, f"inner expansion `{norm(i.iter, 30)}` is not one yield per repetition from the head of the run"
    for x in direct:
        gs = structural_guards(x, stop=ol)
        unrep = any(pol and isinstance(t, ast.Compare) and isinstance(t.ops[0], ast.Is) and isinstance(t.left, ast.Attribute) and t.left.attr == "repeated"
                    and isinstance(t.comparators[0], ast.Constant) and t.comparators[0].value is None for t, pol in gs)
        if not unrep:
            full, why = False, f"`{norm(x, 30)}` yields one item for a row that may be repeated"
    gparams = [a.arg for a in g.node.args.args[1:] + g.node.args.kwonlyargs]
    # every copy handed out is its own object: what is yielded is cloned on the way from the head of the loop that yields it
    for x in [y_ for y_ in ast.walk(ol) if isinstance(y_, ast.Yield)]:
        lp = [i for i in inner if x in list(ast.walk(i))]
        scope_loop = lp[0] if lp else ol
        v = x.value
        fresh_here = isinstance(v, ast.Attribute) and v.attr == "clone"
        if not fresh_here and isinstance(v, ast.Name):
            clones = [node_of(gcfg, a_) for a_ in ast.walk(scope_loop) if isinstance(a_, ast.Assign) and isinstance(a_.targets[0], ast.Name) and a_.targets[0].id == v.id
                      and isinstance(a_.value, ast.Attribute) and a_.value.attr == "clone"]
            first_in = node_of(gcfg, scope_loop.body[0])
            fresh_here = bool(clones) and gcfg.path_avoiding(first_in, node_of(gcfg, x), clones, follow_exc=False) is None
        ctx.instance("R08f", f"{g.file}:{g.ident}", f"`{norm(x, 30)}`: a copy made within the iteration that yields it", ok=fresh_here, nontrivial=True, line=x.lineno)
        if not fresh_here:
            ctx.report("R08f", g, x, f"`{norm(x, 30)}` yields an object cloned outside the loop that yields it",
                       f"Table.{pname} hands out the same object for several logical rows of a run: the rows returned are aliases of one another, so editing one "
                       f"(or stamping its y) changes the others, and what is pushed back with set_row is not what was read")
    complete = skip is None and full
    ctx.instance("R08f", f"{g.file}:{g.ident}", f"producer yields `repeated or 1` copies of every XML row, from the first row on (skip path: {skip is not None}; {why or 'full expansion'})",
                 ok=complete or (skip is not None and full), nontrivial=True, line=ol.lineno)
    if not full:
        if skip is None and not gparams:
            ctx.report("R08f", g, ol, f"Table.{pname}: {why}", f"the row producer does not yield one copy per repetition: {why}; positions of the following rows shift")
            return
        raise AnalysisError(f"R08f: producer protocol not recognised ({why}); the rule cannot decide the stamps")
    if complete:
        ok = init_val == want
        ctx.instance("R08f", where, f"counter starts at {init_val!r} ({'advanced before' if pre else 'advanced after'} the stamp: must be {want})", ok=ok, nontrivial=True,
                     line=inits[0].lineno if inits else loop.lineno)
        if not ok:
            ctx.report("R08f", f, inits[0] if inits else loop, f"`{cvar}` starts at {norm(inits[0].value, 30) if inits else '?'} while the producer starts at row 0",
                       "the producer yields every row from row 0, so the k-th item is row k; the counter does not start at the matching constant: every stamp is shifted")
            return
    else:
        own = len(inits) == 1 and all((isinstance(x, ast.Name) and (x.id in params)) or not isinstance(x, ast.Name) for x in ast.walk(inits[0].value))
        skipstmt = [x for x in skip if x.stmt is not None][-1].stmt
        if own:
            ctx.instance("R08f", where, f"counter start `{norm(inits[0].value, 30)}` cannot know where a skipping producer resumes", ok=False, nontrivial=True, line=inits[0].lineno)
            ctx.report("R08f", g, skipstmt, f"Table.{pname} skips XML rows (`{norm(skipstmt, 40)}`) and resumes at the head of a run; Table.traverse numbers from `{norm(inits[0].value, 30)}`",
                       f"the producer skips whole runs and expands the next run from its head — a position fixed by the table's repeat structure — while Table.traverse starts its "
                       f"stamps from `{norm(inits[0].value, 30)}`, computed from its own arguments: when the range starts inside a repeated run, rows are stamped (and returned) "
                       f"at the wrong positions")
            return
        raise AnalysisError("R08f: skipping producer with a start position not computed from the consumer's own arguments: protocol not recognised")
    # ---- range tests on the counter, before the yield
    yn = [node_of(cfg, x) for x in ast.walk(loop) if isinstance(x, ast.Yield)]
    tests = {"start": None, "end": None}
    for n in ast.walk(loop):
        if isinstance(n, ast.If) and isinstance(n.test, ast.Compare) and len(n.test.ops) == 1:
            names = {x.id for x in ast.walk(n.test) if isinstance(x, ast.Name)}
            if cvar in names and n.body and isinstance(n.body[-1], (ast.Continue, ast.Return, ast.Break)):
                l, op, r = n.test.left, n.test.ops[0], n.test.comparators[0]
                lt = (isinstance(l, ast.Name) and l.id == cvar and isinstance(op, ast.Lt)) or (isinstance(r, ast.Name) and r.id == cvar and isinstance(op, ast.Gt))
                gt = (isinstance(l, ast.Name) and l.id == cvar and isinstance(op, ast.Gt)) or (isinstance(r, ast.Name) and r.id == cvar and isinstance(op, ast.Lt))
                if "start" in names and lt and isinstance(n.body[-1], ast.Continue):
                    tests["start"] = n
                if "end" in names and gt and isinstance(n.body[-1], (ast.Return, ast.Break)):
                    tests["end"] = n
    for k, n in tests.items():
        ok = n is not None and all(cfg.dominates(node_of(cfg, n), y) for y in yn) and cfg.dominates(sn, node_of(cfg, n)) is False and (not pre or cfg.dominates(inc_n, node_of(cfg, n)))
        ctx.instance("R08f", where, f"rows {'before `start` are passed over' if k == 'start' else 'after `end` stop the traversal'} by a strict test on the counter, before the yield",
                     ok=ok, nontrivial=True, line=n.lineno if n is not None else loop.lineno)
        if not ok:
            ctx.report("R08f", f, n or loop, f"no strict `{cvar}` against `{k}` test before the yield",
                       f"Table.traverse does not bound the rows it yields by `{k}` with a strict comparison on the position counter: a ranged read returns other rows than those addressed")


def r08g(ctx):
    """A read that expands repetitions hands out cells without a repeat count — whichever way it got them.

    The expanding traversals clear `number-columns-repeated` on every copy they yield (R08c).  `get_cell` is a different kind of read: by
    default (`keep_repeated=True`) its copy keeps the count of the run it was cut from.  An area getter that takes a short cut through
    get_cell for a one-cell range therefore returns a cell that claims N columns; pushed back with set_cell it overwrites its neighbours.
    Rule: inside the plural readers of Row and Table (`get_cells`, `get_values`, `get_sub_elements`, `iter_values`, `get_column_cells` is
    excluded: it is documented cell by cell), a cell obtained through `get_cell(...)` is asked for with `keep_repeated=False`.
    """
    repo = ctx.repo
    ctx.rule("R08g", "plural readers take cells from the expanding traversal, or from get_cell(keep_repeated=False)", floor=4)
    for cname in ("Row", "Table"):
        c = repo.cls(cname)
        for name in ("get_cells", "get_values", "get_sub_elements", "iter_values", "get_row_values", "get_row_sub_elements"):
            for f in c.methods.get(name, [])[:1]:
                calls = [x for x in walk_no_nested(f.node) if isinstance(x, ast.Call) and call_name(x) in ("get_cell", "_get_cell")]
                bad = [x for x in calls if not any(k.arg == "keep_repeated" and isinstance(k.value, ast.Constant) and k.value.value is False for k in x.keywords)]
                ctx.instance("R08g", f"{f.file}:{f.ident}", f"{len(calls)} single-cell read(s) inside the plural reader, all un-repeated" if not bad else "a single-cell read keeps the repeat count",
                             ok=not bad, nontrivial=bool(calls), line=f.node.lineno)
                for x in bad[:1]:
                    ctx.report("R08g", f, x, norm(x, 60),
                               f"{cname}.{name} expands repetitions but takes a cell through `{norm(x, 40)}`, whose copy keeps `number-columns-repeated` of the run it was cut from: "
                               f"the returned cell claims N columns, and writing it back overwrites the cells to its right")


def run(ctx):
    tom = run_tom(ctx.repo)
    r08ab(ctx, tom)
    r08c(ctx)
    r08d(ctx)
    r08e(ctx)
    r08f(ctx)
    r08g(ctx)
    # a read by position finds its row through the position map and the indexed query: both must follow the scheme the traversals use (shared with C02)
    from .c02 import r02d, r02i
    r02d(ctx)
    # a getter answers from the wrapper index: a wrapper filed under a position instead of its item index is the wrong cell for the next reader (shared with C02)
    r02i(ctx)
    # a row copy that was cleared must read as empty: clear() has to drop the cell map with the cells (shared with C02)
    from .c02 import r02j
    r02j(ctx)
    # a getter that resolves a coordinate per row returns cells of other columns, stamped with other coordinates (rule shared with C19)
    from .c19 import r19g
    r19g(ctx)
    # a whole-row rewrite deletes the cells first: the wrappers filed for them must go with them, or the next getter answers with a deleted cell (position-map protocol, shared with C02)
    from .c02 import r02ab
    r02ab(ctx, tom)


from ..selftest import Seed, unparse_seed  # noqa: E402

_T = "src/odfdo/table.py"
_R = "src/odfdo/row.py"
SEEDS = [
    Seed("Row.get_cells takes a one-position range through get_cell", "fault", _R,
         "        cells: list[Cell] = []\n        for cell in self.traverse(start=x, end=z):", "        cells: list[Cell] = []\n        found = [self.get_cell(x)] if x is not None and x == z and x < self.width else self.traverse(start=x, end=z)\n        for cell in found:", "R08g"),
    Seed("Row.get_cells takes a one-position range through an un-repeated get_cell", "neutral", _R,
         "        cells: list[Cell] = []\n        for cell in self.traverse(start=x, end=z):", "        cells: list[Cell] = []\n        found = [self.get_cell(x, keep_repeated=False)] if x is not None and x == z and x < self.width else self.traverse(start=x, end=z)\n        for cell in found:"),
    Seed("ranged column traversal does not rebase `before` on the start", "fault", _T,
         "            idx = start_map - 1\n            before = start - 1\n            x = start\n            for juska in self._cmap[start_map:]:",
         "            idx = start_map - 1\n            x = start\n            for juska in self._cmap[start_map:]:", "R08c"),
    Seed("full cell traversal starts before at 0", "fault", _R, "        idx = -1\n        before = -1\n        x = 0\n", "        idx = -1\n        before = 0\n        x = 0\n", "R08c"),
    Seed("row producer clones a repeated row once for the whole run", "fault", _T, '                for _ in range(row.repeated):\n                    row_copy = row.clone\n                    row_copy.repeated = None\n                    yield row_copy\n', '                row_copy = row.clone\n                row_copy.repeated = None\n                for _ in range(row.repeated):\n                    yield row_copy\n', "R08f"),
    Seed("row producer: copy renamed", "neutral", _T, '                for _ in range(row.repeated):\n                    row_copy = row.clone\n                    row_copy.repeated = None\n                    yield row_copy\n', '                for _ in range(row.repeated):\n                    one = row.clone\n                    one.repeated = None\n                    yield one\n'),
    Seed("Table.traverse counts from 0 though it advances before stamping", "fault", _T, '        y = -1\n        for row in self._yield_odf_rows():\n            y += 1\n            if y < start:\n                continue\n            if y > end:\n                return\n            row.y = y\n            yield row\n', '        y = 0\n        for row in self._yield_odf_rows():\n            y += 1\n            if y < start:\n                continue\n            if y > end:\n                return\n            row.y = y\n            yield row\n', "R08f"),
    Seed("Table.traverse no longer passes over the rows before start", "fault", _T, '        y = -1\n        for row in self._yield_odf_rows():\n            y += 1\n            if y < start:\n                continue\n            if y > end:\n                return\n            row.y = y\n            yield row\n', '        y = -1\n        for row in self._yield_odf_rows():\n            y += 1\n            if y > end:\n                return\n            row.y = y\n            yield row\n', "R08f"),
    Seed("Table.traverse stops one row early", "fault", _T, '        y = -1\n        for row in self._yield_odf_rows():\n            y += 1\n            if y < start:\n                continue\n            if y > end:\n                return\n            row.y = y\n            yield row\n', '        y = -1\n        for row in self._yield_odf_rows():\n            y += 1\n            if y < start:\n                continue\n            if y >= end:\n                return\n            row.y = y\n            yield row\n', "R08f"),
    Seed("Table.traverse advances only for rows in range", "fault", _T, '        y = -1\n        for row in self._yield_odf_rows():\n            y += 1\n            if y < start:\n                continue\n            if y > end:\n                return\n            row.y = y\n            yield row\n',
         '        y = -1\n        for row in self._yield_odf_rows():\n            if y + 1 < start:\n                continue\n            y += 1\n            if y > end:\n                return\n            row.y = y\n            yield row\n', "R08f"),
    Seed("row producer skips the runs before start, traverse numbers from start", "fault", _T, '        y = -1\n        for row in self._yield_odf_rows():\n            y += 1\n            if y < start:\n                continue\n            if y > end:\n                return\n            row.y = y\n            yield row\n',
         '        y = start - 1\n        for row in self._yield_odf_rows(start):\n            y += 1\n            if y > end:\n                return\n            row.y = y\n            yield row\n', "R08f",
         edits=[(_T, "    def _yield_odf_rows(self):\n        for row in self._get_rows():\n",
                 "    def _yield_odf_rows(self, start: int = 0):\n        done = 0\n        for row in self._get_rows():\n            done += row.repeated or 1\n            if done <= start:\n                continue\n")]),
    Seed("row producer yields a repeated row once", "fault", _T, '        for row in self._get_rows():\n            if row.repeated is None:\n                yield row.clone\n            else:\n',
         '        for row in self._get_rows():\n            if row.repeated is None or row.repeated < 3:\n                yield row.clone\n            else:\n', "R08f"),
    Seed("Table.traverse: counter renamed", "neutral", _T, '        y = -1\n        for row in self._yield_odf_rows():\n            y += 1\n            if y < start:\n                continue\n            if y > end:\n                return\n            row.y = y\n            yield row\n', '        pos = -1\n        for row in self._yield_odf_rows():\n            pos += 1\n            if pos < start:\n                continue\n            if pos > end:\n                return\n            row.y = pos\n            yield row\n'),
    Seed("Table.traverse: comparisons mirrored", "neutral", _T, '        y = -1\n        for row in self._yield_odf_rows():\n            y += 1\n            if y < start:\n                continue\n            if y > end:\n                return\n            row.y = y\n            yield row\n', '        y = -1\n        for row in self._yield_odf_rows():\n            y += 1\n            if start > y:\n                continue\n            if end < y:\n                return\n            row.y = y\n            yield row\n'),
    Seed("_yield_odf_rows yields the live row again", "fault", _T, "            if row.repeated is None:\n                yield row.clone", "            if row.repeated is None:\n                yield row", "R08a"),
    Seed("_get_row2 returns the cached row", "fault", _T, "        if clone:\n            return row.clone\n        return row\n\n    def _get_row2_base(", "        return row\n\n    def _get_row2_base(", "R08a"),
    Seed("Row._get_cell2 returns the cached cell", "fault", _R, "        if clone:\n            return self._get_cell2_base(x).clone  # type: ignore\n        else:\n            return self._get_cell2_base(x)",
         "        return self._get_cell2_base(x)", "R08a"),
    Seed("Row.traverse yields the cached cell", "fault", _R,
         "                    if cell is None:\n                        copy = Cell()\n                    else:\n                        copy = cell.clone\n                        if repeated > 1:\n                            copy.repeated = None\n                    copy.y = self.y",
         "                    if cell is None:\n                        copy = Cell()\n                    else:\n                        copy = cell\n                    copy.y = self.y", "R08"),
    Seed("Row.traverse clones each copy from the copy yielded before", "fault", _R,
         "                        copy = cell.clone\n                        if repeated > 1:\n                            copy.repeated = None\n                    copy.y = self.y\n                    copy.x = x\n                    x += 1\n                    yield copy",
         "                        cell = cell.clone\n                        if repeated > 1:\n                            cell.repeated = None\n                    cell.y = self.y\n                    cell.x = x\n                    x += 1\n                    yield cell", "R08c",
         edits=[(_R, "                    if cell is None:\n                        copy = Cell()\n                    else:\n                        cell = cell.clone", "                    if cell is None:\n                        cell = Cell()\n                    else:\n                        cell = cell.clone")]),
    Seed("_get_column2 returns the live column", "fault", _T, "            return column.clone  # type: ignore\n", "            return column  # type: ignore\n", "R08a"),
    Seed("get_column_cells asks for live cells", "fault", _T, "            for row in self.traverse():\n                cells.append(row.get_cell(x, clone=True))\n            return cells",
         "            for row in self._get_rows():\n                cells.append(row.get_cell(x, clone=False))\n            return cells", "R08a"),
    Seed("Table.get_cell forgets cell.x", "fault", _T, "        cell.x = x\n        cell.y = y\n        return cell", "        cell.y = y\n        return cell", "R08b"),
    Seed("Table.traverse forgets row.y", "fault", _T, "            row.y = y\n            yield row", "            yield row", "R08b"),
    Seed("get_column forgets column.x", "fault", _T, "        column.x = x\n        return column", "        return column", "R08b"),
    Seed("traverse_columns advances x before the test again", "fault", _T,
         "                        copy.x = x\n                        if repeated > 1 or (x == start and start > 0):\n                            copy.repeated = None\n                        x += 1",
         "                        copy.x = x\n                        x += 1\n                        if repeated > 1 or (x == start and start > 0):\n                            copy.repeated = None", "R08c"),
    Seed("Row.traverse range arm forgets the inside-run case", "fault", _R,
         "                            if repeated > 1 or (x == start and start > 0):\n                                copy.repeated = None", "                            if repeated > 1:\n                                copy.repeated = None", "R08c"),
    Seed("Row.traverse full arm keeps repeats", "fault", _R,
         "                        copy = cell.clone\n                        if repeated > 1:\n                            copy.repeated = None\n                    copy.y = self.y", "                        copy = cell.clone\n                    copy.y = self.y", "R08c"),
    Seed("Table.get_cell outside the table grows it", "fault", _T, "        if y >= self.height:\n            cell = Cell()\n        else:\n            # Inside the defined table\n            row = self._get_row2_base(y)",
         "        if y >= self.height:\n            cell = self.set_cell((x, y), Cell())\n        else:\n            # Inside the defined table\n            row = self._get_row2_base(y)", "R08d"),
    Seed("Row.get_cell defaults to clone=False", "fault", _R, "    def get_cell(self, x: int, clone: bool = True) -> Cell | None:", "    def get_cell(self, x: int, clone: bool = False) -> Cell | None:", "R08"),
    unparse_seed(_T), unparse_seed(_R),
]
