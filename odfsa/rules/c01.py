"""C01 — table editing behaves like a plain grid (structural clauses).

R01a  row typestate (TOM): un-repeat before editing a fetched row; edited copies are pushed back
R01b  index kinds: child index vs ODF item index vs position vs count in the vault functions
R01c  per-row guard agreement of insert_column / delete_column
R01d  keep/delete threshold of the vault functions
R01e  run-length conservation at split sites (affine forms): what is written to the XML and to the
      position map adds up to the run that was split
"""

from __future__ import annotations

import ast
from fractions import Fraction

from ..core import UNKNOWN, AnalysisError, FuncInfo, Repo, body_no_doc, call_name, get_arg, is_self_attr, norm, walk_no_nested
from ..tomrun import run_tom

EXPLANATION = (
    "R01a comes from the table-object-model abstract interpreter (every Table/Row method interpreted with all "
    "in-class callees inlined; provenance and repeatedness of each row/cell/column wrapper tracked). R01b is a unit "
    "type system over the integers of the three vault functions (POS logical position, CNT repeat count, OIDX index "
    "among the items of the scheme, CIDX raw child index) with a frozen signature table read off the primitives. "
    "R01c/R01d extract and compare guards. R01e evaluates every integer of the vault functions to an affine form "
    "over the symbols (position, repeated, start and length of the run found) and checks conservation: the repeat "
    "counts written to the XML and the run lengths written to the map sum to the run that was split (± the item "
    "inserted/deleted), on every branch. The remaining arithmetic (bisect, overlap loop, bulk stepping) is not decided."
)
ASSUMPTIONS = [
    "vault maps are consistent with the XML at entry of a vault function (C02's obligation)",
    "lxml insert/index use raw child indices; XPath [$idx] selects among the items of the scheme",
]

VAULTS = ("set_item_in_vault", "insert_item_in_vault", "delete_item_in_vault")


def r01a(ctx, tom):
    ctx.rule("R01a", "a row fetched from the table is un-repeated before its cells are edited; edited copies are pushed back", floor=100)
    for rule, f, node, construct, message, path in tom.findings:
        if rule == "R01a":
            ctx.report("R01a", f, node, construct, message, path)
    bad = {(f.ident) for rule, f, *_ in tom.findings if rule == "R01a"}
    n = tom.stats.get("row_mutation_sites", 0)
    rs = ctx.rules["R01a"]
    rs.instances += n
    rs.discharged += max(0, n - len(bad))
    for rule, where, what, ok, line in tom.instances:
        if rule == "TOM" and ":Table." in where:
            ctx.instance("R01a", where, "interpreted: every row-cell mutation reached from this method has an un-repeated or all-rows receiver; "
                         "edited detached rows are pushed", ok=where.split(":")[1] not in bad, nontrivial=True, line=line)
    ctx.extra["tom"] = tom.stats


# ------------------------------------------------------------------ roles of the locals of a vault function (by definition, not by name)
MAP_FUNCS = ("insert_map_once", "_erase_map_once")


class Roles:
    """Which locals of a vault function hold what, found from how they are defined:
    maps     position maps: list[int] parameters, getattr(vault, <map name>), results of the map helpers, comprehensions/slices/sums over maps
    caches   wrapper indexes: <x>._indexes[...]
    idx      item index of the run found: find_odf_idx(<map>, position)
    current  wrapper of the item found: <cache>[idx] or <vault>._get_element_idx2(scheme, idx)
    after    clone of `current` that takes the rest of the run
    vaults   the vault parameter (annotated CachedElement / named by position)"""

    def __init__(self, f: FuncInfo):
        self.maps: set[str] = set()
        self.caches: set[str] = set()
        self.idx: set[str] = set()
        self.current: set[str] = set()
        self.after: set[str] = set()
        for a in f.all_params():
            ann = ast.unparse(a.annotation) if a.annotation is not None else ""
            if ann.replace(" ", "") in ("list[int]", "list"):
                self.maps.add(a.arg)
            if a.arg == "odf_idx":
                self.idx.add(a.arg)
        assigns = [n for n in walk_no_nested(f.node) if isinstance(n, ast.Assign) and len(n.targets) == 1 and isinstance(n.targets[0], ast.Name)]
        for _ in range(4):
            for n in assigns:
                t, v = n.targets[0].id, n.value
                if self._is_map(v):
                    self.maps.add(t)
                if isinstance(v, ast.Subscript) and isinstance(v.value, ast.Attribute) and v.value.attr == "_indexes":
                    self.caches.add(t)
                if isinstance(v, ast.Call) and call_name(v) == "find_odf_idx":
                    self.idx.add(t)
                if isinstance(v, ast.Name) and v.id in self.idx:
                    pass  # `idx = odf_idx` is a moving copy, not the run found
                if isinstance(v, ast.Subscript) and isinstance(v.value, ast.Name) and v.value.id in self.caches and isinstance(v.slice, ast.Name) and v.slice.id in self.idx:
                    self.current.add(t)
                if isinstance(v, ast.Call) and call_name(v) in ("_get_element_idx2", "_get_element_idx") and v.args and isinstance(v.args[-1], ast.Name) and v.args[-1].id in self.idx:
                    self.current.add(t)
                if isinstance(v, ast.Attribute) and v.attr == "clone" and isinstance(v.value, ast.Name) and v.value.id in self.current:
                    self.after.add(t)

    def _is_map(self, v: ast.expr) -> bool:
        if isinstance(v, ast.Call):
            cn = call_name(v)
            if cn == "getattr" and len(v.args) >= 2 and isinstance(v.args[1], ast.Name) and "map" in v.args[1].id:
                return True  # the second argument is the *parameter* naming the map attribute (part of the signature)
            return cn in MAP_FUNCS
        if isinstance(v, ast.Name):
            return v.id in self.maps
        if isinstance(v, ast.ListComp):
            it = v.generators[0].iter
            return self._is_map(it) or (isinstance(it, ast.Subscript) and self._is_map(it.value))
        if isinstance(v, ast.Subscript) and isinstance(v.slice, ast.Slice):
            return self._is_map(v.value)
        if isinstance(v, ast.BinOp) and isinstance(v.op, ast.Add):
            return self._is_map(v.left) or self._is_map(v.right)
        return False


# ------------------------------------------------------------------ R01b index kinds
POS, CNT, OIDX, CIDX, NUM = "POS", "CNT", "OIDX", "CIDX", "NUM"


class Kinds:
    """Unit typing of the integer locals of one vault function."""

    def __init__(self, f: FuncInfo, ctx):
        self.f = f
        self.ctx = ctx
        self.env: dict[str, str] = {"position": POS}
        self.problems: list[tuple[ast.AST, str]] = []
        self.typed = 0
        self.roles = Roles(f)
        for a in f.all_params():
            if a.arg in ("odf_idx",):
                self.env[a.arg] = OIDX
            if a.arg in ("repeated",):
                self.env[a.arg] = CNT
        self._run(body_no_doc(f.node))

    def kind(self, e: ast.expr) -> str | None:
        if isinstance(e, ast.Constant) and isinstance(e.value, int) and not isinstance(e.value, bool):
            return NUM
        if isinstance(e, ast.Name):
            return self.env.get(e.id)
        if isinstance(e, ast.BoolOp) and isinstance(e.op, ast.Or):
            # x.repeated or 1
            if isinstance(e.values[0], ast.Attribute) and e.values[0].attr == "repeated":
                return CNT
            return self.kind(e.values[0])
        if isinstance(e, ast.Attribute) and e.attr in ("repeated", "width", "height"):
            return CNT
        if isinstance(e, ast.Subscript):
            base = e.value
            if isinstance(base, ast.Name) and base.id in self.roles.maps:
                k = self.kind(e.slice) if not isinstance(e.slice, ast.Slice) else None
                if not isinstance(e.slice, ast.Slice):
                    self._need(e.slice, OIDX, "index into a position map", e)
                return POS
            return None
        if isinstance(e, ast.Call):
            cn = call_name(e)
            if cn == "find_odf_idx":
                if len(e.args) == 2:
                    self._need(e.args[1], POS, "find_odf_idx() position", e)
                return OIDX
            if cn == "index":
                return CIDX
            if cn == "len" and e.args and isinstance(e.args[0], ast.Name) and e.args[0].id in self.roles.maps:
                return OIDX
            if cn in ("min", "max") and e.args:
                ks = {self.kind(a) for a in e.args} - {None, NUM}
                return next(iter(ks)) if len(ks) == 1 else None
            return None
        if isinstance(e, ast.BinOp) and isinstance(e.op, (ast.Add, ast.Sub)):
            a, b = self.kind(e.left), self.kind(e.right)
            self.typed += 1
            sub = isinstance(e.op, ast.Sub)
            if a is None or b is None:
                return None
            if b == NUM:
                return a
            if a == NUM:
                return b if not sub else (b if b == CNT else None)
            if a == POS and b == POS:
                if sub:
                    return CNT
                self.problems.append((e, "two positions are added"))
                return None
            if a == POS and b == CNT:
                return POS
            if a == CNT and b == POS:
                if sub:
                    self.problems.append((e, "a position is subtracted from a count"))
                    return None
                return POS
            if a == CNT and b == CNT:
                return CNT
            if {a, b} & {OIDX, CIDX}:
                self.problems.append((e, f"{a} {'-' if sub else '+'} {b}: index kinds do not combine with {b if a in (OIDX, CIDX) else a}"))
                return None
            return None
        if isinstance(e, ast.UnaryOp):
            return self.kind(e.operand)
        return None

    def _need(self, e: ast.expr, want: str, what: str, node: ast.AST) -> None:
        got = self.kind(e)
        self.typed += 1
        if got is None:
            return
        if got == NUM:
            return
        ok = got == want
        self.ctx.instance("R01b", f"{self.f.file}:{self.f.ident}", f"{what}: {norm(e, 30)} is {got}, needs {want}", ok=ok, nontrivial=True,
                          line=getattr(node, "lineno", None))
        if not ok:
            self.ctx.report("R01b", self.f, node, f"{what}: {norm(e, 40)} ({got} for {want})",
                            f"{what} receives {norm(e, 40)!r}, a {KIND_TEXT[got]}, where a {KIND_TEXT[want]} is required: in a table the raw "
                            f"child index differs from the item index by the number of preceding non-item children, so the wrong item is "
                            f"addressed")

    def _run(self, body) -> None:
        for s in body:
            for n in walk_no_nested(s):
                if isinstance(n, ast.Assign) and len(n.targets) == 1 and isinstance(n.targets[0], ast.Name):
                    k = self.kind(n.value)
                    if k and k != NUM:
                        prev = self.env.get(n.targets[0].id)
                        if prev and prev != k and prev != NUM:
                            self.problems.append((n, f"variable {n.targets[0].id} changes kind from {prev} to {k}"))
                        self.env[n.targets[0].id] = k
                    elif k == NUM and n.targets[0].id not in self.env:
                        self.env[n.targets[0].id] = NUM
                elif isinstance(n, ast.AugAssign) and isinstance(n.target, ast.Name):
                    k = self.kind(n.value)
                    t = self.env.get(n.target.id)
                    if t in (OIDX, CIDX) and k not in (NUM, None):
                        self.problems.append((n, f"{t} variable {n.target.id} incremented by a {k}"))
                    if t == CNT and k == CNT:
                        pass
                elif isinstance(n, ast.Call):
                    cn = call_name(n)
                    if cn == "_get_element_idx2" and len(n.args) == 2:
                        self._need(n.args[1], OIDX, "_get_element_idx2() item index", n)
                    elif cn == "insert" and isinstance(n.func, ast.Attribute) and ast.unparse(n.func.value) == "vault":
                        p = get_arg(n, None, "position")
                        if p is not None:
                            self._need(p, CIDX, "vault.insert(position=) child index", n)
                    elif cn in ("insert_map_once",) and len(n.args) == 3:
                        self._need(n.args[1], OIDX, "insert_map_once() item index", n)
                        self._need(n.args[2], CNT, "insert_map_once() run length", n)
                    elif cn == "_erase_map_once" and len(n.args) == 2:
                        self._need(n.args[1], OIDX, "_erase_map_once() item index", n)
                    elif cn == "_set_repeated" and n.args:
                        self._need(n.args[0], CNT, "_set_repeated() count", n)
                elif isinstance(n, ast.Compare) and len(n.ops) == 1:
                    a, b = self.kind(n.left), self.kind(n.comparators[0])
                    if a and b and NUM not in (a, b) and a != b and not isinstance(n.ops[0], (ast.In, ast.NotIn, ast.Is, ast.IsNot)):
                        self.problems.append((n, f"comparison of a {a} with a {b}"))
                    if isinstance(n.ops[0], (ast.In, ast.NotIn)) and isinstance(n.comparators[0], ast.Name) and n.comparators[0].id in self.roles.caches:
                        self._need(n.left, OIDX, "key of the wrapper index", n)
                elif isinstance(n, ast.Subscript) and isinstance(n.value, ast.Name) and n.value.id in self.roles.caches and not isinstance(n.slice, ast.Slice):
                    self._need(n.slice, OIDX, "key of the wrapper index", n)


KIND_TEXT = {POS: "logical position", CNT: "repeat count", OIDX: "index among the items of the scheme", CIDX: "raw child index", NUM: "number"}


def r01b(ctx):
    repo = ctx.repo
    ctx.rule("R01b", "index kinds: positions, counts, item indices and raw child indices are never confused in the vault functions", floor=25)
    m = repo.module("element_cached")
    for name in VAULTS + ("insert_map_once", "_erase_map_once", "find_odf_idx"):
        f = m.functions.get(name)
        if f is None:
            raise AnalysisError(f"R01b: vault function vanished: {name}")
        k = Kinds(f, ctx)
        for node, msg in k.problems:
            ctx.instance("R01b", f"{f.file}:{f.ident}", f"{norm(node, 50)}", ok=False, line=getattr(node, "lineno", None))
            ctx.report("R01b", f, node, node, f"index-kind error: {msg}")
        ctx.extra.setdefault("kinds_typed_expressions", {})[name] = k.typed


# ------------------------------------------------------------------ R01c
def r01c(ctx):
    repo = ctx.repo
    ctx.rule("R01c", "insert_column and delete_column shift exactly the rows that have column x (guard row.width > x)", floor=2)
    for q in ("Table.insert_column", "Table.delete_column"):
        f = repo.func(q)
        xs = [a.arg for a in f.all_params() if a.arg != "self"]
        xname = xs[0] if xs else "x"
        loops = [n for n in walk_no_nested(f.node) if isinstance(n, ast.For) and isinstance(n.iter, ast.Call) and call_name(n.iter) == "_get_rows"]
        if not loops:
            raise AnalysisError(f"R01c: per-row loop not found in {q}")
        loop = loops[0]
        rv = loop.target.id if isinstance(loop.target, ast.Name) else "row"
        edits = [c for c in ast.walk(loop) if isinstance(c, ast.Call) and call_name(c) in ("insert_cell", "delete_cell") and isinstance(c.func, ast.Attribute)
                 and ast.unparse(c.func.value) == rv]
        ok = False
        gtxt = "no guard"
        for e in edits:
            from ..paths import structural_guards
            gs = structural_guards(e, stop=loop)
            gtxt = " and ".join(norm(t, 40) for t, _ in gs) or "no guard"
            if len(gs) == 1 and gs[0][1]:
                t = gs[0][0]
                if isinstance(t, ast.Compare) and len(t.ops) == 1:
                    l, op, r = ast.unparse(t.left), t.ops[0], ast.unparse(t.comparators[0])
                    if (l == f"{rv}.width" and isinstance(op, ast.Gt) and r == xname) or (r == f"{rv}.width" and isinstance(op, ast.Lt) and l == xname) \
                            or (l == f"{rv}.width" and isinstance(op, ast.GtE) and r == f"{xname} + 1"):
                        ok = True
        ctx.instance("R01c", f"{f.file}:{f.ident}", f"per-row edit guarded by `{gtxt}`", ok=ok and bool(edits), nontrivial=True, line=loop.lineno)
        if not (ok and edits):
            ctx.report("R01c", f, loop, f"per-row guard `{gtxt}`",
                       f"{q} edits column {xname} of each row under the guard `{gtxt}`; only `{rv}.width > {xname}` selects exactly the rows that "
                       f"have that column, so with another guard some rows are not shifted like the others")


# ------------------------------------------------------------------ R01d
def r01d(ctx):
    repo = ctx.repo
    ctx.rule("R01d", "a partially covered run is kept when at least one repetition remains (threshold >= 1)", floor=4)
    m = repo.module("element_cached")
    for name in VAULTS:
        f = m.functions[name]
        for n in walk_no_nested(f.node):
            if not isinstance(n, ast.If):
                continue
            from ..paths import if_arms
            t, body_t, body_f = if_arms(n)
            flipped = False
            keep = [c for s in body_t for c in ast.walk(s) if isinstance(c, ast.Call) and call_name(c) == "_set_repeated"]
            keep_direct = [c for c in keep if c in [x.value for x in body_t if isinstance(x, ast.Expr)]]
            if not keep_direct:
                # the keeping arm may be written as the else arm of the opposite comparison (`if k < 1: delete else: keep`)
                keep = [c for s in body_f for c in ast.walk(s) if isinstance(c, ast.Call) and call_name(c) == "_set_repeated"]
                keep_direct = [c for c in keep if c in [x.value for x in body_f if isinstance(x, ast.Expr)]]
                if not keep_direct:
                    continue
                body_t, body_f, flipped = body_f, body_t, True
            drop = [c for s in body_f for c in ast.walk(s) if isinstance(c, ast.Call) and call_name(c) == "delete"]
            kv = ast.unparse(keep_direct[0].args[0]) if keep_direct[0].args else "?"
            ok = False
            if isinstance(t, ast.Compare) and len(t.ops) == 1 and ast.unparse(t.left) == kv and isinstance(t.comparators[0], ast.Constant):
                c = t.comparators[0].value
                if not flipped:
                    ok = (isinstance(t.ops[0], ast.GtE) and c == 1) or (isinstance(t.ops[0], ast.Gt) and c == 0)
                else:  # the test selects the deleting arm: k < 1  /  k <= 0
                    ok = (isinstance(t.ops[0], ast.Lt) and c == 1) or (isinstance(t.ops[0], ast.LtE) and c == 0)
            ctx.instance("R01d", f"{f.file}:{f.ident}", f"`{norm(t, 40)}` keeps the item with _set_repeated({kv})" + (" else deletes it" if drop else ""),
                         ok=ok, nontrivial=True, line=n.lineno)
            if not ok:
                ctx.report("R01d", f, n, f"if {norm(t, 40)}: …_set_repeated({kv})",
                           f"the item is kept only when `{norm(t, 40)}`; a run with exactly one repetition left still stands for a cell/row "
                           f"and must be kept (threshold {kv} >= 1), otherwise that cell/row is deleted")


# ------------------------------------------------------------------ R01e affine conservation
class Aff:
    """Affine form over named symbols with Fraction coefficients."""

    def __init__(self, d=None, c=0):
        self.d = {k: Fraction(v) for k, v in (d or {}).items() if v != 0}
        self.c = Fraction(c)

    def __add__(self, o):
        d = dict(self.d)
        for k, v in o.d.items():
            d[k] = d.get(k, 0) + v
        return Aff(d, self.c + o.c)

    def __neg__(self):
        return Aff({k: -v for k, v in self.d.items()}, -self.c)

    def __sub__(self, o):
        return self + (-o)

    def __eq__(self, o):
        return isinstance(o, Aff) and self.d == o.d and self.c == o.c

    def __hash__(self):
        return hash((tuple(sorted(self.d.items())), self.c))

    def __repr__(self):
        parts = [f"{'' if v == 1 else ('-' if v == -1 else str(v) + '*')}{k}" for k, v in sorted(self.d.items())]
        if self.c or not parts:
            parts.append(str(self.c))
        return " + ".join(parts).replace("+ -", "- ")


def sym(n):
    return Aff({n: 1})


class AffEval:
    """Evaluate the integer locals of a vault function as affine forms over
    P (position), R (repeat count of the new item), S (first position of the run found), L (length of that run)."""

    def __init__(self, f: FuncInfo, roles: "Roles | None" = None):
        self.f = f
        self.roles = roles or Roles(f)
        self.env: dict[str, Aff] = {"position": sym("P")}

    def ev(self, e: ast.expr) -> Aff | None:
        if isinstance(e, ast.Constant) and isinstance(e.value, int) and not isinstance(e.value, bool):
            return Aff(c=e.value)
        if isinstance(e, ast.Name):
            return self.env.get(e.id)
        if isinstance(e, ast.BinOp) and isinstance(e.op, (ast.Add, ast.Sub)):
            a, b = self.ev(e.left), self.ev(e.right)
            if a is None or b is None:
                return None
            return a + b if isinstance(e.op, ast.Add) else a - b
        if isinstance(e, ast.UnaryOp) and isinstance(e.op, ast.USub):
            a = self.ev(e.operand)
            return None if a is None else -a
        if isinstance(e, ast.BoolOp) and isinstance(e.op, ast.Or) and isinstance(e.values[0], ast.Attribute) and e.values[0].attr == "repeated" \
                and isinstance(e.values[0].value, ast.Name) and e.values[0].value.id == "item":
            return sym("R")
        if isinstance(e, ast.Subscript) and isinstance(e.value, ast.Name) and e.value.id in self.roles.maps:
            sl = e.slice
            if isinstance(sl, ast.Name) and sl.id in self.roles.idx:
                return sym("S") + sym("L") - Aff(c=1)  # last position of the run found
            if isinstance(sl, ast.BinOp) and isinstance(sl.op, ast.Sub) and isinstance(sl.left, ast.Name) and sl.left.id in self.roles.idx \
                    and isinstance(sl.right, ast.Constant) and sl.right.value == 1:
                return sym("S") - Aff(c=1)  # last position of the previous run
        return None

    def _idx_positive(self, t: ast.expr) -> bool:
        return isinstance(t, ast.Compare) and len(t.ops) == 1 and isinstance(t.ops[0], ast.Gt) and isinstance(t.left, ast.Name) and t.left.id in self.roles.idx \
            and isinstance(t.comparators[0], ast.Constant) and t.comparators[0].value == 0

    def assign_all(self, body) -> None:
        for s in body:
            if isinstance(s, ast.Assign) and len(s.targets) == 1 and isinstance(s.targets[0], ast.Name):
                v = self.ev(s.value)
                if v is not None:
                    self.env[s.targets[0].id] = v
            elif isinstance(s, ast.If):
                # `if odf_idx > 0: before = map[odf_idx-1] else: before = -1`: the else arm is the S == 0 instance of the then arm
                from ..paths import if_arms
                core, body_t, body_f = if_arms(s)
                a = AffEval(self.f, self.roles)
                a.env = dict(self.env)
                a.assign_all(body_t)
                b = AffEval(self.f, self.roles)
                b.env = dict(self.env)
                b.assign_all(body_f)
                for k in set(a.env) | set(b.env):
                    va, vb = a.env.get(k), b.env.get(k)
                    if va is not None and vb is not None and va == vb:
                        self.env[k] = va
                    elif va is not None and vb is not None and self._idx_positive(core) \
                            and not vb.d and va.d == {"S": 1} and va.c == vb.c:
                        self.env[k] = va  # vb is va at S = 0
                    elif k in self.env and (va != self.env.get(k) or vb != self.env.get(k)):
                        self.env.pop(k, None)


def r01e(ctx):
    repo = ctx.repo
    ctx.rule("R01e", "run-length conservation in the vault functions (affine forms over position, repeat, run start, run length)", floor=8)
    m = repo.module("element_cached")
    P, R, S, L = sym("P"), sym("R"), sym("S"), sym("L")
    one = Aff(c=1)
    # what the split requires, by role: the repeat left on the item found, the repeat of its clone that follows the new item
    want = {
        "set_item_in_vault": {"current": [P - S], "after": [S + L - P - R]},
        "insert_item_in_vault": {"current": [P - S], "after": [S + L - P]},
        "delete_item_in_vault": {"current": [L - one], "after": []},
    }
    for name in VAULTS:
        f = m.functions[name]
        roles = Roles(f)
        if not roles.maps or not roles.idx or not roles.current:
            raise AnalysisError(f"R01e: roles of the locals of {name} not found (map {sorted(roles.maps)}, index {sorted(roles.idx)}, item {sorted(roles.current)})")
        ae = AffEval(f, roles)
        ae.assign_all(body_no_doc(f.node))
        written: dict[str, list] = {"current": [], "after": []}
        # (1)+(2) what is written: every _set_repeated(k) on the item found / on its clone is the part of the run the split leaves there
        allowed = {x for v in want[name].values() for x in v} | {R}
        for n in walk_no_nested(f.node):
            if isinstance(n, ast.Call) and call_name(n) == "_set_repeated" and n.args and isinstance(n.func, ast.Attribute) and isinstance(n.func.value, ast.Name):
                who = "current" if n.func.value.id in roles.current else ("after" if n.func.value.id in roles.after else None)
                if who is None:
                    continue
                got = ae.ev(n.args[0])
                need = want[name][who]
                ok = got is not None and got in need
                written[who].append(got)
                ctx.instance("R01e", f"{f.file}:{f.ident}", f"repeat left on the {'item found' if who == 'current' else 'clone after the new item'}: "
                             f"{norm(n.args[0], 30)} = {got!r} (required {need[0]!r})" if need else f"{norm(n, 40)}", ok=ok, nontrivial=True, line=n.lineno)
                if not ok:
                    ctx.report("R01e", f, n, n, f"in {name} the {'item found' if who == 'current' else 'clone that follows the new item'} receives repeat count {got!r} over "
                               f"(P position, R new repeat, S run start, L run length); splitting the run [S, S+L) at P requires {[repr(x) for x in need]}: "
                               f"repetitions are lost or invented")
            if isinstance(n, ast.Call) and call_name(n) == "insert_map_once" and len(n.args) == 3:
                got = ae.ev(n.args[2])
                ok = got is not None and got in allowed
                ctx.instance("R01e", f"{f.file}:{f.ident}", f"map run length {norm(n.args[2], 30)} = {got!r}", ok=ok, nontrivial=True, line=n.lineno)
                if not ok:
                    ctx.report("R01e", f, n, n, f"the position map receives a run of length {got!r}, which is none of the parts of the split")
        for who, need in want[name].items():
            if need and not written[who]:
                ctx.instance("R01e", f"{f.file}:{f.ident}", f"no repeat is written on the {'item found' if who == 'current' else 'clone after the new item'}", ok=False, line=f.node.lineno)
                ctx.report("R01e", f, f.node, f"{name}: no _set_repeated on the {who} item", f"{name} never writes the remaining repeat count of the {who} part of the split run")
        # (3) conservation
        if name in ("set_item_in_vault", "insert_item_in_vault") and written["current"] and written["after"] and written["current"][0] is not None and written["after"][0] is not None:
            tot = written["current"][0] + written["after"][0] + (R if name == "set_item_in_vault" else Aff())
            ok = tot == L
            ctx.instance("R01e", f"{f.file}:{f.ident}", f"before {'+ new ' if name == 'set_item_in_vault' else ''}+ after = {tot!r} = L", ok=ok, nontrivial=True)
            if not ok:
                ctx.report("R01e", f, f.node, f"parts add up to {tot!r} ≠ L", f"{name}: the parts of the split run do not add up to the run")
    # delete: map shift is exactly -1 on every later run
    f = m.functions["delete_item_in_vault"]
    shifts = [n for n in walk_no_nested(f.node) if isinstance(n, ast.ListComp)]
    nset = len([n for n in walk_no_nested(f.node) if isinstance(n, ast.Call) and call_name(n) == "setattr"])
    ok = bool(shifts) and len(shifts) == nset and all(isinstance(n.elt, ast.BinOp) and isinstance(n.elt.op, ast.Sub) and isinstance(n.elt.right, ast.Constant) and n.elt.right.value == 1 for n in shifts)
    ctx.instance("R01e", f"{f.file}:{f.ident}", "later runs shift by exactly one position", ok=ok, nontrivial=True)
    if not ok:
        ctx.report("R01e", f, f.node, "map shift after delete", "positions after the deleted item are not shifted by exactly one")
    # insert_map_once / _erase_map_once: juska = before + repeated ; shift = ±repeated
    g = m.functions["insert_map_once"]
    from ..shape import has
    ok = has(g.node, "J_ = B_ + R_") and has(g.node, "[X_ + R_ for X_ in M_[I_:]]") and has(g.node, "R_ = R_ or 1")
    ctx.instance("R01e", f"{g.file}:{g.ident}", "new run ends at before + repeated; later runs shift by +repeated", ok=ok, nontrivial=True)
    if not ok:
        ctx.report("R01e", g, g.node, "insert_map_once arithmetic", "insert_map_once no longer ends the new run at before + repeated / shifts later runs by repeated")
    h = m.functions["_erase_map_once"]
    ok = has(h.node, "R_ = C_ - B_") and has(h.node, "M_[:I_] + [X_ - R_ for X_ in M_[I_ + 1:]]")
    ctx.instance("R01e", f"{h.file}:{h.ident}", "erased run length = current - before; later runs shift by -length", ok=ok, nontrivial=True)
    if not ok:
        ctx.report("R01e", h, h.node, "_erase_map_once arithmetic", "_erase_map_once no longer removes exactly the length of the erased run")


# ------------------------------------------------------------------ R01f/g/h
def r01fgh(ctx):
    repo = ctx.repo
    ctx.rule("R01f", "append declarations: the run length declared to the map is the repeat of the item appended", floor=6)
    ctx.rule("R01g", "position lookup: first run whose last position is >= the position (bisect_left), None beyond the end", floor=2)
    ctx.rule("R01h", "bulk setters advance by the width of what they just set (cells: repeat or 1; rows: one per input row, also when skipped)", floor=4)
    for cname in ("Row", "Table"):
        c = repo.cls(cname)
        for name, fs in c.methods.items():
            f = fs[0]
            for n in walk_no_nested(f.node):
                if not (isinstance(n, ast.Call) and call_name(n) in ("append_cell", "append_row", "append_column")):
                    continue
                rep = get_arg(n, None, "_repeated")
                if rep is None or not n.args:
                    continue
                item = n.args[0]
                ok, why = False, ""
                if isinstance(item, ast.Call) and call_name(item) in ("Cell", "Row", "Column"):
                    ir = get_arg(item, None, "repeated")
                    ok = ir is not None and ast.unparse(ir) == ast.unparse(rep)
                    why = f"{call_name(item)}(repeated={ast.unparse(ir) if ir is not None else None}) declared as {ast.unparse(rep)}"
                elif isinstance(item, ast.Name) and isinstance(rep, ast.Name):
                    # rep must be defined as `<item>.repeated or 1` (or the literal 1 on the path where item was just created)
                    defs = [a for a in walk_no_nested(f.node) if isinstance(a, ast.Assign) and isinstance(a.targets[0], ast.Name) and a.targets[0].id == rep.id]
                    texts = {ast.unparse(a.value) for a in defs}
                    ok = bool(defs) and texts <= {f"{item.id}.repeated or 1", "1"} and f"{item.id}.repeated or 1" in texts
                    why = f"{item.id} declared as {rep.id} = {sorted(texts)}"
                ctx.instance("R01f", f"{f.file}:{f.ident}", f"{call_name(n)}: {why}", ok=ok, nontrivial=True, line=n.lineno)
                if not ok:
                    ctx.report("R01f", f, n, n, f"the run length declared with _repeated is not the repeat count of the appended item ({why}): "
                               f"the position map and the XML disagree after the append")
    # the append primitives themselves: default for _repeated is `<item>.repeated or 1`
    for q, var in (("Row.append_cell", "cell"), ("Table.append_row", "row"), ("Table.append_column", "column")):
        f = repo.func(q)
        dfl = [a for a in walk_no_nested(f.node) if isinstance(a, ast.Assign) and isinstance(a.targets[0], ast.Name) and a.targets[0].id == "_repeated"]
        texts = {ast.unparse(a.value) for a in dfl}
        ok = f"{var}.repeated or 1" in texts and texts <= {f"{var}.repeated or 1", "1"}
        ctx.instance("R01f", f"{f.file}:{f.ident}", f"_repeated defaults to {sorted(texts)}", ok=ok, nontrivial=True)
        if not ok:
            ctx.report("R01f", f, f.node, f"_repeated default {sorted(texts)}", f"{q} does not default the declared run length to `{var}.repeated or 1`")
        decl = [a for a in walk_no_nested(f.node) if isinstance(a, ast.Assign) and isinstance(a.value, ast.Call) and call_name(a.value) == "insert_map_once"]
        ok = bool(decl) and len(decl[0].value.args) == 3 and ast.unparse(decl[0].value.args[2]) == "_repeated"
        ctx.instance("R01f", f"{f.file}:{f.ident}", "map extended by _repeated", ok=ok)
        if not ok:
            ctx.report("R01f", f, f.node, "insert_map_once(…, _repeated)", f"{q} does not extend the map by the declared run length")
    # R01g
    from ..shape import find, has
    g = repo.func("element_cached:find_odf_idx")
    gp = [a.arg for a in g.all_params()]
    calls = [c for c in walk_no_nested(g.node) if isinstance(c, ast.Call) and call_name(c).startswith("bisect")]
    ok = len(calls) == 1 and call_name(calls[0]) == "bisect_left" and [ast.unparse(a) for a in calls[0].args] == gp[:2]
    ctx.instance("R01g", f"{g.file}:{g.ident}", f"index = bisect_left({', '.join(gp[:2])})", ok=ok, nontrivial=True)
    if not ok:
        ctx.report("R01g", g, g.node, "find_odf_idx bisect", "the map stores the last position of each run: the run holding `position` is the first entry >= position "
                   "(bisect_left); any other search addresses the neighbouring run")
    ok = bool(gp) and bool(find(g.node, f"I_ = bisect_left({gp[0]}, {gp[1]})")) and (
        has(g.node, f"if I_ < len({gp[0]}):\n    return I_") or has(g.node, f"if I_ >= len({gp[0]}):\n    return None")) and any(
        isinstance(r, ast.Return) and isinstance(r.value, ast.Constant) and r.value.value is None for r in walk_no_nested(g.node))
    ctx.instance("R01g", f"{g.file}:{g.ident}", "None when the position lies beyond the last run", ok=ok, nontrivial=True)
    if not ok:
        ctx.report("R01g", g, g.node, "find_odf_idx bound", "find_odf_idx does not return None exactly when the position is beyond the last run")
    h = repo.func("element_cached:make_cache_map")
    okm = has(h.node, "for I_, R_ in S_:\n    M_ = insert_map_once(M_, I_, R_)")
    ctx.instance("R01g", f"{h.file}:{h.ident}", "map built by insert_map_once(map, item index, repeat) per item", ok=okm)
    if not okm:
        ctx.report("R01g", h, h.node, "make_cache_map", "the initial map is not built from (item index, repeat) pairs")
    # R01h — the position counter is the local handed to the per-item setter; it advances by the width of what was set
    f = repo.func("Row.set_cells")
    loops = [n for n in walk_no_nested(f.node) if isinstance(n, ast.For) and any(isinstance(c, ast.Call) and call_name(c) == "set_cell" for c in ast.walk(n))]
    ok, texts = False, []
    if loops and isinstance(loops[0].target, ast.Name):
        lp, cv = loops[0], loops[0].target.id
        sc = [c for c in ast.walk(lp) if isinstance(c, ast.Call) and call_name(c) == "set_cell" and c.args and isinstance(c.args[0], ast.Name)]
        if sc:
            xv = sc[0].args[0].id
            steps = [a_ for a_ in ast.walk(lp) if isinstance(a_, ast.AugAssign) and isinstance(a_.target, ast.Name) and a_.target.id == xv and isinstance(a_.op, ast.Add)]
            texts = sorted(ast.unparse(a_.value).replace(cv, "<cell>") for a_ in steps)
            ok = texts == ["1", "<cell>.repeated or 1"]
    ctx.instance("R01h", f"{f.file}:{f.ident}", f"the position advances by {texts}", ok=ok, nontrivial=True)
    if not ok:
        ctx.report("R01h", f, f.node, f"Row.set_cells step {texts}", "after setting a cell the position must advance by that cell's repeat count (1 for None)")
    f = repo.func("Row.set_values")
    loops = [n for n in walk_no_nested(f.node) if isinstance(n, ast.For) and any(isinstance(c, ast.Call) and call_name(c) == "set_cell" for c in ast.walk(n))]
    ok, steps = False, []
    if loops:
        sc = [c for c in ast.walk(loops[0]) if isinstance(c, ast.Call) and call_name(c) == "set_cell" and c.args and isinstance(c.args[0], ast.Name)]
        if sc:
            xv = sc[0].args[0].id
            steps = [ast.unparse(a_.value) for a_ in ast.walk(loops[0]) if isinstance(a_, ast.AugAssign) and isinstance(a_.target, ast.Name) and a_.target.id == xv and isinstance(a_.op, ast.Add)]
            ok = steps == ["1"]
    ctx.instance("R01h", f"{f.file}:{f.ident}", f"the position advances by {steps}", ok=ok)
    if not ok:
        ctx.report("R01h", f, f.node, f"Row.set_values step {steps}", "values are single cells: the position must advance by one")
    for q in ("Table.set_cells", "Table.set_values"):
        f = repo.func(q)
        loop = [n for n in walk_no_nested(f.node) if isinstance(n, ast.For)]
        ok = False
        if loop:
            body = loop[0].body
            first = body[0] if body else None
            gr = [c for c in ast.walk(loop[0]) if isinstance(c, ast.Call) and call_name(c) in ("get_row", "set_row") and c.args and isinstance(c.args[0], ast.Name)]
            yv = gr[0].args[0].id if gr else None
            ok = yv is not None and isinstance(first, ast.AugAssign) and isinstance(first.target, ast.Name) and first.target.id == yv \
                and repo.fold(first.value, f.module) == 1 and isinstance(first.op, ast.Add)
            pre = [a_ for a_ in walk_no_nested(f.node) if isinstance(a_, ast.AugAssign) and isinstance(a_.target, ast.Name) and a_.target.id == yv and isinstance(a_.op, ast.Sub)
                   and a_.lineno < loop[0].lineno]
            ok = ok and len(pre) == 1 and repo.fold(pre[0].value, f.module) == 1
        ctx.instance("R01h", f"{f.file}:{f.ident}", "row position: -= 1 before the loop, += 1 first in every iteration (also for skipped rows)", ok=ok, nontrivial=True)
        if not ok:
            ctx.report("R01h", f, f.node, f"{q} row stepping", "the row position must advance by one for every input row, including empty ones that are skipped")


def r01_caches(ctx, tom):
    """A read served from an obsolete map or a stale cached wrapper returns another cell than the grid's: the cache rules of C02
    (R02a/R02b from TOM, R02c vault protocol) are necessary conditions of C01 as well and are evaluated here too."""
    from .c02 import r02ab, r02c, r02f
    r02ab(ctx, tom)
    r02c(ctx)
    # two wrapper indexes that are one dict hand a Column where a Row is asked for (and the reverse): every reset gives each index its own dict
    r02f(ctx)
    # a memo that nothing invalidates answers from before the edit
    from .c02 import r02h
    r02h(ctx)
    # a setter that attaches the caller's own cell or row although it was asked to copy lets a later use of that object move or change what the grid holds (shared with C10)
    from .c10 import r10h
    r10h(ctx)
    # the bulk editors of the grid read their rows through Table.traverse: rows that are mis-stamped, skipped, or aliases of one another are
    # written back to the wrong place / several places (R08f is a necessary condition of the grid model as well)
    from .c08 import r08f
    r08f(ctx)
    # a coordinate that is wrapped or bounded by the extent of the *other* axis addresses another cell than the grid's (rule shared with C19)
    from .c19 import r19a
    r19a(ctx)


def r01i(ctx):
    """A position beyond the end is reached by padding, not by landing at the end.

    `set_row`, `insert_row`, `Row.set_cell` and `Row.insert_cell` accept a position past the current extent: the grid model fills the gap
    with empty rows / cells and puts the item at the position asked for.  The code does it with one repeated filler — `Row(repeated=D)`,
    `Cell(repeated=D)`, `_repeated=D`, D = position − extent — appended before the item.  Rule: in every method of Table/Row that places
    its item either through a vault function or through append_row/append_cell, each append of the item that can be reached with
    D > 0 (signs of D derived from the tests on D or on `position ⋚ extent` in force) is preceded, in its own block, by the append of a
    filler constructed with `repeated=` that same D.
    """
    from ..paths import structural_guards
    repo = ctx.repo
    ctx.rule("R01i", "placing an item beyond the current extent appends a filler of (position − extent) repetitions first", floor=4)
    VAULT = {"set_item_in_vault", "insert_item_in_vault"}
    n = 0
    for cname, ext_attr, app in (("Table", "height", "append_row"), ("Row", "width", "append_cell")):
        c = repo.cls(cname)
        for name, fs in sorted(c.methods.items()):
            f = fs[0]
            calls_ = [x for x in walk_no_nested(f.node) if isinstance(x, ast.Call)]
            if not any(call_name(x) in VAULT for x in calls_):
                continue
            params = [a.arg for a in f.all_params() if a.arg != "self"]
            if not params:
                continue
            pos = params[0]
            # D = pos - self.<extent>
            dvars = {a.targets[0].id for a in walk_no_nested(f.node) if isinstance(a, ast.Assign) and isinstance(a.targets[0], ast.Name) and isinstance(a.value, ast.BinOp)
                     and isinstance(a.value.op, ast.Sub) and isinstance(a.value.left, ast.Name) and a.value.left.id == pos
                     and isinstance(a.value.right, ast.Attribute) and a.value.right.attr == ext_attr}
            item_apps = [x for x in calls_ if call_name(x) == app and x.args and isinstance(x.args[0], ast.Name) and x.args[0].id in params]
            if not item_apps:
                continue

            def signs(t, pol):
                """signs of D = pos - extent compatible with test t having outcome pol; None when t says nothing about D"""
                if isinstance(t, ast.UnaryOp) and isinstance(t.op, ast.Not):
                    return signs(t.operand, not pol)
                if not (isinstance(t, ast.Compare) and len(t.ops) == 1):
                    return None
                l, op, r = t.left, t.ops[0], t.comparators[0]
                flip = False
                if isinstance(l, ast.Name) and l.id in dvars and isinstance(r, ast.Constant) and r.value == 0:
                    pass
                elif isinstance(r, ast.Name) and r.id in dvars and isinstance(l, ast.Constant) and l.value == 0:
                    flip = True
                elif isinstance(l, ast.Name) and l.id == pos and isinstance(r, ast.Attribute) and r.attr == ext_attr:
                    pass
                elif isinstance(r, ast.Name) and r.id == pos and isinstance(l, ast.Attribute) and l.attr == ext_attr:
                    flip = True
                else:
                    return None
                table = {ast.Lt: {"-"}, ast.LtE: {"-", "0"}, ast.Gt: {"+"}, ast.GtE: {"+", "0"}, ast.Eq: {"0"}, ast.NotEq: {"-", "+"}}
                sg = table.get(type(op))
                if sg is None:
                    return None
                if flip:
                    sg = {{"-": "+", "+": "-", "0": "0"}[x] for x in sg}
                return sg if pol else {"-", "0", "+"} - sg

            for x in item_apps:
                allowed = {"-", "0", "+"}
                for t, pol in structural_guards(x, stop=f.node):
                    sg = signs(t, pol)
                    if sg is not None:
                        allowed &= sg
                n += 1
                ok = True
                why = "not reachable with a position beyond the extent"
                if "+" in allowed:
                    # a filler appended before it in the same block
                    blk = None
                    for st in ast.walk(f.node):
                        for fld in ("body", "orelse"):
                            b = getattr(st, fld, None)
                            if isinstance(b, list) and any(any(y is x for y in ast.walk(s_)) for s_ in b):
                                blk = b
                    filler = False
                    for s_ in blk or []:
                        if any(y is x for y in ast.walk(s_)):
                            break
                        for y in ast.walk(s_):
                            if isinstance(y, ast.Call) and call_name(y) == app and y.args and isinstance(y.args[0], ast.Call):
                                kws = {k.arg: k.value for k in y.args[0].keywords}
                                rep = kws.get("repeated")
                                if isinstance(rep, ast.Name) and rep.id in dvars or isinstance(rep, ast.BinOp) and isinstance(rep.op, ast.Sub) and isinstance(rep.left, ast.Name) and rep.left.id == pos:
                                    filler = True
                    ok = filler
                    why = "filler of (position − extent) repetitions appended first" if ok else "reachable beyond the extent without a filler"
                ctx.instance("R01i", f"{f.file}:{f.ident}", f"{norm(x, 40)}: {why} (signs of position − {ext_attr}: {''.join(sorted(allowed))})", ok=ok, nontrivial=True, line=x.lineno)
                if not ok:
                    ctx.report("R01i", f, x, norm(x, 60),
                               f"{cname}.{name} appends the item on a path that is taken when the position lies beyond the current {ext_attr} (position − {ext_attr} > 0) without first appending "
                               f"the (position − {ext_attr}) empty {'rows' if cname == 'Table' else 'cells'} in between: the item lands at the end instead of at the position asked for and every later "
                               f"coordinate is shifted against the grid")
    if n == 0:
        raise AnalysisError("R01i: no positional placement with an append fallback found")


_WRITERS = {"set_item_in_vault", "insert_item_in_vault", "delete_item_in_vault", "set_cell", "set_row", "set_cells", "append_row", "append_cell", "append_column",
            "set_value", "set_values", "set_row_values", "set_column", "insert_cell", "insert_row", "insert_column", "extend", "extend_cells", "extend_rows", "_append",
            "set_row_cells", "set_column_cells", "set_value_and_type", "clear", "append_named_range", "insert_map_once", "insert", "append", "set_column_values"}


def r01j(ctx):
    """A write is a write, whatever is written and wherever.

    In the grid model every set / insert / append changes the grid: writing None beyond the edge still extends the table, writing a value
    equal to the old one is still a write.  A setter that returns early because "there is nothing to do" (the value is None, the position
    lies outside, the cell looks the same) leaves size and content behind the model.  Rule: every normal path through a set_* / insert_* /
    append_* method of Table and Row passes a call that writes (a vault function, another setter, an append) or the head of a loop over the
    caller's items; set_span, which may refuse, is the business of C17.
    """
    from ..paths import cfg_of, node_of
    repo = ctx.repo
    ctx.rule("R01j", "every normal path of a set_/insert_/append_ method of Table and Row reaches a write (no early return on the value or the position)", floor=20)
    for cname in ("Table", "Row"):
        c = repo.cls(cname)
        for name, fs in sorted(c.methods.items()):
            if not name.startswith(("set_", "insert_", "append_")) or name in ("set_span",) or fs[0].kind in ("setter", "getter"):
                continue
            f = fs[0]
            cfg = cfg_of(f)
            ws = [node_of(cfg, x) for x in walk_no_nested(f.node) if isinstance(x, ast.Call) and call_name(x) in _WRITERS]
            ws += [node_of(cfg, lp) for lp in walk_no_nested(f.node) if isinstance(lp, ast.For) and any(isinstance(x, ast.Call) and call_name(x) in _WRITERS for x in ast.walk(lp))]
            ws = [w for w in ws if w is not None]
            if not ws:
                continue
            byp = cfg.path_avoiding(cfg.entry, cfg.exit, ws, follow_exc=False)
            ctx.instance("R01j", f"{f.file}:{f.ident}", "every normal path writes", ok=byp is None, nontrivial=True, line=f.node.lineno)
            if byp is not None:
                last = [x for x in byp if x.stmt is not None][-1].stmt
                gs = [norm(t, 40) for t, _ in structural_guards_of(last, f)]
                ctx.report("R01j", f, last, f"{cname}.{name} can end at `{norm(last, 40)}` without writing",
                           f"{cname}.{name} has a normal path that writes nothing (ends at `{norm(last, 40)}` under {gs}): the grid model performs the write all the same — a value of None "
                           f"beyond the edge still extends the table — so size and content fall behind the model and every later operation is placed against the wrong extent")


def structural_guards_of(node, f):
    from ..paths import structural_guards
    try:
        return structural_guards(node, stop=f.node)
    except Exception:  # noqa: BLE001
        return []


def r01k(ctx):
    """"Set all the cells of the row" starts from an empty row.

    On the plain grid `set_row_values(y, values)` is `grid[y] = list(values)`: whatever the row held before is gone, also to the right of a
    shorter list.  Row.set_values / extend_cells write from column 0 on and leave alone what lies beyond the values they are given, so the
    whole-row shortcuts of Table get that meaning only because they fill a *new* Row and push it with set_row.  Filling a copy of the
    stored row instead (to keep its style, say) keeps the old cells beyond len(values).  Rule: in Table.set_row_values and
    Table.set_row_cells the row handed to set_row is, on every definition that reaches the call, a freshly constructed Row.
    """
    from ..paths import cfg_of, node_of, reaching_defs
    repo = ctx.repo
    ctx.rule("R01k", "the whole-row setters of Table fill a freshly constructed Row, not a copy of the stored one", floor=2)
    for q in ("Table.set_row_values", "Table.set_row_cells"):
        f = repo.func(q)
        cfg = cfg_of(f)
        byid = {nd.id: nd for nd in cfg.nodes}
        pushes = [x for x in walk_no_nested(f.node) if isinstance(x, ast.Call) and call_name(x) == "set_row" and is_self_attr(x.func)]
        if not pushes:
            raise AnalysisError(f"R01k: {q} no longer pushes a row with set_row")
        for push in pushes:
            arg = get_arg(push, 1, "row")
            bad = None
            if isinstance(arg, ast.Call) and call_name(arg) == "Row":
                pass
            elif isinstance(arg, ast.Name):
                pn = node_of(cfg, push)
                for d in reaching_defs(cfg, arg.id).get(pn.id, frozenset()):
                    st = byid[d].stmt
                    val = getattr(st, "value", None)
                    if not (isinstance(st, (ast.Assign, ast.AnnAssign)) and isinstance(val, ast.Call) and isinstance(val.func, ast.Name) and val.func.id == "Row"):
                        bad = st if st is not None else f.node
            else:
                bad = push
            ctx.instance("R01k", f"{f.file}:{f.ident}", f"{norm(push, 40)}: a new Row", ok=bad is None, nontrivial=True, line=push.lineno)
            if bad is not None:
                ctx.report("R01k", f, bad, f"{f.name}: {norm(bad, 40)}",
                           f"{f.ident} fills `{norm(bad, 50)}` instead of a new Row: Row.set_values / extend_cells leave the cells beyond the values they are given, so the old cells to "
                           f"the right of a shorter list survive — the grid model replaces the whole row")


_FIXTURE_L = '''
class Row:
    def _delete_cells(self):
        for child in self._el.findall(_get_lxml_tag(Cell._tag)):
            self._el.remove(child)
    def count(self):
        return len(self.get_elements("table:table-cell"))
    def fine(self, cell):
        cell.tag = "table:table-cell"
        if cell.tag == "table:covered-table-cell":
            return self.xpath("(table:table-cell|table:covered-table-cell)")
'''


def _cell_tag_selectors(tree: ast.AST):
    """uses of the plain cell tag (the literal or Cell._tag) as a selector: an argument of a call, not a retag, not a comparison, not next to the covered tag"""
    out = []
    parents = {}
    for x in ast.walk(tree):
        for ch in ast.iter_child_nodes(x):
            parents[id(ch)] = x
    for x in ast.walk(tree):
        plain = (isinstance(x, ast.Constant) and isinstance(x.value, str) and "table:table-cell" in x.value and "covered-table-cell" not in x.value) or \
            (isinstance(x, ast.Attribute) and x.attr == "_tag" and isinstance(x.value, ast.Name) and x.value.id == "Cell")
        if not plain:
            continue
        cur, ok = x, None
        while id(cur) in parents and ok is None:
            par = parents[id(cur)]
            if isinstance(par, ast.Call) and cur in par.args + [k.value for k in par.keywords]:
                fn = par.func.attr if isinstance(par.func, ast.Attribute) else getattr(par.func, "id", "")
                if fn in ("register_element_class_list", "register_element_class", "from_tag", "Element", "Cell"):
                    ok = True
                elif fn in ("_get_lxml_tag", "_get_lxml_tag_or_name", "str", "format"):
                    cur = par
                    continue
                else:
                    ok = False
            elif isinstance(par, ast.Compare):
                ok = True
            elif isinstance(par, (ast.Assign, ast.AnnAssign, ast.Expr, ast.Return, ast.stmt)):
                ok = True
            cur = par
        if ok is False:
            out.append(x)
    return out


def r01l(ctx):
    """The cells of a row are what the one cell scheme selects.

    A row holds `table:table-cell` and `table:covered-table-cell` children; both occupy positions of the grid.  Every reader, the position map
    and the vault functions select them with the one compiled scheme `(table:table-cell|table:covered-table-cell)`.  Code that enumerates the
    cells by the plain tag (to delete them "straight on the tree", to count them) leaves the covered cells of a span out: a whole-row set then
    keeps them in front of the new cells, the line is shifted right and the table widens.  Rule (expected count 0, fixture evaluated on every
    run): in the table modules the plain cell tag — the literal or `Cell._tag` — is never handed to a call as a selector; it appears only in
    retags, comparisons, registrations, and strings that also name the covered tag.
    """
    repo = ctx.repo
    ctx.rule("R01l", "table code never selects cells by the plain cell tag (covered cells are cells too)", floor=4)
    tree = ast.parse(_FIXTURE_L)
    got = sorted({fn.name for fn in ast.walk(tree) if isinstance(fn, ast.FunctionDef) and _cell_tag_selectors(fn)})
    if got != ["_delete_cells", "count"]:
        raise AnalysisError(f"R01l fixture: detector broken: {got}")
    for modname in ("row", "table", "cell", "element_cached"):
        m = repo.module(modname)
        bad = _cell_tag_selectors(m.tree)
        ctx.instance("R01l", f"{m.relpath}:<module>", "no selection by the plain cell tag", ok=not bad, nontrivial=True)
        for x in bad[:2]:
            f = next((g for g in m.all_funcs if g.node.lineno <= x.lineno <= (g.node.end_lineno or g.node.lineno)), None)
            ctx.report("R01l", f or m, x, f"plain cell tag selector {norm(x, 30)}",
                       f"cells are selected by the plain tag `table:table-cell` here: the `table:covered-table-cell` children of a row (cells under a span) are cells of the grid too and are left "
                       f"out — a whole-row set keeps them in front of the new cells and the row grows")


def run(ctx):
    tom = run_tom(ctx.repo)
    r01a(ctx, tom)
    r01_caches(ctx, tom)
    r01b(ctx)
    r01c(ctx)
    r01d(ctx)
    r01e(ctx)
    r01fgh(ctx)
    r01i(ctx)
    r01j(ctx)
    r01k(ctx)
    r01l(ctx)
    # removing an item straight on the lxml tree bypasses Element.delete and the vault bookkeeping (rule shared with C09)
    from .c09 import r09i
    r09i(ctx)
    from .round12 import r01m
    r01m(ctx)


from ..selftest import Seed, unparse_seed  # noqa: E402

_T = "src/odfdo/table.py"
_R = "src/odfdo/row.py"
_EC = "src/odfdo/element_cached.py"
SEEDS = [
    Seed("delete_cell leaves early beyond the declared width", "fault", "src/odfdo/table.py",
         "        # Outside the defined table\n        if y >= self.height:\n            return\n        # Inside the defined table\n        row = self._get_row2_base(y)\n        if row is None:\n            raise ValueError\n        repeated = row.repeated or 1\n        if repeated > 1:\n            # edit a single copy",
         "        # Outside the defined table\n        declared = self.width\n        if y >= self.height:\n            return\n        if x >= declared:\n            return\n        # Inside the defined table\n        row = self._get_row2_base(y)\n        if row is None:\n            raise ValueError\n        repeated = row.repeated or 1\n        if repeated > 1:\n            # edit a single copy", "R01m"),
    Seed("delete_cell tests the height through a local", "neutral", "src/odfdo/table.py",
         "        # Outside the defined table\n        if y >= self.height:\n            return\n        # Inside the defined table\n        row = self._get_row2_base(y)\n        if row is None:\n            raise ValueError\n        repeated = row.repeated or 1\n        if repeated > 1:\n            # edit a single copy",
         "        # Outside the defined table\n        rows = self.height\n        if not y < rows:\n            return\n        # Inside the defined table\n        row = self._get_row2_base(y)\n        if row is None:\n            raise ValueError\n        repeated = row.repeated or 1\n        if repeated > 1:\n            # edit a single copy"),
    Seed("Row._delete_cells removes the children found by the plain cell tag", "fault", _R,
         "        for cell in self._get_cells():\n            self.delete(cell)\n        self._compute_row_cache()",
         "        for cell in self.get_elements(Cell._tag):\n            self.delete(cell)\n        self._compute_row_cache()", "R01l"),
    Seed("set_row_values fills a copy of the stored row", "fault", _T,
         "        row = Row()  # needed if clones rows\n        row.set_values(values, style=style, cell_type=cell_type, currency=currency)\n        return self.set_row(y, row)  # needed if clones rows",
         "        row = self.get_row(y)\n        row.repeated = None\n        row.set_values(values, style=style, cell_type=cell_type, currency=currency)\n        return self.set_row(y, row, clone=False)", "R01k"),
    Seed("set_value returns early for None beyond the edge", "fault", _T,
         "        self.set_cell(\n            coord,\n            Cell(",
         "        x0, y0 = self._translate_cell_coordinates(coord)\n        if value is None and style is None and (y0 >= self.height or x0 >= self.width):\n            return\n        self.set_cell(\n            coord,\n            Cell(", "R01j"),
    Seed("insert_row beyond the height is an append", "fault", _T,
         "        diff = y - self.height\n        if diff < 0:\n            row_back = insert_item_in_vault(y, row, self, _xpath_row_idx, \"_tmap\")\n        elif diff == 0:\n            row_back = self.append_row(row, clone=clone)\n        else:\n            self.append_row(Row(repeated=diff), _repeated=diff, clone=False)\n            row_back = self.append_row(row, clone=clone)",
         "        if y < self.height:\n            row_back = insert_item_in_vault(y, row, self, _xpath_row_idx, \"_tmap\")\n        else:\n            row_back = self.append_row(row, clone=clone)", "R01i"),
    Seed("Row.set_cell pads only from two missing cells on", "fault", _R,
         "        elif diff > 0:\n            self.append_cell(Cell(repeated=diff), _repeated=diff, clone=False)\n            cell_back = self.append_cell(cell, _repeated=repeated, clone=clone)",
         "        elif diff == 1:\n            cell_back = self.append_cell(cell, _repeated=repeated, clone=clone)\n        elif diff > 1:\n            self.append_cell(Cell(repeated=diff), _repeated=diff, clone=False)\n            cell_back = self.append_cell(cell, _repeated=repeated, clone=clone)", "R01i"),
    Seed("insert_row compares the position with the height directly", "neutral", _T,
         "        diff = y - self.height\n        if diff < 0:\n            row_back = insert_item_in_vault(y, row, self, _xpath_row_idx, \"_tmap\")",
         "        diff = y - self.height\n        if y < self.height:\n            row_back = insert_item_in_vault(y, row, self, _xpath_row_idx, \"_tmap\")"),
    Seed("insert_cell forgets row.repeated = None", "fault", _T,
         "        row = self._get_row2(y, clone=True)\n        row.y = y\n        row.repeated = None\n        cell_back = row.insert_cell(x, cell, clone=False)",
         "        row = self._get_row2(y, clone=True)\n        row.y = y\n        cell_back = row.insert_cell(x, cell, clone=False)", "R01a"),
    Seed("set_cells forgets the un-repeat", "fault", _T,
         "            row = self.get_row(y, clone=True)\n            repeated = row.repeated or 1\n            if repeated >= 2:\n                row.repeated = None\n            row.set_cells(row_cells, start=x, clone=clone)",
         "            row = self.get_row(y, clone=True)\n            row.set_cells(row_cells, start=x, clone=clone)", "R01a"),
    Seed("set_cell un-repeats only above 2", "fault", _T,
         "            repeated = row.repeated or 1\n            if repeated > 1:\n                row = row.clone\n                row.repeated = None\n                cell_back = row.set_cell(x, cell, clone=clone)",
         "            repeated = row.repeated or 1\n            if repeated > 2:\n                row = row.clone\n                row.repeated = None\n                cell_back = row.set_cell(x, cell, clone=clone)", "R01a"),
    Seed("set_values loses the push-back", "fault", _T,
         "                style=style,\n            )\n            self.set_row(y, row, clone=False)\n            self._update_width(row)",
         "                style=style,\n            )\n            self._update_width(row)", "R01a"),
    Seed("delete_cell edits the stored row directly again", "fault", _T,
         "        repeated = row.repeated or 1\n        if repeated > 1:\n            # edit a single copy of the repeated row\n            row = row.clone\n            row.repeated = None\n            row.y = y\n            row.delete_cell(x)\n            self.set_row(y, row, clone=False)\n        else:\n            row.delete_cell(x)",
         "        row.delete_cell(x)", "R01a"),
    Seed("new method clears a stored row in place", "fault", _T,
         "    def delete_cell(self, coord: tuple | list | str) -> None:",
         "    def clear_row(self, y: int) -> None:\n        row = self._get_row2_base(y)\n        if row is not None:\n            row.rstrip(aggressive=True)\n            self._compute_table_cache()\n            self._indexes[\"_tmap\"] = {}\n\n    def delete_cell(self, coord: tuple | list | str) -> None:", "R01a"),
    Seed("vault: item looked up by child index", "fault", _EC,
         "delete_item = vault._get_element_idx2(vault_scheme, next_odf_idx)", "delete_item = vault._get_element_idx2(vault_scheme, target_idx + 1)", "R01b"),
    Seed("vault: insert at the item index", "fault", _EC,
         "    vault.insert(new_item, position=target_idx)\n    # Insert the remaining repetitions", "    vault.insert(new_item, position=odf_idx)\n    # Insert the remaining repetitions", "R01b"),
    Seed("vault: map patched at the child index", "fault", _EC,
         "        emap = insert_map_once(emap, idx, repeated_before)\n        idx += 1", "        emap = insert_map_once(emap, target_idx, repeated_before)\n        idx += 1", "R01b"),
    Seed("vault: find_odf_idx on a count", "fault", _EC,
         "    odf_idx = find_odf_idx(vault_map, position)\n    if odf_idx is None:\n        raise ValueError\n    current_cache = vault_map[odf_idx]\n    cache = vault._indexes[vault_map_name]\n    if odf_idx in cache:\n        current_item = cache[odf_idx]\n    else:\n        current_item = vault._get_element_idx2(vault_scheme, odf_idx)\n    vault._indexes[vault_map_name] = {}\n    if odf_idx > 0:\n        before_cache = vault_map[odf_idx - 1]\n    else:\n        before_cache = -1\n    # current_pos",
         "    odf_idx = find_odf_idx(vault_map, position)\n    if odf_idx is None:\n        raise ValueError\n    current_cache = vault_map[odf_idx]\n    cache = vault._indexes[vault_map_name]\n    if odf_idx in cache:\n        current_item = cache[odf_idx]\n    else:\n        current_item = vault._get_element_idx2(vault_scheme, position)\n    vault._indexes[vault_map_name] = {}\n    if odf_idx > 0:\n        before_cache = vault_map[odf_idx - 1]\n    else:\n        before_cache = -1\n    # current_pos", "R01b"),
    Seed("delete_column guard compares with the table width", "fault", _T,
         "        for row in self._get_rows():\n            if row.width > x:\n                row.delete_cell(x)", "        width = self.width\n        for row in self._get_rows():\n            if row.width >= width:\n                row.delete_cell(x)", "R01c"),
    Seed("insert_column shifts every row", "fault", _T,
         "            if row.width > x:\n                row.insert_cell(x, Cell(repeated=repeated))", "            if row.width >= x:\n                row.insert_cell(x, Cell(repeated=repeated))", "R01c"),
    Seed("overlap loop deletes a run with one repetition left", "fault", _EC, "            if is_repeated >= 1:", "            if is_repeated > 1:", "R01d"),
    Seed("delete keeps only runs above one", "fault", _EC, "    if new_repeated >= 1:", "    if new_repeated > 1:", "R01d"),
    Seed("set: remainder off by one", "fault", _EC,
         "    repeated_after = current_repeated - repeated_before - repeated\n", "    repeated_after = current_repeated - repeated_before - repeated - 1\n", "R01e"),
    Seed("insert: before count off by one", "fault", _EC,
         "    repeated_before = position - current_pos\n    repeated_after = current_repeated - repeated_before\n    new_item = item.clone",
         "    repeated_before = position - current_pos + 1\n    repeated_after = current_repeated - repeated_before\n    new_item = item.clone", "R01e"),
    Seed("insert: after item gets the before count", "fault", _EC,
         "        after_item._set_repeated(repeated_after)\n        vault.insert(after_item, position=target_idx + 2)",
         "        after_item._set_repeated(repeated_before)\n        vault.insert(after_item, position=target_idx + 2)", "R01e"),
    Seed("set: run length measured from the wrong neighbour", "fault", _EC,
         "    current_pos = before_cache + 1\n    current_repeated = current_cache - before_cache\n    repeated_before = position - current_pos\n    repeated_after = current_repeated - repeated_before - repeated",
         "    current_pos = before_cache + 1\n    current_repeated = current_cache - before_cache + 1\n    repeated_before = position - current_pos\n    repeated_after = current_repeated - repeated_before - repeated", "R01e"),
    Seed("delete: map not shifted", "fault", _EC,
         "            vault_map[:odf_idx] + [(x - 1) for x in vault_map[odf_idx + 1 :]],", "            vault_map[:odf_idx] + [x for x in vault_map[odf_idx + 1 :]],", "R01e"),
    Seed("set_cell pads with one cell too few in the map", "fault", _R,
         "            self.append_cell(Cell(repeated=diff), _repeated=diff, clone=False)\n            cell_back = self.append_cell(cell, _repeated=repeated, clone=clone)",
         "            self.append_cell(Cell(repeated=diff), _repeated=diff - 1, clone=False)\n            cell_back = self.append_cell(cell, _repeated=repeated, clone=clone)", "R01f"),
    Seed("append_row declares one repetition", "fault", _T, "            _repeated = row.repeated or 1\n        self._tmap", "            _repeated = 1\n        self._tmap", "R01f"),
    Seed("find_odf_idx uses bisect_right", "fault", _EC, "    odf_idx = bisect_left(cache_map, position)", "    odf_idx = bisect_right(cache_map, position)",
         "R01g", edits=[(_EC, "from bisect import bisect_left, insort", "from bisect import bisect_left, bisect_right, insort")]),
    Seed("Row.set_cells steps by one", "fault", _R, "                    x += cell.repeated or 1\n", "                    x += 1\n", "R01h"),
    Seed("Table.set_values does not advance on empty rows", "fault", _T,
         "        for row_values in values:\n            y += 1\n            if not row_values:\n                continue\n            row = self.get_row(y, clone=True)",
         "        for row_values in values:\n            if not row_values:\n                continue\n            y += 1\n            row = self.get_row(y, clone=True)", "R01h"),
    unparse_seed(_T), unparse_seed(_R), unparse_seed(_EC),
    Seed("un-repeat written with inverted test", "neutral", _T,
         "            repeated = row.repeated or 1\n            if repeated >= 2:\n                row.repeated = None\n            row.set_cells(row_cells, start=x, clone=clone)",
         "            repeated = row.repeated or 1\n            if repeated < 2:\n                pass\n            else:\n                row.repeated = None\n            row.set_cells(row_cells, start=x, clone=clone)"),
    Seed("un-repeat unconditionally", "neutral", _T,
         "            repeated = row.repeated or 1\n            if repeated >= 2:\n                row.repeated = None\n            row.set_cells(row_cells, start=x, clone=clone)",
         "            row.repeated = None\n            row.set_cells(row_cells, start=x, clone=clone)"),
    Seed("push-back extracted into a private helper", "neutral", _T,
         "            row.set_cells(row_cells, start=x, clone=clone)\n            self.set_row(y, row, clone=False)\n            self._update_width(row)\n\n    def set_value(",
         "            row.set_cells(row_cells, start=x, clone=clone)\n            self._push_row(y, row)\n\n    def _push_row(self, y: int, row: Row) -> None:\n        self.set_row(y, row, clone=False)\n        self._update_width(row)\n\n    def set_value("),
]
