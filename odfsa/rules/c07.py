"""C07 — table XML stays structurally valid and repeat-consistent (structural clauses).

R07a  who may write the repeat attributes, and only under the guard `repeated >= 2`
R07b  width sync: a live row that may have grown reaches a width-sync event (TOM)
R07c  the first row declares the columns; columns are inserted before rows
R07d  reported height/width are the last map entry + 1 of the map the rebuild derives from the repeats
R07e  name tables: the table-name regex and the named-range name rule equal the spec tables
"""

from __future__ import annotations

import ast
import re
import string

from ..core import UNKNOWN, AnalysisError, FuncInfo, call_name, get_arg, is_self_attr, norm, walk_no_nested
from ..paths import canon, cfg_of, node_of, structural_guards
from ..tomrun import run_tom

EXPLANATION = (
    "R07a is a who-may-write rule over the whole package (only the three _set_repeated methods write "
    "table:number-rows/columns-repeated, and there the write is control-dependent on not(repeated is None or "
    "repeated < 2)). R07b comes from the table-object-model interpreter (a live row whose cells may have been "
    "added must reach _update_width / set_row / append_row / insert_row before the return). R07c is a dominance "
    "query on append_row. R07d/R07e are table comparisons: height/width against the rebuilt maps, the regex "
    "_RE_TABLE_NAME (parsed with re._parser) against the frozen set of characters office applications reject, and "
    "NamedRange.name's forbidden set and A1-shape automaton. XML shapes reachable only through arithmetic errors and "
    "documents built outside the API are not decided."
)
ASSUMPTIONS = [
    "spec table for sheet names: [ ] * ? : / \\ forbidden anywhere, apostrophe forbidden first or last (LibreOffice/Excel rule quoted in Table.__init__)",
    "ODF 1.2: table:number-*-repeated is a positiveInteger whose default is 1",
]

REPEAT_ATTRS = {"table:number-rows-repeated", "table:number-columns-repeated"}
FORBIDDEN_ANYWHERE = set("[]*?:/\\")


def r07a(ctx):
    repo = ctx.repo
    ctx.rule("R07a", "repeat attributes are written only by _set_repeated, and only for counts >= 2", floor=6)
    writers = []
    for f in repo.all_funcs():
        for n in walk_no_nested(f.node):
            if isinstance(n, ast.Call) and call_name(n) in ("set_attribute", "set") and n.args:
                v = repo.fold(n.args[0], f.module, f.cls)
                if v in REPEAT_ATTRS:
                    writers.append((f, n, v))
            if isinstance(n, ast.Constant) and isinstance(n.value, str) and re.search(r'number-(rows|columns)-repeated="?[01]"', n.value):
                ctx.report("R07a", f, n, norm(n, 60), "a literal XML fragment spells a repeat attribute of 0 or 1")
    for f, n, attr in writers:
        ok = f.name == "_set_repeated"
        if ok:
            # control dependence: the write must be unreachable when `repeated is None or repeated < 2`
            gs = structural_guards(n, stop=f.node)
            okg = False
            for t, pol in gs:
                if not pol and isinstance(t, ast.BoolOp) and isinstance(t.op, ast.Or):
                    txt = [ast.unparse(x) for x in t.values]
                    if any(x.endswith("is None") for x in txt) and any(x.endswith("< 2") or x.endswith("<= 1") for x in txt):
                        okg = True
                if pol and isinstance(t, ast.Compare) and ast.unparse(t).replace(" ", "") in ("repeated>=2", "repeated>1"):
                    okg = True
                if pol and isinstance(t, ast.BoolOp) and isinstance(t.op, ast.And) and any(ast.unparse(x).replace(" ", "") in ("repeated>=2", "repeated>1") for x in t.values):
                    okg = True
            # the value written is str(repeated)
            val = n.args[1] if len(n.args) > 1 else None
            okv = isinstance(val, ast.Call) and call_name(val) == "str" and val.args and isinstance(val.args[0], ast.Name)
            ok = okg and okv
            why = "" if ok else (" (guard `repeated is None or repeated < 2` missing)" if not okg else " (value is not str(repeated))")
        else:
            why = " (outside _set_repeated)"
        ctx.instance("R07a", f"{f.file}:{f.ident}", f"writes {attr}{why}", ok=ok, nontrivial=True, line=n.lineno)
        if not ok:
            ctx.report("R07a", f, n, n, f"{attr} is written{why}: a repeat count below 2 (or a non-integer) can reach the XML")
    # the remove branch deletes the same attribute
    for cname in ("Row", "Cell", "Column"):
        f = repo.func(f"{cname}._set_repeated")
        dels = {repo.fold(n.args[0], f.module) for n in walk_no_nested(f.node) if isinstance(n, ast.Call) and call_name(n) == "del_attribute" and n.args}
        sets = {repo.fold(n.args[0], f.module) for n in walk_no_nested(f.node) if isinstance(n, ast.Call) and call_name(n) == "set_attribute" and n.args}
        want = "table:number-rows-repeated" if cname == "Row" else "table:number-columns-repeated"
        ok = dels == sets == {want}
        ctx.instance("R07a", f"{f.file}:{f.ident}", f"sets {sorted(map(str, sets))} / removes {sorted(map(str, dels))} (expected {want})", ok=ok, nontrivial=True)
        if not ok:
            ctx.report("R07a", f, f.node, f"{cname}._set_repeated: sets {sorted(map(str, sets))} removes {sorted(map(str, dels))}",
                       f"{cname}._set_repeated must set and remove exactly {want}")
    # constructors pass repeats only through .repeated / _set_repeated
    for cname in ("Row", "Cell", "Column"):
        f = repo.func(f"{cname}.__init__")
        st = [n for n in walk_no_nested(f.node) if isinstance(n, ast.Assign) and is_self_attr(n.targets[0], "repeated")]
        ok = len(st) == 1
        ctx.instance("R07a", f"{f.file}:{f.ident}", "constructor stores the repeat through the repeated property", ok=ok)
        if not ok:
            ctx.report("R07a", f, f.node, "constructor repeat store", f"{cname}.__init__ does not route its repeated argument through self.repeated")
    if len(writers) < 3:
        raise AnalysisError("R07a: fewer than three writers of the repeat attributes found")


def r07b(ctx, tom):
    ctx.rule("R07b", "a live row that may have gained cells reaches a width-sync event before the public method returns", floor=60)
    bad = set()
    for rule, f, node, construct, message, path in tom.findings:
        if rule == "R07b":
            ctx.report(rule, f, node, construct, message, path)
            bad.add(f.ident)
    for rule, where, what, ok, line in tom.instances:
        if rule == "TOM" and ":Table." in where:
            ctx.instance("R07b", where, "no live row left wider than the declared columns", ok=where.split(":")[1] not in bad, nontrivial=True, line=line)
    # _update_width is the sync event the interpreter recognises structurally: check its shape is intact
    f = ctx.repo.func("Table._update_width")
    from ..shape import has
    ok = has(f.node, "D_ = ROW_.width - self.width") and has(f.node, "if D_ > 0:\n    self.append_column(C_)")
    ctx.instance("R07b", f"{f.file}:{f.ident}", "diff = row.width - self.width; if diff > 0: append_column(Column(repeated=diff))", ok=ok, nontrivial=True)
    if not ok:
        ctx.report("R07b", f, f.node, "_update_width shape", "_update_width no longer appends the missing columns when the row is wider than the table")
    for n in walk_no_nested(f.node):
        if isinstance(n, ast.Call) and call_name(n) == "Column":
            r = get_arg(n, None, "repeated")
            ok2 = r is not None and has(f.node, "D_ = ROW_.width - self.width") and has(f.node, "if D_ > 0:\n    self.append_column(Column(repeated=D_))")
            ctx.instance("R07b", f"{f.file}:{f.ident}", "the appended column run has length diff", ok=ok2)
            if not ok2:
                ctx.report("R07b", f, n, n, "the column appended by _update_width does not cover the width difference")


def r07c(ctx):
    repo = ctx.repo
    ctx.rule("R07c", "adding the first row declares the columns, before the rows", floor=3)
    f = repo.func("Table.append_row")
    cfg = cfg_of(f)
    apps = [n for n in walk_no_nested(f.node) if isinstance(n, ast.Call) and call_name(n) == "_append" and is_self_attr(n.func)]
    blocks = [n for n in walk_no_nested(f.node) if isinstance(n, ast.If) and isinstance(n.test, ast.UnaryOp) and isinstance(n.test.op, ast.Not)
              and ("_get_columns" in ast.unparse(n.test) or "_cmap" in ast.unparse(n.test))]
    ok = bool(apps) and bool(blocks)
    ins = None
    if ok:
        b = blocks[0]
        for c in ast.walk(b):
            if isinstance(c, ast.Call) and call_name(c) == "insert" and is_self_attr(c.func) and c.args and isinstance(c.args[0], ast.Call) \
                    and call_name(c.args[0]) == "Column":
                ins = c
        ok = ins is not None and repo.fold(get_arg(ins, None, "position"), f.module) == 0
        # on every normal path after the append
        ok = ok and cfg.path_avoiding(node_of(cfg, apps[0]), cfg.exit, [node_of(cfg, b)], follow_exc=False) is None
    ctx.instance("R07c", f"{f.file}:{f.ident}", "`if not self._get_columns(): self.insert(Column(repeated=row.width), position=0)` on every path after _append(row)",
                 ok=ok, nontrivial=True)
    if not ok:
        ctx.report("R07c", f, f.node, "columns block missing after _append(row)",
                   "the first row can be appended without declaring the table columns at child position 0 (rows before/without table:table-column)")
    if ins is not None:
        rep = get_arg(ins.args[0], None, "repeated")
        okr = rep is not None and ("width" in ast.unparse(rep) or any(
            isinstance(a, ast.Assign) and isinstance(a.targets[0], ast.Name) and a.targets[0].id == ast.unparse(rep) and "width" in ast.unparse(a.value)
            for a in ast.walk(blocks[0])))
        ctx.instance("R07c", f"{f.file}:{f.ident}", "declared columns cover the row's width", ok=okr)
        if not okr:
            ctx.report("R07c", f, ins, ins, "the columns declared for the first row do not cover its width")
        okc = any(isinstance(c, ast.Call) and call_name(c) == "_compute_table_cache" for c in ast.walk(blocks[0]))
        ctx.instance("R07c", f"{f.file}:{f.ident}", "maps rebuilt after declaring the columns", ok=okc)
        if not okc:
            ctx.report("R07c", f, ins, "no rebuild after column insert", "the column map is not rebuilt after the columns are declared")
    # Table.__init__ appends the columns before any row
    g = repo.func("Table.__init__")
    ap = [n for n in walk_no_nested(g.node) if isinstance(n, ast.Call) and call_name(n) == "_append" and is_self_attr(n.func)]
    kinds = []
    for a in ap:
        t = canon(g, a.args[0]) if a.args else ""
        kinds.append("col" if t.startswith("Column(") else ("row" if t.startswith("Row(") else "?"))
    ok = kinds[:1] == ["col"] and "row" in kinds
    ctx.instance("R07c", f"{g.file}:{g.ident}", f"prefill appends {kinds}", ok=ok)
    if not ok:
        ctx.report("R07c", g, g.node, f"prefill order {kinds}", "Table.__init__ does not append the column declaration before the rows")


def r07d(ctx):
    repo = ctx.repo
    ctx.rule("R07d", "height/width are the last entry + 1 of the maps rebuilt from the repeat sums", floor=3)
    for q, m in (("Table.height", "_tmap"), ("Table.width", "_cmap"), ("Row.width", "_rmap")):
        f = repo.func(q, "getter")
        ok = False
        for n in walk_no_nested(f.node):
            if isinstance(n, ast.BinOp) and isinstance(n.op, ast.Add) and isinstance(n.left, ast.Subscript) and is_self_attr(n.left.value, m) \
                    and repo.fold(n.left.slice, f.module) == -1 and repo.fold(n.right, f.module) == 1:
                ok = True
        zero = any(isinstance(n, ast.Assign) and isinstance(n.value, ast.Constant) and n.value.value == 0 for n in walk_no_nested(f.node))
        ctx.instance("R07d", f"{f.file}:{f.ident}", f"self.{m}[-1] + 1, 0 when empty", ok=ok and zero, nontrivial=True)
        if not (ok and zero):
            ctx.report("R07d", f, f.node, f"{q} is not {m}[-1] + 1", f"{q} no longer reports the last position of {m} plus one (0 when empty)")


def _regex_tables(pattern: str):
    """(chars forbidden anywhere, chars forbidden at start, chars forbidden at end) of an alternation regex."""
    import re._parser as sp  # parsing only
    tree = sp.parse(pattern)
    anywhere, first, last = set(), set(), set()

    def branch(items):
        items = list(items)
        at_start = bool(items) and items[0][0] == sp.AT and items[0][1] == sp.AT_BEGINNING
        at_end = bool(items) and items[-1][0] == sp.AT and items[-1][1] == sp.AT_END
        core = [i for i in items if i[0] != sp.AT]
        chars = set()
        for op, arg in core:
            if op == sp.LITERAL:
                chars.add(chr(arg))
            elif op == sp.IN:
                for o2, a2 in arg:
                    if o2 == sp.LITERAL:
                        chars.add(chr(a2))
                    elif o2 == sp.RANGE:
                        chars.update(chr(c) for c in range(a2[0], a2[1] + 1))
                    else:
                        raise ValueError(f"unsupported class item {o2}")
            else:
                raise ValueError(f"unsupported regex item {op}")
        if len(core) != 1:
            raise ValueError("each alternative must match one character")
        if at_start:
            first.update(chars)
        elif at_end:
            last.update(chars)
        else:
            anywhere.update(chars)

    items = list(tree)
    if len(items) == 1 and items[0][0] == sp.BRANCH:
        for alt in items[0][1][1]:
            branch(alt)
    else:
        branch(items)
    return anywhere, first, last


def r07e(ctx):
    repo = ctx.repo
    ctx.rule("R07e", "accepted table names and named-range names are exactly those of the spec tables, checked on the value that is stored", floor=7)
    m = repo.module("table")
    node = m.assigns.get("_RE_TABLE_NAME")
    pat = repo.fold(node.args[0], m) if isinstance(node, ast.Call) and node.args else UNKNOWN
    if not isinstance(pat, str):
        raise AnalysisError("R07e: _RE_TABLE_NAME pattern not foldable")
    try:
        anywhere, first, last = _regex_tables(pat)
        okp = True
    except Exception as e:  # noqa: BLE001
        okp = False
        anywhere, first, last = set(), set(), set()
        ctx.report("R07e", m, node, f"_RE_TABLE_NAME = {pat!r}", f"table-name regex has a shape the rule cannot tabulate ({e})")
    missing = FORBIDDEN_ANYWHERE - anywhere
    extra = anywhere - FORBIDDEN_ANYWHERE - {"\n"}
    ok = okp and not missing and not extra and first == {"'"} and last == {"'"}
    ctx.instance("R07e", f"{m.relpath}:_RE_TABLE_NAME", f"forbidden anywhere {sorted(anywhere)}, first {sorted(first)}, last {sorted(last)}", ok=ok, nontrivial=True,
                 line=getattr(node, "lineno", None))
    if okp and not ok:
        ctx.report("R07e", m, node, f"_RE_TABLE_NAME = {pat!r}",
                   f"the table-name regex forbids {sorted(anywhere)} anywhere, {sorted(first)} first, {sorted(last)} last; office applications forbid "
                   f"{sorted(FORBIDDEN_ANYWHERE)} anywhere and an apostrophe first or last (missing {sorted(missing)}, extra {sorted(extra)})")
    f = repo.func("table:_table_name_check")
    from ..shape import has
    ok = has(f.node, "_RE_TABLE_NAME.search(N_)") and has(f.node, "N_ = N_.strip()") and has(f.node, "if not isinstance(N_, str):\n    raise TypeError(M_)") \
        and has(f.node, "if not N_:\n    raise ValueError(M_)")
    searches = [n for n in walk_no_nested(f.node) if isinstance(n, ast.Call) and call_name(n) in ("search", "match", "fullmatch")]
    ok = ok and all(call_name(s) == "search" for s in searches)
    ctx.instance("R07e", f"{f.file}:{f.ident}", "type check, strip, empty check, regex search over the whole name", ok=ok, nontrivial=True)
    if not ok:
        ctx.report("R07e", f, f.node, "_table_name_check steps", "_table_name_check no longer checks type, strips, rejects empty names and searches the regex")
    # the value that is validated is the value that is returned (and stored): every test on the name — the regex search and the emptiness
    # test — must see the same definition of the name as the `return`; checking before the strip lets `"a' "` through as `"a'"`
    from ..paths import reaching_defs
    cfgf = cfg_of(f)
    rets = [n for n in walk_no_nested(f.node) if isinstance(n, ast.Return) and isinstance(n.value, ast.Name)]
    if rets:
        rv = rets[0].value.id
        rd = reaching_defs(cfgf, rv)
        at_ret = rd.get(node_of(cfgf, rets[0]).id, frozenset())
        tests = [n for n in searches if n.args and isinstance(n.args[0], ast.Name) and n.args[0].id == rv]
        tests += [n.test for n in walk_no_nested(f.node) if isinstance(n, ast.If) and isinstance(n.test, ast.UnaryOp) and isinstance(n.test.op, ast.Not)
                  and isinstance(n.test.operand, ast.Name) and n.test.operand.id == rv]
        for t in tests:
            at_t = rd.get(node_of(cfgf, t).id, frozenset())
            okv = at_t == at_ret
            ctx.instance("R07e", f"{f.file}:{f.ident}", f"`{norm(t, 40)}` tests the value that is returned", ok=okv, nontrivial=True, line=t.lineno)
            if not okv:
                ctx.report("R07e", f, t, f"`{norm(t, 40)}` tests another version of `{rv}` than the one returned",
                           f"_table_name_check validates `{rv}` before it is normalised: the apostrophe/character rules are applied to the raw argument, but the stripped "
                           f"string is what becomes the table name — a name like \"a' \" passes and is stored as \"a'\", which office applications refuse")
    users = [q for q in ("Table.name", "NamedRange.set_table_name") if "_table_name_check" in ast.unparse((repo.find_func(q, "setter") or repo.func(q)).node)]
    ctx.instance("R07e", f"{m.relpath}", f"name check applied by {users}", ok=len(users) == 2)
    if len(users) != 2:
        ctx.report("R07e", m, m.tree, f"name check applied by {users}", "the table-name check is not applied by both the Table.name setter and NamedRange.set_table_name")
    # named range names
    g = repo.func("table:forbidden_in_named_range")
    comp = [n for n in walk_no_nested(g.node) if isinstance(n, ast.SetComp)]
    ok = False
    if comp:
        val = repo.fold(comp[0], g.module)
        spec = set(string.printable) - set(string.ascii_letters) - set(string.digits) - {"_"}
        ok = isinstance(val, set) and val == spec
    ctx.instance("R07e", f"{g.file}:{g.ident}", "forbidden = printable − letters − digits − '_'", ok=ok, nontrivial=True)
    if not ok:
        ctx.report("R07e", g, g.node, "forbidden_in_named_range", "the forbidden character set of named-range names is no longer printable minus letters, digits and underscore")
    h = repo.func("NamedRange.name", "setter")
    ok = has(h.node, "X_ in forbidden_in_named_range()") and has(h.node, "if S_ == 'A1':\n    raise ValueError(M_)") and has(h.node, "X_ in string.ascii_letters") \
        and has(h.node, "X_ in string.digits") and has(h.node, "N_ = N_.strip()") and has(h.node, "if not N_:\n    raise ValueError(M_)")
    ctx.instance("R07e", f"{h.file}:{h.ident}", "strip, forbidden characters, A1-shape automaton", ok=ok, nontrivial=True)
    if not ok:
        ctx.report("R07e", h, h.node, "NamedRange.name checks", "the named-range name setter no longer rejects forbidden characters and cell-address-shaped names")


def _char_fsm(f):
    """Extract the character-class automaton of a `for x in name: if … elif … else …` loop that drives a string-valued state variable.
    Returns (initial state, step function(state, cls) -> (state, goes_on), final test constants that raise, loop node) or None.
    Classes: 'L' (string.ascii_letters), 'D' (string.digits), 'O' (anything else)."""
    from ..paths import if_arms
    for lp in [n for n in walk_no_nested(f.node) if isinstance(n, ast.For) and isinstance(n.target, ast.Name)]:
        xv = lp.target.id
        if len(lp.body) != 1 or not isinstance(lp.body[0], ast.If):
            continue
        # flatten the chain
        arms, cur = [], lp.body[0]
        while True:
            core, when_t, when_f = if_arms(cur)  # a negated test with swapped arms is the same chain
            arms.append((core, when_t))
            if len(when_f) == 1 and isinstance(when_f[0], ast.If):
                cur = when_f[0]
                continue
            arms.append((None, when_f))
            break
        sv = {t.id for _, body in arms for st in body if isinstance(st, ast.Assign) and isinstance(st.value, ast.Constant) and isinstance(st.value.value, str)
              for t in st.targets if isinstance(t, ast.Name)}
        if len(sv) != 1:
            continue
        sv = next(iter(sv))
        inits = [a for a in walk_no_nested(f.node) if isinstance(a, ast.Assign) and a.lineno < lp.lineno and any(isinstance(t, ast.Name) and t.id == sv for t in a.targets)
                 and isinstance(a.value, ast.Constant)]
        if not inits:
            continue
        init = inits[-1].value.value

        def parse_test(t):
            """-> (classes or None=any, states or None=any); raises ValueError on an unknown shape"""
            parts = t.values if isinstance(t, ast.BoolOp) and isinstance(t.op, ast.And) else [t]
            classes, states = None, None
            for q in parts:
                if not (isinstance(q, ast.Compare) and len(q.ops) == 1 and isinstance(q.left, ast.Name)):
                    raise ValueError(norm(q, 40))
                op, rhs = q.ops[0], q.comparators[0]
                if q.left.id == xv and isinstance(op, ast.In) and isinstance(rhs, ast.Attribute) and rhs.attr in ("ascii_letters", "digits"):
                    c = {"L"} if rhs.attr == "ascii_letters" else {"D"}
                    classes = c if classes is None else classes & c
                elif q.left.id == sv and isinstance(op, ast.In) and isinstance(rhs, (ast.Tuple, ast.Set, ast.List)) and all(isinstance(e, ast.Constant) for e in rhs.elts):
                    st_ = {e.value for e in rhs.elts}
                    states = st_ if states is None else states & st_
                elif q.left.id == sv and isinstance(op, ast.Eq) and isinstance(rhs, ast.Constant):
                    states = {rhs.value} if states is None else states & {rhs.value}
                else:
                    raise ValueError(norm(q, 40))
            return classes, states

        parsed = []
        for t, body in arms:
            cond = (None, None) if t is None else parse_test(t)
            new = [st.value.value for st in body if isinstance(st, ast.Assign) and isinstance(st.value, ast.Constant) and any(isinstance(x, ast.Name) and x.id == sv for x in st.targets)]
            goes_on = not any(isinstance(st, ast.Break) for st in body)
            parsed.append((cond, new[-1] if new else None, goes_on))

        def step(state, cls):
            for (classes, states), new, goes_on in parsed:
                if (classes is None or cls in classes) and (states is None or state in states):
                    return (new if new is not None else state), goes_on
            return state, True

        finals = set()
        after = [n for n in walk_no_nested(f.node) if isinstance(n, ast.If) and n.lineno > lp.end_lineno]
        for n in after:
            core, when_t, when_f = if_arms(n)
            for arm, pol in ((when_t, True), (when_f, False)):
                if any(isinstance(x, ast.Raise) for st in arm for x in ast.walk(st)) and isinstance(core, ast.Compare) and isinstance(core.left, ast.Name) and core.left.id == sv \
                        and len(core.ops) == 1 and isinstance(core.comparators[0], ast.Constant) and isinstance(core.ops[0], ast.Eq) and pol:
                    finals.add(core.comparators[0].value)
        return init, step, finals, lp
    return None


def r07i(ctx):
    """A named-range name that has the shape of a cell address is refused — all of them.

    The setter walks the name with a small hand-written automaton (letters, then digits) and refuses the name when the walk ends in the
    "letters then digits" state.  The automaton is extracted from the code (states = the string constants of the state variable, input
    classes = ascii letter / digit / other, arms evaluated in order) and compared, over every class string up to length 8, with the
    specification `[A-Za-z]+[0-9]+`.  No name is run: the comparison is between two finite automata.
    """
    import itertools
    repo = ctx.repo
    ctx.rule("R07i", "NamedRange.name: the hand-written automaton refuses exactly the names of the form letters+digits+", floor=1)
    h = repo.func("NamedRange.name", "setter")
    try:
        fsm = _char_fsm(h)
    except ValueError as e:
        raise AnalysisError(f"R07i: test `{e}` of the name automaton is not of a known shape") from None
    if fsm is None:
        raise AnalysisError("R07i: cell-address automaton not found in the NamedRange.name setter")
    init, step, finals, lp = fsm

    def refuses(word):
        state = init
        for c in word:
            state, goes_on = step(state, c)
            if not goes_on:
                break
        return state in finals

    def spec(word):
        k = 0
        while k < len(word) and word[k] == "L":
            k += 1
        j = k
        while j < len(word) and word[j] == "D":
            j += 1
        return k >= 1 and j > k and j == len(word)

    diff = None
    for n in range(1, 9):
        for w in itertools.product("LDO", repeat=n):
            if refuses(w) != spec(w):
                diff = "".join(w)
                break
        if diff:
            break
    ok = diff is None
    ctx.instance("R07i", f"{h.file}:{h.ident}", f"automaton with refusing state(s) {sorted(finals)} ≡ letters+digits+ on all 9840 class strings up to length 8", ok=ok, nontrivial=True, line=lp.lineno)
    if not ok:
        ex = diff.replace("L", "A").replace("D", "1").replace("O", "_")
        ctx.report("R07i", h, lp, f"automaton differs from letters+digits+ on class string {diff!r}",
                   f"the cell-address test of the NamedRange.name setter {'accepts' if spec(tuple(diff)) else 'refuses'} names of the shape {diff!r} (e.g. {ex!r}) "
                   f"{'although they are' if spec(tuple(diff)) else 'although they are not'} of the form letters+digits+: a named range called like a cell (\"AB12\") is written into the document")


def r07f(ctx):
    """A column declaration inserted by position lands before the first row.

    Outside the vault functions (which place an item next to items of the same kind) a
    `table:table-column` enters the table through `self.insert(column, position=P)`.  With
    the invariant "all column declarations precede all rows", P keeps it iff P is the
    constant 0 (before everything) or the child index of an existing column declaration,
    plus at most one.  Every definition of P reaching the call is classified; anything else
    (a length, the index of a row, …) cannot be shown to precede the first row.
    """
    from ..paths import reaching_defs
    repo = ctx.repo
    ctx.rule("R07f", "a column declaration inserted by position goes to child 0 or next to an existing column declaration", floor=2)
    t = repo.cls("Table")
    n_inst = 0

    def is_column_expr(e, f):
        if isinstance(e, ast.Call) and call_name(e) == "Column":
            return True
        if isinstance(e, ast.Attribute) and e.attr == "clone":
            return is_column_expr(e.value, f)
        if isinstance(e, ast.Name):
            for a in f.node.args.args + f.node.args.kwonlyargs:
                if a.arg == e.id and a.annotation is not None and "Column" in ast.unparse(a.annotation):
                    return True
            return any(isinstance(a, ast.Assign) and any(isinstance(tg, ast.Name) and tg.id == e.id for tg in a.targets) and is_column_expr(a.value, f)
                       for a in walk_no_nested(f.node))
        return False

    def col_element(name, f):
        """the local holds an existing column declaration: every definition is a lookup through a column scheme / column getter"""
        defs = [a for a in walk_no_nested(f.node) if isinstance(a, ast.Assign) and any(isinstance(tg, ast.Name) and tg.id == name for tg in a.targets)]
        def colcall(v):
            return isinstance(v, ast.Call) and ("column" in (call_name(v) or "").lower() or any("column" in ast.unparse(a).lower() for a in v.args))
        return bool(defs) and all(colcall(a.value) for a in defs)

    def classify(v, f):
        val = repo.fold(v, f.module)
        if val == 0 and val is not False:
            return "child 0"
        base, off = v, 0
        if isinstance(v, ast.BinOp) and isinstance(v.op, ast.Add) and isinstance(v.right, ast.Constant) and v.right.value in (0, 1):
            base, off = v.left, v.right.value
        elif isinstance(v, ast.BinOp) and isinstance(v.op, ast.Add) and isinstance(v.left, ast.Constant) and v.left.value in (0, 1):
            base, off = v.right, v.left.value
        if isinstance(base, ast.Call) and call_name(base) == "index" and is_self_attr(base.func) and base.args and isinstance(base.args[0], ast.Name) \
                and col_element(base.args[0].id, f):
            return f"index of the column declaration `{base.args[0].id}` + {off}"
        return None

    for name, fs in t.methods.items():
        f = fs[0]
        for c in walk_no_nested(f.node):
            if not (isinstance(c, ast.Call) and call_name(c) == "insert" and is_self_attr(c.func) and c.args and is_column_expr(c.args[0], f)):
                continue
            pos = get_arg(c, 1, "position")
            n_inst += 1
            kinds, bad = [], []
            if isinstance(pos, ast.Name):
                cfg = cfg_of(f)
                rd = reaching_defs(cfg, pos.id)
                for d in rd.get(node_of(cfg, c).id, ()):
                    dn = cfg.nodes[d] if cfg.nodes[d].id == d else [x for x in cfg.nodes if x.id == d][0]
                    st = dn.stmt
                    k = classify(st.value, f) if isinstance(st, ast.Assign) else None
                    (kinds if k else bad).append((st, k))
            elif pos is not None:
                k = classify(pos, f)
                (kinds if k else bad).append((c, k))
            else:
                bad.append((c, None))
            ok = not bad
            ctx.instance("R07f", f"{f.file}:{f.ident}", f"{norm(c, 50)}: position is {sorted({k for _, k in kinds})}" + (f"; not shown before the first row: {[norm(b, 40) if b is not None else 'parameter/unbound' for b, _ in bad]}" if bad else ""),
                         ok=ok, nontrivial=True, line=c.lineno)
            if not ok:
                b = bad[0][0]
                ctx.report("R07f", f, b if b is not None else c, f"{norm(c, 50)} with position from `{norm(b, 50) if b is not None else '?'}`",
                           f"Table.{name} inserts a column declaration at a position that is neither child 0 nor next to an existing column declaration: when the table already "
                           f"has rows (and no column at that place), the table:table-column lands after table:table-row elements")
    if n_inst == 0:
        raise AnalysisError("R07f: no positional insertion of a column declaration found in Table")


def r07g(ctx):
    """Trimming the column declarations removes exactly the surplus.

    Table.rstrip and optimize_width walk the `table:table-column` elements from the right with a count D of columns still to remove.  For an
    element repeated R times: if R > D it keeps R − D (done); otherwise the element goes and D − R columns remain to be removed.  Both
    quantities are evaluated to affine forms over (R, D) from the statements of the loop: the repeat written to a kept element must be
    R − D and the count carried to the next element D − R.  Any other arithmetic leaves the declared columns narrower or wider than the rows.
    """
    from .c01 import Aff
    repo = ctx.repo
    ctx.rule("R07g", "column trimming: a kept element keeps R - D columns, a removed one leaves D - R to remove (affine forms)", floor=4)
    R, D = Aff({"R": 1}), Aff({"D": 1})
    n = 0
    for q in ("Table.rstrip", "Table._optimize_width_adapt_columns"):
        f = repo.func(q)
        for loop in [l for l in walk_no_nested(f.node) if isinstance(l, ast.For) and isinstance(l.target, ast.Name)]:
            cv = loop.target.id
            # the loop that edits the repeat of / deletes its own item
            setrep = [a for a in ast.walk(loop) if isinstance(a, ast.Assign) and isinstance(a.targets[0], ast.Attribute) and a.targets[0].attr == "repeated"
                      and isinstance(a.targets[0].value, ast.Name) and a.targets[0].value.id == cv]
            dels = [c for c in ast.walk(loop) if isinstance(c, ast.Call) and call_name(c) == "delete" and any(isinstance(x, ast.Name) and x.id == cv for x in c.args)]
            if not setrep or not dels:
                continue
            # the remaining-count local: read in the loop, defined before it, re-assigned in the deleting arm
            inner_assigned = {a.targets[0].id for a in ast.walk(loop) if isinstance(a, ast.Assign) and isinstance(a.targets[0], ast.Name)} | \
                             {a.target.id for a in ast.walk(loop) if isinstance(a, ast.AugAssign) and isinstance(a.target, ast.Name)}
            outer_defined = {a.targets[0].id for a in walk_no_nested(f.node) if isinstance(a, ast.Assign) and isinstance(a.targets[0], ast.Name) and a.lineno < loop.lineno}
            dvars = inner_assigned & outer_defined
            if len(dvars) != 1:
                raise AnalysisError(f"R07g: the remaining-count local of the trim loop in {q} is not unique ({sorted(dvars)})")
            dv = next(iter(dvars))

            def ev(e, env):
                if isinstance(e, ast.Constant) and isinstance(e.value, int) and not isinstance(e.value, bool):
                    return Aff(c=e.value)
                if isinstance(e, ast.BoolOp) and isinstance(e.op, ast.Or) and isinstance(e.values[0], ast.Attribute) and e.values[0].attr == "repeated" \
                        and isinstance(e.values[0].value, ast.Name) and e.values[0].value.id == cv:
                    return R
                if isinstance(e, ast.Name):
                    return env.get(e.id)
                if isinstance(e, ast.UnaryOp) and isinstance(e.op, ast.USub):
                    a1 = ev(e.operand, env)
                    return None if a1 is None else -a1
                if isinstance(e, ast.BinOp) and isinstance(e.op, (ast.Add, ast.Sub)):
                    a1, b1 = ev(e.left, env), ev(e.right, env)
                    if a1 is None or b1 is None:
                        return None
                    return a1 + b1 if isinstance(e.op, ast.Add) else a1 - b1
                return None

            results = {"kept": [], "carried": []}

            def run_block(stmts, env):
                for st in stmts:
                    if isinstance(st, ast.Assign) and len(st.targets) == 1:
                        t = st.targets[0]
                        if isinstance(t, ast.Name):
                            v = ev(st.value, env)
                            if v is None:
                                env.pop(t.id, None)
                            else:
                                env[t.id] = v
                        elif st in setrep:
                            results["kept"].append((st, ev(st.value, env)))
                    elif isinstance(st, ast.AugAssign) and isinstance(st.target, ast.Name) and isinstance(st.op, (ast.Add, ast.Sub)):
                        a1, b1 = env.get(st.target.id), ev(st.value, env)
                        if a1 is None or b1 is None:
                            env.pop(st.target.id, None)
                        else:
                            env[st.target.id] = a1 + b1 if isinstance(st.op, ast.Add) else a1 - b1
                    elif isinstance(st, ast.If):
                        ea, eb = dict(env), dict(env)
                        run_block(st.body, ea)
                        run_block(st.orelse, eb)
                        deleting_a = any(d_ in list(ast.walk(s_)) for s_ in st.body for d_ in dels)
                        deleting_b = any(d_ in list(ast.walk(s_)) for s_ in st.orelse for d_ in dels)
                        if deleting_a:
                            results["carried"].append((st, ea.get(dv)))
                        if deleting_b:
                            results["carried"].append((st, eb.get(dv)))

            run_block(loop.body, {dv: D})
            for st, got in results["kept"]:
                n += 1
                ok = got is not None and got == R - D
                ctx.instance("R07g", f"{f.file}:{f.ident}", f"kept element: repeat = {got!r} (must be R - D)", ok=ok, nontrivial=True, line=st.lineno)
                if not ok:
                    ctx.report("R07g", f, st, f"{norm(st, 40)} = {got!r}", f"{q}: a column element that survives the trim keeps {got!r} columns instead of R - D: the declared width is wrong afterwards")
            for st, got in results["carried"][:1]:
                n += 1
                ok = got is not None and got == D - R
                ctx.instance("R07g", f"{f.file}:{f.ident}", f"removed element: {dv} becomes {got!r} (must be D - R)", ok=ok, nontrivial=True, line=st.lineno)
                if not ok:
                    ctx.report("R07g", f, st, f"`{dv}` after deleting an element = {got!r}",
                               f"{q}: after a whole column element (R columns) is deleted, the number of columns still to remove becomes {got!r} instead of D - R: further "
                               f"elements are trimmed too much or too little, and rows end up wider (or narrower) than the declared columns")
    if n == 0:
        raise AnalysisError("R07g: column trim loops not found")


def r07h(ctx):
    """After a bulk attach the column declarations are synchronised with the rows *of the table*.

    `extend_rows` attaches rows without going through set_row/append_row, so it must widen the column declarations itself.  What counts is
    the width of the rows as they now stand in the table — re-read through `self.traverse()` / `self._get_rows()` — not the Python objects
    the caller passed (a generator is exhausted by the attach, a wrapper's cached width can lag behind its XML).  Rule: in Table methods a
    loop that measures `<row>.width` to decide on `append_column` iterates over a row source of `self`.
    """
    repo = ctx.repo
    ctx.rule("R07h", "width synchronisation after a bulk attach measures the table's own rows", floor=1)
    t = repo.cls("Table")
    n = 0
    for name, fs in sorted(t.methods.items()):
        f = fs[0]
        if not any(isinstance(c, ast.Call) and call_name(c) == "append_column" for c in walk_no_nested(f.node)):
            continue
        params = {a.arg for a in f.all_params()} - {"self"}
        for lp in [x for x in walk_no_nested(f.node) if isinstance(x, ast.For) and isinstance(x.target, ast.Name)]:
            rv = lp.target.id
            if not any(isinstance(x, ast.Attribute) and x.attr == "width" and isinstance(x.value, ast.Name) and x.value.id == rv for x in ast.walk(lp)):
                continue
            n += 1
            it = lp.iter
            src = canon(f, it)
            own = src.startswith(("self.traverse(", "self._get_rows(", "self.get_rows(", "self.rows"))
            from_param = any(isinstance(x, ast.Name) and x.id in params for x in ast.walk(it))
            ok = own and not from_param
            ctx.instance("R07h", f"{f.file}:{f.ident}", f"for {rv} in {norm(it, 40)}: widths measured on " + ("the table's rows" if ok else "the caller's objects"), ok=ok, nontrivial=True, line=lp.lineno)
            if not ok:
                ctx.report("R07h", f, lp, f"for {rv} in {norm(it, 40)}",
                           f"Table.{name} decides how many columns to declare from the rows it was *given*, not from the rows the table now *has*: a generator argument is already "
                           f"consumed, and a row object whose cached width lags behind its XML is under-measured — rows end up wider than the declared columns")
    if n == 0:
        raise AnalysisError("R07h: no width-measuring loop feeding append_column found in Table")


def r07j(ctx):
    """Outside the Table class, rows reach a table through its row API.

    "No row is wider than the number of declared columns": append_row, insert_row, set_row and extend_rows end with the width
    synchronisation (`_update_width` / R07h), the element-level primitives (`extend`, `append`, `insert`, `_append`) do not — they attach
    children and know nothing of columns or maps.  Code outside the class that builds a table (the CSV importer, the document helpers) and
    attaches rows with a primitive "in one go" gets the columns of whatever went through the row API before, and rows wider than that.
    Rule: in every function outside class Table, a local bound to `Table(…)` is never the receiver of extend / insert / _append, nor of
    `append` with an argument built as `Row(…)` or taken from a list of rows, and `_compute_table_cache` is not called on it from outside.
    """
    repo = ctx.repo
    ctx.rule("R07j", "outside class Table, rows are attached to a table through append_row / extend_rows, not through element primitives", floor=1)
    tcls = repo.cls("Table")
    n = 0
    for f in repo.all_funcs():
        if f.cls is not None and (f.cls is tcls or tcls in f.cls.mro):
            continue
        tables = {t.id for a in walk_no_nested(f.node) if isinstance(a, (ast.Assign, ast.AnnAssign)) and isinstance(getattr(a, "value", None), ast.Call)
                  and call_name(a.value) == "Table" for t in (a.targets if isinstance(a, ast.Assign) else [a.target]) if isinstance(t, ast.Name)}
        if not tables:
            continue
        n += 1
        bad = [c for c in walk_no_nested(f.node) if isinstance(c, ast.Call) and isinstance(c.func, ast.Attribute) and isinstance(c.func.value, ast.Name) and c.func.value.id in tables
               and c.func.attr in ("extend", "insert", "_append", "_compute_table_cache", "_Element__append")]
        ctx.instance("R07j", f"{f.file}:{f.ident}", f"table local(s) {sorted(tables)}: rows attached through the row API", ok=not bad, nontrivial=True, line=f.node.lineno)
        for c in bad[:1]:
            ctx.report("R07j", f, c, norm(c, 50),
                       f"{f.ident} attaches content to the table it builds with the element primitive `{c.func.attr}`: no width synchronisation runs for those rows, so the table declares the "
                       f"columns of the rows that went through append_row only — a later, longer row is wider than the declared columns and `width` reports too little")
    if n < 1:
        raise AnalysisError("R07j: no function outside class Table builds a table")


def run(ctx):
    tom = run_tom(ctx.repo)
    r07a(ctx)
    r07b(ctx, tom)
    r07c(ctx)
    r07d(ctx)
    r07e(ctx)
    r07f(ctx)
    r07g(ctx)
    r07h(ctx)
    r07i(ctx)
    r07j(ctx)
    # optimize_width trims the column declarations to the largest minimized_width: a row measured too short ends up wider than the columns (shared with C17)
    from .c17 import r17i
    r17i(ctx)
    # the width and height the table reports are read from the position maps: an append that declares another run length than the item's repeat makes them
    # disagree with the repeat attributes in the XML (R01f of C01; its companions R01g/R01h concern coordinates, not structure, and are dropped here)
    from .c01 import r01fgh
    r01fgh(ctx)
    for rid in ("R01g", "R01h"):
        ctx.rules.pop(rid, None)
    ctx.findings[:] = [fd for fd in ctx.findings if fd.rule not in ("R01g", "R01h")]
    # width and height are read from the position maps: a map left obsolete by a public method makes the reported size disagree with the XML (rules shared with C02)
    from .c02 import r02ab
    r02ab(ctx, tom)


from ..selftest import Seed, unparse_seed  # noqa: E402

_T = "src/odfdo/table.py"
_R = "src/odfdo/row.py"
_C = "src/odfdo/cell.py"
SEEDS = [
    Seed("the CSV importer attaches the rows after the first with extend()", "fault", _T,
         "        table.append_row(row, clone=False)\n", "        if table.height == 0:\n            table.append_row(row, clone=False)\n        else:\n            table.extend([row])\n            table._compute_table_cache()\n", "R07j"),
    Seed("cell-address automaton stops looping on digits", "fault", _T, '            elif step in ("A", "A1") and x in string.digits:', '            elif step == "A" and x in string.digits:', "R07i"),
    Seed("cell-address automaton lets letters follow digits", "fault", _T, '            if x in string.ascii_letters and step in ("", "A"):', '            if x in string.ascii_letters:', "R07i"),
    Seed("cell-address automaton with the tests swapped inside the conjunction", "neutral", _T, '            elif step in ("A", "A1") and x in string.digits:', '            elif x in string.digits and step in ("A1", "A"):'),
    Seed("extend_rows measures the rows it was given", "fault", _T, "        width = self.width\n        for row in self.traverse():\n            if row.width > width:", "        width = self.width\n        for row in rows:\n            if row.width > width:", "R07h"),
    Seed("rstrip: remaining count accumulates instead of being replaced", "fault", _T,
         "        diff = column_width - max_width\n        if diff > 0:\n            for column in reversed(columns):\n                repeated = column.repeated or 1\n                repeated = repeated - diff\n                if repeated > 0:\n                    column.repeated = repeated\n                    break\n                else:\n                    column.parent.delete(column)\n                    diff = -repeated\n",
         "        diff = column_width - max_width\n        if diff > 0:\n            for column in reversed(columns):\n                repeated = column.repeated or 1\n                repeated = repeated - diff\n                if repeated > 0:\n                    column.repeated = repeated\n                    break\n                else:\n                    column.parent.delete(column)\n                    diff -= repeated\n", "R07g"),
    Seed("rstrip: kept element keeps one column too many", "fault", _T,
         "        diff = column_width - max_width\n        if diff > 0:\n            for column in reversed(columns):\n                repeated = column.repeated or 1\n                repeated = repeated - diff\n                if repeated > 0:\n                    column.repeated = repeated\n",
         "        diff = column_width - max_width\n        if diff > 0:\n            for column in reversed(columns):\n                repeated = column.repeated or 1\n                repeated = repeated - diff\n                if repeated > 0:\n                    column.repeated = repeated + 1\n", "R07g"),
    Seed("table name checked before it is stripped", "fault", _T, '    name = name.strip()\n    if not name:\n        raise ValueError("Empty name not allowed.")\n    if match := _RE_TABLE_NAME.search(name):\n        raise ValueError(f"Character {match.group()!r} not allowed.")\n    return name', '    if match := _RE_TABLE_NAME.search(name):\n        raise ValueError(f"Character {match.group()!r} not allowed.")\n    name = name.strip()\n    if not name:\n        raise ValueError("Empty name not allowed.")\n    return name', "R07e"),
    Seed("table name: regex test before the emptiness test, both after the strip", "neutral", _T, '    name = name.strip()\n    if not name:\n        raise ValueError("Empty name not allowed.")\n    if match := _RE_TABLE_NAME.search(name):\n        raise ValueError(f"Character {match.group()!r} not allowed.")\n    return name', '    name = name.strip()\n    if match := _RE_TABLE_NAME.search(name):\n        raise ValueError(f"Character {match.group()!r} not allowed.")\n    if not name:\n        raise ValueError("Empty name not allowed.")\n    return name'),
    Seed("first column appended after the last child", "fault", _T, "        if not self._cmap:\n            position = 0\n", "        if not self._cmap:\n            position = len(self.children)\n", "R07f"),
    Seed("column appended two places after the last column", "fault", _T, "            position = self.index(last_column) + 1\n", "            position = self.index(last_column) + 2\n", "R07f"),
    Seed("first row declares its columns at the end", "fault", _T, "            self.insert(Column(repeated=repeated), position=0)", "            self.insert(Column(repeated=repeated), position=len(self.children))", "R07f"),
    Seed("append_column: offset written first", "neutral", _T, "            position = self.index(last_column) + 1\n", "            position = 1 + self.index(last_column)\n"),
    Seed("Row._set_repeated writes 1", "fault", _R, "        if repeated is None or repeated < 2:\n            with contextlib.suppress(KeyError):\n                self.del_attribute(\"table:number-rows-repeated\")",
         "        if repeated is None or repeated < 1:\n            with contextlib.suppress(KeyError):\n                self.del_attribute(\"table:number-rows-repeated\")", "R07a"),
    Seed("Cell._set_repeated loses its guard", "fault", _C,
         "        if repeated is None or repeated < 2:\n            with contextlib.suppress(KeyError):\n                self.del_attribute(\"table:number-columns-repeated\")\n            return\n",
         "        if repeated is None:\n            with contextlib.suppress(KeyError):\n                self.del_attribute(\"table:number-columns-repeated\")\n            return\n", "R07a"),
    Seed("direct write of the repeat attribute", "fault", _T,
         "            if repeated and repeated > 1:\n                self.repeated = repeated\n            if style:\n                self.style = style\n\n    def __repr__(self) -> str:\n        return f\"<{self.__class__.__name__} x={self.x}>\"",
         "            if repeated:\n                self.set_attribute(\"table:number-columns-repeated\", str(repeated))\n            if style:\n                self.style = style\n\n    def __repr__(self) -> str:\n        return f\"<{self.__class__.__name__} x={self.x}>\"", "R07a"),
    Seed("Column._set_repeated removes the rows attribute", "fault", _T,
         "                self.del_attribute(\"table:number-columns-repeated\")\n            return\n        self.set_attribute(\"table:number-columns-repeated\", str(repeated))\n\n    @property\n    def repeated(self) -> int | None:\n        \"\"\"Get /set the number of times the column",
         "                self.del_attribute(\"table:number-rows-repeated\")\n            return\n        self.set_attribute(\"table:number-columns-repeated\", str(repeated))\n\n    @property\n    def repeated(self) -> int | None:\n        \"\"\"Get /set the number of times the column", "R07a"),
    Seed("set_cell forgets _update_width", "fault", _T,
         "                cell_back = row.set_cell(x, cell, clone=clone)\n                # Update width if necessary, since we don't use set_row\n                self._update_width(row)",
         "                cell_back = row.set_cell(x, cell, clone=clone)", "R07b"),
    Seed("set_row forgets _update_width", "fault", _T,
         "        # print self.serialize(True)\n        # Update width if necessary\n        self._update_width(row_back)\n        return row_back", "        return row_back", "R07b"),
    Seed("append_row forgets _update_width", "fault", _T,
         "        # Update width if necessary\n        self._update_width(row)\n        return row\n\n    def delete_row(", "        return row\n\n    def delete_row(", "R07b"),
    Seed("_update_width appends one column only", "fault", _T, "            self.append_column(Column(repeated=diff))\n\n    def _get_formatted_text_normal(",
         "            self.append_column(Column())\n\n    def _get_formatted_text_normal(", "R07b"),
    Seed("append_row loses the columns block", "fault", _T,
         "        # Initialize columns\n        if not self._get_columns():\n            repeated = row.width\n            self.insert(Column(repeated=repeated), position=0)\n            self._compute_table_cache()\n", "", "R07c"),
    Seed("columns declared after the rows", "fault", _T,
         "            self.insert(Column(repeated=repeated), position=0)\n            self._compute_table_cache()", "            self._append(Column(repeated=repeated))\n            self._compute_table_cache()", "R07c"),
    Seed("height off by one", "fault", _T, "            height = self._tmap[-1] + 1", "            height = self._tmap[-1]", "R07d"),
    Seed("regex forgets the question mark", "fault", _T, r"""re.compile(r"^\'|[\n\\/\*\?:\][]|\'$")""", r"""re.compile(r"^\'|[\n\\/\*:\][]|\'$")""", "R07e"),
    Seed("regex forbids apostrophes everywhere", "fault", _T, r"""re.compile(r"^\'|[\n\\/\*\?:\][]|\'$")""", r"""re.compile(r"[\'\n\\/\*\?:\][]")""", "R07e"),
    Seed("regex anchored: only the first character is checked", "fault", _T, "    if match := _RE_TABLE_NAME.search(name):", "    if match := _RE_TABLE_NAME.match(name):", "R07e"),
    Seed("named range names accept the dot", "fault", _T, "        and char != \"_\"\n", "        and char != \"_\"\n        and char != \".\"\n", "R07e"),
    unparse_seed(_T), unparse_seed(_R), unparse_seed(_C),
    Seed("_update_width with renamed locals", "neutral", _T,
         "        diff = row.width - self.width\n        if diff > 0:\n            self.append_column(Column(repeated=diff))\n\n    def _get_formatted_text_normal(",
         "        missing = row.width - self.width\n        if missing > 0:\n            self.append_column(Column(repeated=missing))\n\n    def _get_formatted_text_normal("),
    Seed("guard written as >= 2 positive form", "neutral", _R,
         "        if repeated is None or repeated < 2:\n            with contextlib.suppress(KeyError):\n                self.del_attribute(\"table:number-rows-repeated\")\n            return\n        self.set_attribute(\"table:number-rows-repeated\", str(repeated))",
         "        if repeated is not None and repeated >= 2:\n            self.set_attribute(\"table:number-rows-repeated\", str(repeated))\n        else:\n            with contextlib.suppress(KeyError):\n                self.del_attribute(\"table:number-rows-repeated\")"),
]
