"""C20 — a filled table of contents lists exactly the headings (structural clauses).

R20a  a value whose __str__ is decorated is not formatted into element content
R20b  refill starts clean: the old index body is dropped before the first append; the title is kept
R20c  entries are appended in one loop over the headings, filtered by the outline level read from the TOC source
R20d  TOC._header_numbering and scripts/headers.header_numbering use one numbering scheme
"""

from __future__ import annotations

import ast
import re

from ..core import UNKNOWN, AnalysisError, ClassInfo, FuncInfo, Repo, body_no_doc, call_name, enclosing_stmt, is_self_attr, norm, parent, walk_no_nested
from ..paths import cfg_of, enclosing_loops, node_of, structural_guards
from ..registry import build_registry
from ..strflow import LocalFlow, parts, string_builders

EXPLANATION = (
    "Static rules on TOC.fill and its siblings: (a) registry-typed element variables (the XPath of the getter "
    "that produced them is mapped to a class through the static registry replica) whose class has a decorated "
    "__str__ (anything but `return self.inner_text`/`self.text`) must not be formatted with str()/f-string into a "
    "string that becomes element content; (b) dominance queries: the body reset precedes the first append and the "
    "title is re-inserted at position 0; (c) the entry append sits in one loop over body.headers behind the level "
    "filter; (d) the numbering constants (default for missing upper levels, increment, reset of deeper levels, "
    "separator, suffix, level attribute) are extracted from both numbering functions and compared. "
    "The numbering function itself over all level sequences is not decided."
)
ASSUMPTIONS = [
    "descendant::text:h yields the headings in document order (XPath semantics)",
    "registry typing: get_elements on an XPath ending in a registered tag yields instances of the registered class",
]

CONTENT_CALLS = {"append", "append_plain_text", "insert", "set_value", "set_toc_title", "extend"}
TEXT_ATTRS = {"text", "tail", "text_content"}
PLAIN_STR_ATTRS = {"inner_text", "text", "text_recursive", "text_content"}


def _str_kind(repo: Repo, c: ClassInfo) -> tuple[str, FuncInfo | None]:
    f = c.lookup("__str__")
    if f is None:
        return "default", None
    body = body_no_doc(f.node)
    if len(body) == 1 and isinstance(body[0], ast.Return) and isinstance(body[0].value, ast.Attribute) \
            and is_self_attr(body[0].value) and body[0].value.attr in PLAIN_STR_ATTRS:
        return "plain", f
    return "decorated", f


def _xpath_class(repo: Repo, reg, query: str) -> ClassInfo | None:
    m = re.search(r"([a-z]+:[a-z][a-z-]*)(\[[^\]]*\])?\s*$", query)
    if not m:
        return None
    return reg.tag2cls.get(m.group(1))


def _getter_class(repo: Repo, reg, attr: str) -> ClassInfo | None:
    """Class of the elements returned by Element property/method `attr` when it returns get_elements(<const xpath>)."""
    el = repo.cls("Element")
    for c in [el] + el.all_subclasses():
        for f in c.methods.get(attr, []):
            for n in walk_no_nested(f.node):
                if isinstance(n, ast.Return) and isinstance(n.value, ast.Call) and call_name(n.value) in ("get_elements", "_filtered_elements") \
                        and n.value.args:
                    q = repo.fold(n.value.args[0], f.module, f.cls)
                    if isinstance(q, str):
                        return _xpath_class(repo, reg, q)
    return None


def _elem_vars(repo: Repo, reg, f: FuncInfo) -> dict[str, ClassInfo]:
    out: dict[str, ClassInfo] = {}
    for n in walk_no_nested(f.node):
        it, tgt = None, None
        if isinstance(n, (ast.For, ast.comprehension)):
            it, tgt = n.iter, n.target
        if it is None or not isinstance(tgt, ast.Name):
            continue
        cls = None
        if isinstance(it, ast.Attribute):
            cls = _getter_class(repo, reg, it.attr)
        elif isinstance(it, ast.Call) and call_name(it) in ("get_elements",) and it.args:
            q = repo.fold(it.args[0], f.module, f.cls)
            if isinstance(q, str):
                cls = _xpath_class(repo, reg, q)
        elif isinstance(it, ast.Call) and isinstance(it.func, ast.Attribute):
            cls = _getter_class(repo, reg, it.func.attr)
        if cls is not None:
            out[tgt.id] = cls
    return out


def r20a(ctx):
    repo = ctx.repo
    reg = build_registry(repo)
    el = repo.cls("Element")
    ctx.rule("R20a", "an element whose __str__ is decorated is not formatted into element content", floor=2)
    for f in repo.all_funcs():
        ev = _elem_vars(repo, reg, f)
        if not ev:
            continue
        lf = None
        for sb in list(string_builders(f.node)) + [n for n in walk_no_nested(f.node) if isinstance(n, ast.Call) and call_name(n) == "str"
                                                    and isinstance(n.func, ast.Name) and n.args and isinstance(n.args[0], ast.Name)]:
            fields = [v for k, v in (parts(sb) or []) if k == "field"] if not (isinstance(sb, ast.Call) and call_name(sb) == "str") else [sb.args[0]]
            for fld in fields:
                base = fld.args[0] if isinstance(fld, ast.Call) and call_name(fld) == "str" and fld.args else fld
                if isinstance(base, ast.Attribute) and isinstance(base.value, ast.Name) and base.value.id in ev \
                        and _content_sink(repo, f, sb) is not None:
                    okacc = base.attr in PLAIN_STR_ATTRS
                    ctx.instance("R20a", f"{f.file}:{f.ident}", f"{base.value.id}.{base.attr} ({ev[base.value.id].name}) formatted into content",
                                 ok=okacc, nontrivial=True, line=sb.lineno)
                    continue
                if not (isinstance(base, ast.Name) and base.id in ev):
                    continue
                cls = ev[base.id]
                kind, sf = _str_kind(repo, cls)
                # does the built string become element content?
                sink = _content_sink(repo, f, sb)
                if sink is None:
                    lf = lf or LocalFlow(f)
                    st = enclosing_stmt(sb)
                    if isinstance(st, ast.Assign) and isinstance(st.targets[0], ast.Name):
                        cl = lf.closure({st.targets[0].id})
                        for n2 in walk_no_nested(f.node):
                            if isinstance(n2, ast.Name) and n2.id in cl and isinstance(n2.ctx, ast.Load):
                                s2 = _content_sink(repo, f, n2)
                                if s2:
                                    sink = s2
                                    break
                if sink is None:
                    continue
                ok = kind == "plain"
                ctx.instance("R20a", f"{f.file}:{f.ident}", f"{base.id}: {cls.name} ({kind} __str__) formatted into {sink}", ok=ok, nontrivial=True, line=sb.lineno)
                if not ok:
                    ctx.report("R20a", f, sb, f"{{{base.id}}} ({cls.name}) formatted into {sink}",
                               f"{base.id} is a {cls.name}; its __str__ ({sf.ident if sf else 'object.__str__'}) returns more than the bare text, "
                               f"and the formatted string becomes element content ({sink}): use the exact text accessor")
    # the property's own instance: the TOC entry text is built from the heading's exact text accessor
    fill = repo.func("TOC.fill")
    entry = [n for n in walk_no_nested(fill.node) if isinstance(n, ast.Call) and call_name(n) == "Paragraph" and n.args]
    if not entry:
        raise AnalysisError("R20a: entry paragraph construction not found in TOC.fill")
    for n in entry:
        flds = [v for k, v in (parts(n.args[0]) or []) if k == "field"]
        acc = [v for v in flds if isinstance(v, ast.Attribute) and v.attr in PLAIN_STR_ATTRS]
        ok = bool(acc) and len(flds) == 2
        ctx.instance("R20a", f"{fill.file}:{fill.ident}", f"entry text = number + heading text accessor: {norm(n.args[0], 60)}", ok=ok, nontrivial=True, line=n.lineno)
        if not ok and not any(f2.construct.startswith("{") for f2 in ctx.findings if f2.rule == "R20a" and f2.func == fill.ident):
            ctx.report("R20a", fill, n, n.args[0], "the TOC entry is not '<number> <heading text>' built from an exact text accessor of the heading")


def _content_sink(repo: Repo, f: FuncInfo, node: ast.AST) -> str | None:
    cur = node
    par = parent(cur)
    while par is not None and not isinstance(par, ast.stmt):
        if isinstance(par, ast.Call) and cur is not par.func:
            cn = call_name(par)
            if isinstance(par.func, ast.Name):
                r = repo.resolve_name(cn, f.module)
                if isinstance(r, ClassInfo) and repo.cls("Element") in r.mro:
                    return f"{cn}(…) constructor text"
            if cn in CONTENT_CALLS and isinstance(par.func, ast.Attribute):
                return f".{cn}(…)"
            if cn in ("print", "join", "ValueError", "TypeError", "len", "strip", "repr", "search", "match", "format", "write", "printwarn"):
                return None
        cur, par = par, parent(par)
    if isinstance(par, ast.Assign):
        for t in par.targets:
            if isinstance(t, ast.Attribute) and t.attr in TEXT_ATTRS:
                return f".{t.attr} ="
    return None


def _fill_roles(f: FuncInfo) -> dict[str, set[str]]:
    """Locals of TOC.fill by definition: index_body (read from self.body), outline (read from self.outline_level),
    level (read from the heading's text:outline-level inside the headings loop)."""
    r: dict[str, set[str]] = {"index_body": set(), "outline": set(), "level": set()}
    for n in walk_no_nested(f.node):
        if isinstance(n, ast.Assign) and len(n.targets) == 1 and isinstance(n.targets[0], ast.Name):
            t, v = n.targets[0].id, n.value
            if is_self_attr(v, "body"):
                r["index_body"].add(t)
            if any(is_self_attr(x, "outline_level") for x in ast.walk(v)):
                r["outline"].add(t)
            if any(isinstance(x, ast.Constant) and x.value == "text:outline-level" for x in ast.walk(v)):
                r["level"].add(t)
    return r


def r20b(ctx):
    repo = ctx.repo
    ctx.rule("R20b", "fill() drops the old index body before the first append and keeps the title", floor=3)
    f = repo.func("TOC.fill")
    cfg = cfg_of(f)
    resets = [n for n in walk_no_nested(f.node) if isinstance(n, ast.Assign) and is_self_attr(n.targets[0], "body")
              and isinstance(n.value, ast.Constant) and n.value.value is None]
    roles = _fill_roles(f)
    appends = [n for n in walk_no_nested(f.node) if isinstance(n, ast.Call) and call_name(n) in ("append", "insert")
               and isinstance(n.func, ast.Attribute) and isinstance(n.func.value, ast.Name) and n.func.value.id in roles["index_body"]]
    if not appends:
        raise AnalysisError("R20b: index_body.append/insert not found in TOC.fill")
    ok = bool(resets) and all(cfg.dominates(node_of(cfg, resets[0]), node_of(cfg, a)) for a in appends)
    ctx.instance("R20b", f"{f.file}:{f.ident}", "self.body = None dominates every index_body.append/insert", ok=ok, nontrivial=True)
    if not ok:
        ctx.report("R20b", f, appends[0], "index_body written before self.body = None",
                   "entries are appended to an index body that was not cleared first: filling twice duplicates the entries")
    # the variable appended to is re-read after the reset
    reread = [n for n in walk_no_nested(f.node) if isinstance(n, ast.Assign) and isinstance(n.targets[0], ast.Name) and n.targets[0].id in roles["index_body"]
              and is_self_attr(n.value, "body")]
    ok2 = bool(resets) and any(cfg.dominates(node_of(cfg, resets[0]), node_of(cfg, r)) and all(cfg.dominates(node_of(cfg, r), node_of(cfg, a)) for a in appends)
                               for r in reread)
    ctx.instance("R20b", f"{f.file}:{f.ident}", "index_body re-read from self.body after the reset", ok=ok2, nontrivial=True)
    if not ok2:
        ctx.report("R20b", f, f.node, "stale index_body", "entries are appended to the index body fetched before the reset (a detached element)")
    # setter really deletes the old body
    bs = repo.func("TOC.body", "setter")
    okd = any(isinstance(n, ast.Call) and call_name(n) == "delete" for n in walk_no_nested(bs.node)) and \
        any(isinstance(n, ast.Call) and call_name(n) == "append" for n in walk_no_nested(bs.node))
    ctx.instance("R20b", f"{bs.file}:{bs.ident}", "body setter deletes the old body and appends the new one", ok=okd)
    if not okd:
        ctx.report("R20b", bs, bs.node, "body setter", "TOC.body setter no longer replaces the old index body")
    # title saved before the reset and re-inserted at position 0
    saved = [n for n in walk_no_nested(f.node) if isinstance(n, ast.Assign) and isinstance(n.targets[0], ast.Name) and "index-title" in ast.unparse(n.value)]
    ins = [a for a in appends if call_name(a) == "insert" and a.args and isinstance(a.args[0], ast.Name) and saved and a.args[0].id == saved[0].targets[0].id]
    okt = bool(saved) and bool(resets) and cfg.dominates(node_of(cfg, saved[0]), node_of(cfg, resets[0])) and bool(ins) and \
        any(k.arg == "position" and repo.fold(k.value, f.module) == 0 for k in ins[0].keywords)
    ctx.instance("R20b", f"{f.file}:{f.ident}", "title saved before the reset and re-inserted at position 0", ok=okt, nontrivial=True)
    if not okt:
        ctx.report("R20b", f, f.node, "title not kept", "the index title is not saved before the reset or not re-inserted first")


def r20c(ctx):
    repo = ctx.repo
    ctx.rule("R20c", "entries: one loop over body.headers, level filter against the TOC's outline level, applied before numbering; entry = the heading's own text", floor=6)
    f = repo.func("TOC.fill")
    loops = [n for n in walk_no_nested(f.node) if isinstance(n, ast.For) and isinstance(n.iter, ast.Attribute) and n.iter.attr == "headers"]
    ok = len(loops) == 1
    ctx.instance("R20c", f"{f.file}:{f.ident}", "exactly one loop over body.headers", ok=ok)
    if not ok:
        ctx.report("R20c", f, f.node, f"{len(loops)} loops over headers", "the index is not built by a single pass over the headings in document order")
        return
    loop = loops[0]
    roles = _fill_roles(f)
    apps = [n for n in ast.walk(loop) if isinstance(n, ast.Call) and call_name(n) == "append" and isinstance(n.func, ast.Attribute)
            and isinstance(n.func.value, ast.Name) and n.func.value.id in roles["index_body"]]
    ok = len(apps) == 1 and enclosing_loops(apps[0])[0] is loop if apps else False
    ctx.instance("R20c", f"{f.file}:{f.ident}", "one append per heading, directly in the headings loop", ok=ok)
    if not ok:
        ctx.report("R20c", f, loop, "append not once per heading", "entries are not appended exactly once per heading inside the headings loop")
        return
    guards = structural_guards(apps[0], stop=loop)
    lvl_guard = [t for t, pol in guards if not pol and any(isinstance(c, ast.Compare) and isinstance(c.ops[0], ast.Gt)
                                                          and isinstance(c.comparators[0], ast.Name) and c.comparators[0].id in roles["outline"]
                                                          and isinstance(c.left, ast.Name) and c.left.id in roles["level"] for c in ast.walk(t))]
    okg = len(lvl_guard) == 1 and len(guards) == 1
    ctx.instance("R20c", f"{f.file}:{f.ident}", f"append guarded only by not ({norm(lvl_guard[0], 50) if lvl_guard else '?'})", ok=okg, nontrivial=True)
    if not okg:
        ctx.report("R20c", f, apps[0], f"guards {[norm(t, 40) for t, _ in guards]}",
                   "the entry append is not guarded by exactly the level filter `level > outline_level -> continue`")
    oks = bool(roles["outline"]) and bool(lvl_guard)
    ctx.instance("R20c", f"{f.file}:{f.ident}", "outline_level read from the TOC source element (self.outline_level)", ok=oks)
    if not oks:
        ctx.report("R20c", f, f.node, "outline_level source", "the level filter does not use the outline level stored in the TOC")
    hv = loop.target.id if isinstance(loop.target, ast.Name) else None
    lv = [n for n in ast.walk(loop) if isinstance(n, ast.Assign) and isinstance(n.targets[0], ast.Name) and n.targets[0].id in roles["level"]]
    okl = bool(lv) and any(isinstance(x, ast.Name) and x.id == hv for x in ast.walk(lv[0].value))
    ctx.instance("R20c", f"{f.file}:{f.ident}", "level read from the heading's text:outline-level", ok=okl)
    if not okl:
        ctx.report("R20c", f, loop, "level source", "the heading level is not read from text:outline-level of the heading")
    # same level drives numbering and style
    num = [n for n in ast.walk(loop) if isinstance(n, ast.Call) and call_name(n) == "_header_numbering"]
    okn = bool(num) and len(num[0].args) == 2 and isinstance(num[0].args[1], ast.Name) and num[0].args[1].id in roles["level"]
    ctx.instance("R20c", f"{f.file}:{f.ident}", "numbering called with the heading's level", ok=okn)
    if not okn:
        ctx.report("R20c", f, loop, "numbering level", "the hierarchical number is not computed from the heading's level")
    # the entry shows the heading's own text and nothing else: the accessor read on the heading must not include the heading's tail
    hcls = repo.cls("Header")
    para = [n for n in ast.walk(loop) if isinstance(n, ast.Call) and call_name(n) == "Paragraph" and n.args]
    accs = [x for p_ in para for x in ast.walk(p_.args[0]) if isinstance(x, ast.Attribute) and isinstance(x.value, ast.Name) and x.value.id == hv]

    def reads_own_tail(cls_, prop, depth=0):
        g_ = cls_.lookup(prop, "getter")
        if g_ is None or depth > 2:
            return None
        for x in walk_no_nested(g_.node):
            if isinstance(x, ast.Attribute) and isinstance(x.value, ast.Name) and x.value.id == "self":
                if x.attr in ("tail", "_text_tail"):
                    return f"{g_.ident} reads self.{x.attr}"
                if x.attr != prop:
                    sub = reads_own_tail(cls_, x.attr, depth + 1)
                    if sub:
                        return f"{g_.ident} → {sub}"
        return None

    for a_ in accs:
        why = reads_own_tail(hcls, a_.attr)
        ctx.instance("R20c", f"{f.file}:{f.ident}", f"entry text from {hv}.{a_.attr}: " + ("the heading's own content" if not why else f"includes its tail ({why})"),
                     ok=not why, nontrivial=True, line=a_.lineno)
        if why:
            ctx.report("R20c", f, a_, f"{norm(a_, 30)} includes the heading's tail",
                       f"the TOC entry is built from `{hv}.{a_.attr}`, which includes the text *after* the heading element ({why}): a document saved with indentation "
                       f"and reopened has line breaks and blanks there, which end up in every entry")
    if not accs:
        ctx.instance("R20c", f"{f.file}:{f.ident}", "entry text read from the heading", ok=False, line=loop.lineno)
        ctx.report("R20c", f, loop, "entry text not read from an accessor of the heading", "the TOC entry is not built from a text accessor of the heading element")
    # headings outside the depth do not advance the counters (scripts/headers.py filters before it touches them)
    if num and lvl_guard:
        ng = structural_guards(num[0], stop=loop)
        okf = any(t is lvl_guard[0] and not pol for t, pol in ng)
        ctx.instance("R20c", f"{f.file}:{f.ident}", "the numbering counters advance only for headings that pass the level filter", ok=okf, nontrivial=True, line=num[0].lineno)
        if not okf:
            ctx.report("R20c", f, num[0], f"{norm(num[0], 50)} runs before the level filter",
                       "TOC.fill advances the hierarchical counters for headings deeper than the TOC's outline level, which are not listed: a hidden heading that skips a "
                       "level pre-seeds the shallower counters and the next listed heading gets a wrong number (and the TOC disagrees with odfdo-headers --depth, which "
                       "filters first)")
    g = repo.find_func("scripts.headers:header_numbering")
    if g is not None:
        first_touch = [n for n in walk_no_nested(g.node) if isinstance(n, (ast.Subscript, ast.Call)) and any(
            isinstance(x, ast.Name) and x.id == "level_indexes" for x in ast.walk(n)) and not isinstance(getattr(n, "ctx", None), ast.Load)]
        filt = [n for n in body_no_doc(g.node) if isinstance(n, ast.If) and any(isinstance(c, ast.Compare) and isinstance(c.ops[0], ast.Gt) for c in ast.walk(n.test))
                and n.body and isinstance(n.body[-1], ast.Return)]
        okh = bool(filt) and all(x.lineno > filt[0].lineno for x in first_touch)
        ctx.instance("R20c", f"{g.file}:{g.ident}", "the script filters by depth before it touches the counters", ok=okh, line=g.node.lineno)
        if not okh:
            ctx.report("R20c", g, g.node, "depth filter after counter update", "odfdo-headers advances the counters for headings beyond --depth")


def _numbering_consts(repo: Repo, f: FuncInfo) -> dict:
    out: dict = {"reset_loop": False}
    # the heading level: a parameter called `level`, or the local read from text:outline-level
    lvl = {a.arg for a in f.all_params() if a.arg == "level"}
    for n in walk_no_nested(f.node):
        if isinstance(n, ast.Assign) and len(n.targets) == 1 and isinstance(n.targets[0], ast.Name) \
                and any(isinstance(x, ast.Constant) and x.value == "text:outline-level" for x in ast.walk(n.value)):
            lvl.add(n.targets[0].id)

    def canon_level(e: ast.AST) -> str:
        import copy
        c = copy.deepcopy(e)
        for x in ast.walk(c):
            if isinstance(x, ast.Name) and x.id in lvl:
                x.id = "level"
        return ast.unparse(c)

    wvars = set()
    for n in walk_no_nested(f.node):
        if isinstance(n, ast.While) and isinstance(n.test, ast.Compare) and isinstance(n.test.ops[0], ast.In) and isinstance(n.test.left, ast.Name):
            wvars.add(n.test.left.id)
    for n in walk_no_nested(f.node):
        if isinstance(n, ast.Call) and call_name(n) == "setdefault" and len(n.args) == 2:
            out["missing_upper_default"] = repo.fold(n.args[1], f.module)
        if isinstance(n, ast.BinOp) and isinstance(n.op, ast.Add) and isinstance(n.left, ast.Call) and call_name(n.left) == "get" and len(n.left.args) == 2:
            out["increment"] = (repo.fold(n.left.args[1], f.module), repo.fold(n.right, f.module))
        if isinstance(n, ast.Call) and call_name(n) == "range" and len(n.args) == 2:
            out["upper_range"] = (repo.fold(n.args[0], f.module), canon_level(n.args[1]))
        if isinstance(n, ast.While) and isinstance(n.test, ast.Compare) and isinstance(n.test.ops[0], ast.In):
            if any(isinstance(s, ast.Delete) for s in n.body) and any(isinstance(s, ast.AugAssign) for s in n.body):
                out["reset_loop"] = True
        if isinstance(n, ast.Assign) and isinstance(n.targets[0], ast.Name) and n.targets[0].id in wvars and isinstance(n.value, ast.BinOp):
            out["reset_from"] = canon_level(n.value)
        if isinstance(n, ast.Return) and n.value is not None and not (isinstance(n.value, ast.Constant)):
            ps = n.value
            if isinstance(ps, ast.BinOp) and isinstance(ps.op, ast.Add) and isinstance(ps.left, ast.Call) and call_name(ps.left) == "join":
                out["separator"] = repo.fold(ps.left.func.value, f.module)
                out["suffix"] = repo.fold(ps.right, f.module)
        if isinstance(n, ast.Assign) and isinstance(n.targets[0], ast.Subscript) and isinstance(n.targets[0].slice, ast.Name) and n.targets[0].slice.id in lvl:
            out["stores_level_counter"] = True
    return out


def r20d(ctx):
    repo = ctx.repo
    ctx.rule("R20d", "TOC._header_numbering and scripts/headers.header_numbering use the same numbering constants", floor=6)
    a = repo.func("TOC._header_numbering")
    b = repo.func("scripts.headers:header_numbering")
    ca, cb = _numbering_consts(repo, a), _numbering_consts(repo, b)
    keys = ["missing_upper_default", "increment", "upper_range", "reset_loop", "reset_from", "separator", "suffix", "stores_level_counter"]
    for k in keys:
        va, vb = ca.get(k), cb.get(k)
        ok = va == vb and va is not None and va is not UNKNOWN
        ctx.instance("R20d", f"{a.file} / {b.file}", f"{k}: TOC {va!r} == headers script {vb!r}", ok=ok, nontrivial=True)
        if not ok:
            ctx.report("R20d", b if va is not None else a, (b if va is not None else a).node, f"{k}: {va!r} vs {vb!r}",
                       f"numbering constant {k!r} differs between TOC._header_numbering ({va!r}) and scripts/headers.header_numbering ({vb!r}): "
                       f"the TOC and the heading-listing tool report different outlines")
    # both read the level from the same attribute and filter the same way
    fill, hn = repo.func("TOC.fill"), b
    la = {n.args[0].value for n in walk_no_nested(fill.node) if isinstance(n, ast.Call) and call_name(n) == "get_attribute_integer" and n.args and isinstance(n.args[0], ast.Constant)}
    lb = {n.args[0].value for n in walk_no_nested(hn.node) if isinstance(n, ast.Call) and call_name(n) == "get_attribute_integer" and n.args and isinstance(n.args[0], ast.Constant)}
    ok = la == lb == {"text:outline-level"}
    ctx.instance("R20d", f"{fill.file} / {hn.file}", f"level attribute {sorted(la)} == {sorted(lb)}", ok=ok, nontrivial=True)
    if not ok:
        ctx.report("R20d", hn, hn.node, f"{sorted(la)} vs {sorted(lb)}", "the two outlines read the heading level from different attributes")
    # and both print "<number> <heading>" with one space
    hd = repo.func("scripts.headers:headers_document")
    fa = [norm(n.args[0]) for n in walk_no_nested(fill.node) if isinstance(n, ast.Call) and call_name(n) == "Paragraph" and n.args and isinstance(n.args[0], ast.JoinedStr)]
    fb = [n.args[0] for n in walk_no_nested(hd.node) if isinstance(n, ast.Call) and call_name(n) == "print" and n.args and isinstance(n.args[0], ast.JoinedStr)]
    la_ = [[v.value for v in ast.parse(x, mode="eval").body.values if isinstance(v, ast.Constant)] for x in fa]
    lb_ = [[v.value for v in x.values if isinstance(v, ast.Constant)] for x in fb]
    ok = bool(la_) and la_ == lb_ == [[" "]]
    ctx.instance("R20d", f"{fill.file} / {hd.file}", f"entry layout literals {la_} == {lb_}", ok=ok)
    if not ok:
        ctx.report("R20d", hd, hd.node, f"{la_} vs {lb_}", "TOC entries and the heading-listing tool lay out number and text differently")


def _heading_text_accessor(repo, f, expr: ast.expr, heading_vars: set[str]) -> set[str]:
    """The accessor(s) of the heading that an entry expression reads its text from, reduced to the underlying property:
    a bare `h` (in an f-string, str(h), a concatenation) is looked up in Header.__str__ (`return self.P + <constant>` gives P),
    `h.P` gives P, `h.m()` gives `m()`.  A local holding the expression is followed to its single definition."""
    out: set[str] = set()
    hcls = repo.cls("Header")
    for _ in range(3):
        if isinstance(expr, ast.Name) and expr.id not in heading_vars:
            ds = [a.value for a in walk_no_nested(f.node) if isinstance(a, ast.Assign) and any(isinstance(t, ast.Name) and t.id == expr.id for t in a.targets)]
            if len(ds) == 1:
                expr = ds[0]
                continue
        break

    def of_str() -> str:
        g = hcls.lookup("__str__")
        if g is None:
            return "__str__"
        rets = [r.value for r in walk_no_nested(g.node) if isinstance(r, ast.Return) and r.value is not None]
        props = {x.attr for r in rets for x in ast.walk(r) if isinstance(x, ast.Attribute) and isinstance(x.value, ast.Name) and x.value.id == "self"}
        calls = [x for r in rets for x in ast.walk(r) if isinstance(x, ast.Call)]
        return next(iter(props)) if len(props) == 1 and not calls else "__str__"

    consumed: set[int] = set()
    for x in ast.walk(expr):
        if isinstance(x, ast.Call) and isinstance(x.func, ast.Attribute) and isinstance(x.func.value, ast.Name) and x.func.value.id in heading_vars:
            out.add(f"{x.func.attr}()")
            consumed |= {id(x.func), id(x.func.value)}
        elif isinstance(x, ast.Attribute) and id(x) not in consumed and isinstance(x.value, ast.Name) and x.value.id in heading_vars:
            out.add(x.attr)
            consumed.add(id(x.value))
        elif isinstance(x, ast.Name) and x.id in heading_vars and id(x) not in consumed:
            out.add(of_str())
    return out


def r20e(ctx):
    """The listing tool shows the text the index shows.

    fill() writes "<number> <heading.inner_text>".  odfdo-headers prints "<number> <heading>", i.e. str(heading), which Header/Paragraph
    define as inner_text plus a line end.  Both therefore show the heading's own characters, notes and all, in one line of text.  Another
    accessor on either side (get_formatted_text() expands notes and wraps, text_recursive adds the tail, .text stops at the first child)
    makes "the same outline" two different ones for every heading that contains markup.
    """
    repo = ctx.repo
    ctx.rule("R20e", "TOC.fill and the heading-listing script read the heading text through the same accessor", floor=1)
    fill = repo.func("TOC.fill")
    hd = repo.func("scripts.headers:headers_document")

    def loop_vars(f):
        return {n.target.id for n in walk_no_nested(f.node) if isinstance(n, ast.For) and isinstance(n.target, ast.Name) and isinstance(n.iter, ast.Attribute) and n.iter.attr == "headers"}

    fa = [n.args[0] for n in walk_no_nested(fill.node) if isinstance(n, ast.Call) and call_name(n) == "Paragraph" and n.args]
    fb = [n.args[0] for n in walk_no_nested(hd.node) if isinstance(n, ast.Call) and call_name(n) in ("print", "write") and n.args]
    if not fa or not fb or not loop_vars(fill) or not loop_vars(hd):
        raise AnalysisError("R20e: entry layout of TOC.fill or headers_document not found")
    a = set().union(*[_heading_text_accessor(repo, fill, j, loop_vars(fill)) for j in fa])
    b = set().union(*[_heading_text_accessor(repo, hd, j, loop_vars(hd)) for j in fb])
    ok = a == b and len(a) == 1
    ctx.instance("R20e", f"{fill.file} / {hd.file}", f"heading text: index reads {sorted(a)}, listing tool reads {sorted(b)}", ok=ok, nontrivial=True, line=hd.node.lineno)
    if not ok:
        ctx.report("R20e", hd, fb[0], f"index reads {sorted(a)}, listing tool reads {sorted(b)}",
                   f"TOC.fill builds its entries from the heading's {sorted(a)} while scripts/headers prints the heading's {sorted(b)}: for a heading that holds a note, "
                   f"a link, a line break or a long text the two outlines differ, although the property asks for the same outline from both")


def r20g(ctx):
    """There is one index body.

    fill() empties the index through `self.body = None` and then reads `self.body` back; the getter returns the first text:index-body.
    Both work only while the setter replaces: whatever is assigned, the body that was there is removed first.  A setter that keeps the old
    body when a new one is given leaves two; fill() then cleans one and fills the other, and the entries of the kept one stay.
    Rule: in the TOC.body setter the deletion of the current body is on every normal path, guarded by nothing but the existence of that
    body.
    """
    from ..paths import cfg_of, node_of, structural_guards
    repo = ctx.repo
    ctx.rule("R20g", "the TOC.body setter removes the previous index body whatever is assigned", floor=1)
    f = repo.func("TOC.body", "setter")
    par = [a.arg for a in f.node.args.args if a.arg != "self"][0]
    dels = [c for c in walk_no_nested(f.node) if isinstance(c, ast.Call) and call_name(c) == "delete"]
    if not dels:
        raise AnalysisError("R20g: the TOC.body setter no longer deletes anything")
    bad = []
    for d in dels:
        for t, _pol in structural_guards(d, stop=f.node):
            if any(isinstance(x, ast.Name) and x.id == par for x in ast.walk(t)):
                bad.append((d, t))
    ctx.instance("R20g", f"{f.file}:{f.ident}", "old body deleted independently of the value assigned", ok=not bad, nontrivial=True, line=f.node.lineno)
    for d, t in bad[:1]:
        ctx.report("R20g", f, d, f"{norm(d, 40)} only under `{norm(t, 40)}`",
                   f"the TOC.body setter removes the previous index body only when `{norm(t, 40)}`: assigning a body leaves two text:index-body elements, fill() empties one and "
                   f"fills the other, so stale entries and a second title remain and two fills in a row give different results")


def r20f(ctx):
    """The outline level that fill() filters by is the one that was requested.

    fill() keeps the headings whose level does not exceed `self.outline_level`, which is read back from text:table-of-content-source.
    "Exactly the headings whose level does not exceed the requested outline level" therefore needs the setter to store the request itself,
    always: 0 is the library's "all levels" (the constructor writes it), so a clamp to 1..10 or an early return for a false value leaves
    another level in force than the one asked for.  Rule: on every normal path of the setter the attribute is written, and what is written
    is str() of the parameter, which is never re-bound.
    """
    from ..paths import cfg_of, node_of
    repo = ctx.repo
    ctx.rule("R20f", "TOC.outline_level setter stores the requested level, unchanged, on every path", floor=1)
    f = repo.func("TOC.outline_level", "setter")
    par = [a.arg for a in f.node.args.args if a.arg != "self"][0]
    writes = [c for c in walk_no_nested(f.node) if isinstance(c, ast.Call) and call_name(c) == "set_attribute" and len(c.args) == 2
              and repo.fold(c.args[0], f.module) == "text:outline-level"]
    if not writes:
        raise AnalysisError("R20f: the setter of TOC.outline_level no longer writes text:outline-level")
    rebinds = [a for a in walk_no_nested(f.node) if isinstance(a, (ast.Assign, ast.AugAssign, ast.AnnAssign))
               and any(isinstance(t, ast.Name) and t.id == par for t in (a.targets if isinstance(a, ast.Assign) else [a.target]))]
    bad = []
    for w in writes:
        v = w.args[1]
        core = v.args[0] if isinstance(v, ast.Call) and call_name(v) in ("str", "int") and len(v.args) == 1 else v
        if isinstance(core, ast.Call) and call_name(core) in ("str", "int") and len(core.args) == 1:
            core = core.args[0]
        if not (isinstance(core, ast.Name) and core.id == par):
            bad.append((w, f"writes `{norm(v, 40)}`, not the requested level"))
    for a in rebinds:
        bad.append((a, f"re-binds the requested level (`{norm(a, 50)}`)"))
    cfg = cfg_of(f)
    skip = cfg.path_avoiding(cfg.entry, cfg.exit, [node_of(cfg, w) for w in writes], follow_exc=False)
    if skip is not None:
        last = [x for x in skip if x.stmt is not None][-1].stmt
        bad.append((last, f"can return without writing the attribute (`{norm(last, 40)}`)"))
    ctx.instance("R20f", f"{f.file}:{f.ident}", "requested level written as given on every path", ok=not bad, nontrivial=True, line=f.node.lineno)
    for n_, why in bad[:2]:
        ctx.report("R20f", f, n_, f"TOC.outline_level setter {why.split(' (')[0]}",
                   f"the setter of TOC.outline_level {why}: fill() filters by the value read back from the TOC source, so after `toc.outline_level = 0` (all levels) or any level "
                   f"the change alters, the index lists the headings of another level than the one requested")


def r20h(ctx):
    """The outline level a caller gives is the one that is written.

    "The table lists exactly the headings whose level is at most its outline level": the level arrives as an argument (of the TOC constructor,
    of create_toc_source, of the entry-template constructor, of the property setter) and is written as `text:outline-level`.  Python lets a loop
    reuse the argument's name as its counter; after such a loop the name holds the last counter value, and a write placed after it stores 10
    whatever the caller asked.  Rule: wherever a function of toc.py writes an outline level (set_attribute("text:outline-level", …), an
    `outline_level=` keyword, a store to `.outline_level`) from one of its own parameters, the only definitions of that name that reach the
    write are the parameter itself or a normalisation of it (`p = int(p)`, a default for None).
    """
    from ..paths import reaching_defs
    repo = ctx.repo
    ctx.rule("R20h", "an outline level written from a parameter is that parameter, not a loop counter of the same name", floor=3)
    funcs = [f for f in repo.all_funcs() if f.file.endswith("/toc.py") and f.kind != "nested"]
    n_sites = 0
    for f in funcs:
        params = {a.arg for a in f.node.args.posonlyargs + f.node.args.args + f.node.args.kwonlyargs} - {"self", "cls"}
        sites = []
        for n in walk_no_nested(f.node):
            if isinstance(n, ast.Call) and call_name(n) == "set_attribute" and len(n.args) == 2 and repo.fold(n.args[0], f.module) == "text:outline-level":
                sites.append((n, n.args[1]))
            if isinstance(n, ast.Call):
                for kw in n.keywords:
                    if kw.arg == "outline_level":
                        sites.append((n, kw.value))
            if isinstance(n, ast.Assign) and any(isinstance(t, ast.Attribute) and t.attr == "outline_level" for t in n.targets):
                sites.append((n, n.value))
        cfg = None
        for site, val in sites:
            names = {x.id for x in ast.walk(val) if isinstance(x, ast.Name)} & params
            if not names:
                continue
            n_sites += 1
            cfg = cfg or cfg_of(f)
            node = node_of(cfg, site)
            bad = None
            for nm in sorted(names):
                rd = reaching_defs(cfg, nm).get(node.id, frozenset())
                for d in rd:
                    if d == cfg.entry.id:
                        continue
                    dn = next(x for x in cfg.nodes if x.id == d)
                    st = dn.stmt
                    normalising = isinstance(st, (ast.Assign, ast.AnnAssign)) and st.value is not None and any(isinstance(x, ast.Name) and x.id == nm for x in ast.walk(st.value))
                    constant_default = isinstance(st, ast.Assign) and isinstance(st.value, ast.Constant) and any(
                        nm in ast.unparse(t) and "None" in ast.unparse(t) for t, _ in structural_guards(st, stop=f.node))
                    if not (normalising or constant_default):
                        bad = (nm, st)
            ctx.instance("R20h", f"{f.file}:{f.ident}", f"{norm(site, 50)}: written from the argument", ok=bad is None, nontrivial=True, line=site.lineno)
            if bad:
                nm, st = bad
                ctx.report("R20h", f, site, f"{norm(val, 30)} <- {type(st).__name__}",
                           f"{f.ident} writes the outline level from `{nm}`, but by then `{nm}` has been rebound by `{norm(st, 50)}` (line {st.lineno}): what is stored is that "
                           f"value (the last loop counter), not the level the caller asked for — the table of contents then lists headings deeper than its level")
    if n_sites < 3:
        raise AnalysisError(f"R20h: only {n_sites} outline-level write(s) from a parameter found in toc.py")


def r20i(ctx):
    """Replacing the body of a part keeps the body element in the tree.

    `TOC.fill(document)` and the heading-listing tool read `document.body`, and Document caches that element (`__body`, reset only by
    set_part and clone).  The setter `XmlPart.body = new_body` therefore has to change the *content* of the existing `office:text` /
    `office:spreadsheet` element — empty it, move the new children in — so that every holder of the element, the cache included, sees the new
    content.  A setter that swaps the element itself (replace_element, delete + append under the parent) leaves the cache pointing at a detached
    body: the table of contents then lists the headings of a body that is no longer in the document.  Rule: in the XmlPart.body setter the
    current body element is never detached — it is not an argument of replace_element / replace / delete / remove, and delete() is not called
    on it — and the children of the new body are appended to it.
    """
    repo = ctx.repo
    ctx.rule("R20i", "the XmlPart.body setter refills the existing body element instead of replacing it (Document caches that element)", floor=2)
    f = repo.func("XmlPart.body", "setter")
    # locals that hold the current body: defined from `.document_body`, `self.body` or get_body()
    cur = set()
    for a in walk_no_nested(f.node):
        if isinstance(a, ast.Assign) and len(a.targets) == 1 and isinstance(a.targets[0], ast.Name):
            if any((isinstance(x, ast.Attribute) and x.attr in ("document_body", "body")) or (isinstance(x, ast.Call) and call_name(x) in ("get_body", "get_document_body")) for x in ast.walk(a.value)):
                cur.add(a.targets[0].id)
    if not cur:
        raise AnalysisError("R20i: the body setter no longer reads the current body element")
    detach = []
    for c in walk_no_nested(f.node):
        if not isinstance(c, ast.Call):
            continue
        nm = call_name(c)
        if nm in ("replace_element", "replace", "delete", "remove") and any(isinstance(a, ast.Name) and a.id in cur for a in c.args):
            detach.append(c)
        if nm == "delete" and isinstance(c.func, ast.Attribute) and isinstance(c.func.value, ast.Name) and c.func.value.id in cur and not c.args:
            detach.append(c)
    ctx.instance("R20i", f"{f.file}:{f.ident}", "the current body element stays attached", ok=not detach, nontrivial=True, line=f.node.lineno)
    for c in detach[:1]:
        ctx.report("R20i", f, c, norm(c, 50),
                   f"{f.ident} detaches the current body element (`{norm(c, 50)}`): Document.body caches that element, so after the assignment `document.body` — which TOC.fill(document) "
                   f"and the heading-listing tool read — is a body that is no longer in the document, and the table of contents lists its headings")
    refill = [c for c in walk_no_nested(f.node) if isinstance(c, ast.Call) and call_name(c) in ("append", "extend", "insert") and isinstance(c.func, ast.Attribute)
              and isinstance(c.func.value, ast.Name) and c.func.value.id in cur]
    ctx.instance("R20i", f"{f.file}:{f.ident}", "the new children are moved into the current body element", ok=bool(refill), nontrivial=True, line=f.node.lineno)
    if not refill:
        ctx.report("R20i", f, f.node, "no refill of the current body",
                   f"{f.ident} does not append the new content to the current body element: the element Document.body caches does not receive it")


def r20j(ctx):
    """The title of a table of contents is judged by its whole text.

    "…with the title kept": fill() saves the `text:index-title`, empties the index body and puts the title back `if title and str(title)`.
    The string form of the title element is the one every element inherits — its full text, through all its children.  A `__str__` written
    for the helper classes of toc.py that returns less (the paragraph's own `.text`: only the characters before the first child element)
    makes a title that starts with a span, two blanks or a tab look empty, and fill() drops it without a word.  Rule: of the classes defined
    in toc.py only TOC has a `__str__` of its own; and fill() puts the saved title back under no condition other than tests of that title.
    """
    repo = ctx.repo
    ctx.rule("R20j", "the helper classes of toc.py inherit the full-text __str__ that TOC.fill uses to decide whether there is a title", floor=3)
    n = 0
    for c in repo.all_classes():
        if not c.module.relpath.endswith("/toc.py") if hasattr(c.module, "relpath") else True:
            continue
        n += 1
        own = [f for f in c.methods.get("__str__", []) if f.cls is c]
        ok = c.name == "TOC" or not own
        ctx.instance("R20j", f"{c.module.relpath}:{c.name}", "no __str__ of its own", ok=ok, nontrivial=c.name != "TOC", line=c.node.lineno)
        if not ok:
            f = own[0]
            ctx.report("R20j", f, f.node, f"{c.name}.__str__",
                       f"{c.name} defines its own `__str__`: TOC.fill() keeps the saved title only `if title and str(title)`, and relies on the inherited full-text form — a version that returns "
                       f"less than the whole text (the paragraph's `.text` stops at the first child element) makes a title that begins with a span, blanks or a tab look empty, and it is dropped")
    if n < 3:
        raise AnalysisError(f"R20j: only {n} class(es) found in toc.py")


def r20k(ctx):
    """An entry is written with the heading's text, blanks included.

    "Each entry is the number followed by the heading's text": fill() builds the entry paragraph from `header.inner_text`.  The Paragraph
    constructor encodes runs of blanks, tabs and line breaks (text:s, text:tab, text:line-break) so that they survive; with
    `formatted=False` it collapses them into single blanks on purpose.  Rule: the Paragraph that fill() builds for an entry is constructed
    with the default formatting — no `formatted=` keyword other than True.
    """
    repo = ctx.repo
    ctx.rule("R20k", "TOC.fill builds each entry paragraph with the default (white-space preserving) formatting", floor=1)
    f = repo.func("TOC.fill")
    calls = [c for c in walk_no_nested(f.node) if isinstance(c, ast.Call) and call_name(c) == "Paragraph"]
    if not calls:
        raise AnalysisError("R20k: TOC.fill no longer builds a Paragraph")
    for c in calls:
        kw = [k for k in c.keywords if k.arg == "formatted"]
        ok = not kw or (isinstance(kw[0].value, ast.Constant) and kw[0].value.value is True)
        ctx.instance("R20k", f"{f.file}:{f.ident}", f"{norm(c, 40)}: default formatting", ok=ok, nontrivial=True, line=c.lineno)
        if not ok:
            ctx.report("R20k", f, c, norm(c, 50),
                       f"TOC.fill builds the entry with `formatted={norm(kw[0].value, 10)}`: runs of blanks, tabs and line breaks of the heading are collapsed into single blanks, so the entry is no "
                       f"longer the heading's text")


def run(ctx):
    r20a(ctx)
    r20b(ctx)
    r20c(ctx)
    r20d(ctx)
    r20e(ctx)
    r20f(ctx)
    r20g(ctx)
    r20h(ctx)
    r20i(ctx)
    r20j(ctx)
    r20k(ctx)
    # fill() filters by self.outline_level: that property must read this TOC's own source element, not the first one of the document (rule shared with C12)
    from ..registry import build_registry
    from .c12 import r12k
    r12k(ctx, build_registry(ctx.repo))
    # fill() without a document reads the headings under self.document_body: that lookup must be evaluated on the tree the TOC sits in now, not remembered from the tree it sat in first (rule shared with C14)
    from .c14 import r14i
    r14i(ctx)


from ..selftest import Seed, unparse_seed  # noqa: E402

_TOC = "src/odfdo/toc.py"
_HS = "src/odfdo/scripts/headers.py"
SEEDS = [
    Seed("TOC.fill builds its entries unformatted", "fault", _TOC,
         'paragraph = Paragraph(f"{number_str} {header.inner_text}")', 'paragraph = Paragraph(f"{number_str} {header.inner_text}", formatted=False)', "R20k"),
    Seed("IndexTitle gets a __str__ that returns the paragraph's own text", "fault", _TOC,
         "class IndexTitle(Element):", "class IndexTitle(Element):\n    def __str__(self) -> str:\n        paragraph = self.get_paragraph()\n        return \"\" if paragraph is None else paragraph.text\n", "R20j"),
    Seed("the XmlPart.body setter swaps the body element", "fault", "src/odfdo/xmlpart.py",
         "        tail = body.tail\n        body.clear()\n        for item in new_body.children:\n            body.append(item)\n        if tail:\n            body.tail = tail",
         "        tail = body.tail\n        body.parent.replace_element(body, new_body)\n        new_body.tail = tail", "R20i"),
    Seed("create_toc_source reuses the argument's name as the template loop counter", "fault", _TOC,
         "        for level in range(1, 11):\n            template = TocEntryTemplate(outline_level=level)\n            if entry_style:\n                template.style = entry_style % level\n            toc_source.append(template)\n",
         "        for outline_level in range(1, 11):\n            template = TocEntryTemplate(outline_level=outline_level)\n            if entry_style:\n                template.style = entry_style % outline_level\n            toc_source.append(template)\n        toc_source.set_attribute(\"text:outline-level\", str(outline_level))\n", "R20h"),
    Seed("TOC.body setter keeps the old body when a new one is given", "fault", _TOC,
         "        old_body = self.body\n        if old_body is not None:\n            self.delete(old_body)\n        if body is None:\n            body = Element.from_tag(\"text:index-body\")",
         "        if body is None:\n            old_body = self.body\n            if old_body is not None:\n                self.delete(old_body)\n            body = Element.from_tag(\"text:index-body\")", "R20g"),
    Seed("outline_level setter clamps the level to 1..10", "fault", _TOC, '        source.set_attribute("text:outline-level", str(level))', '        level = min(max(int(level), 1), 10)\n        source.set_attribute("text:outline-level", str(level))', "R20f"),
    Seed("outline_level setter returns early for level 0", "fault", _TOC, "    def outline_level(self, level: int) -> None:\n        source = self.get_element(\"text:table-of-content-source\")\n        if source is None:\n            source = Element.from_tag",
         "    def outline_level(self, level: int) -> None:\n        if not level:\n            return\n        source = self.get_element(\"text:table-of-content-source\")\n        if source is None:\n            source = Element.from_tag", "R20f"),
    Seed("outline_level setter converts with int first", "neutral", _TOC, '        source.set_attribute("text:outline-level", str(level))', '        source.set_attribute("text:outline-level", str(int(level)))'),
    Seed("headers script prints the formatted text of the heading", "fault", "src/odfdo/scripts/headers.py", '        print(f"{number_str} {header}", end="")', '        print(f"{number_str} {header.get_formatted_text()}")', "R20e"),
    Seed("headers script prints text_recursive", "fault", "src/odfdo/scripts/headers.py", '        print(f"{number_str} {header}", end="")', '        print(f"{number_str} {header.text_recursive}")', "R20e"),
    Seed("headers script prints inner_text and its own line end", "neutral", "src/odfdo/scripts/headers.py", '        print(f"{number_str} {header}", end="")', '        print(f"{number_str} {header.inner_text}")'),
    Seed("TOC entry built from text_recursive (includes the tail)", "fault", "src/odfdo/toc.py",
         'paragraph = Paragraph(f"{number_str} {header.inner_text}")', 'paragraph = Paragraph(f"{number_str} {header.text_recursive}")', "R20c"),
    Seed("TOC numbers a heading before the level filter", "fault", "src/odfdo/toc.py", '            if level is None or level > outline_level:\n                continue\n            number_str = self._header_numbering(level_indexes, level)\n',
         "            number_str = self._header_numbering(level_indexes, level)\n            if level is None or level > outline_level:\n                continue\n", "R20c"),
    Seed("entry built from str(header) again", "fault", _TOC, 'Paragraph(f"{number_str} {header.inner_text}")', 'Paragraph(f"{number_str} {header}")', "R20a"),
    Seed("entry built with str() call", "fault", _TOC, 'Paragraph(f"{number_str} {header.inner_text}")', 'Paragraph(number_str + " " + str(header))', "R20a"),
    Seed("entry built through a local", "fault", _TOC,
         '            paragraph = Paragraph(f"{number_str} {header.inner_text}")', '            entry = f"{number_str} {header}"\n            paragraph = Paragraph(entry)', "R20a"),
    Seed("refill keeps the old body", "fault", _TOC,
         "        # Clean the old index-body\n        self.body = None\n        index_body = self.body\n", "        # Clean the old index-body\n        index_body = self.body\n", "R20b"),
    Seed("reset only when a title exists", "fault", _TOC,
         "        self.body = None\n        index_body = self.body\n\n        # Restore the title", "        if title:\n            self.body = None\n        index_body = self.body\n\n        # Restore the title", "R20b"),
    Seed("title appended last", "fault", _TOC, "            index_body.insert(title, position=0)  # type: ignore", "            index_body.insert(title, position=1)  # type: ignore", "R20b"),
    Seed("level filter off by one", "fault", _TOC, "            if level is None or level > outline_level:", "            if level is None or level >= outline_level:", "R20c"),
    Seed("level filter uses a constant", "fault", _TOC, "        outline_level = self.outline_level or 10", "        outline_level = 10", "R20c"),
    Seed("extra filter on empty headings", "fault", _TOC,
         "            number_str = self._header_numbering(level_indexes, level)\n", "            if not header.inner_text.strip():\n                continue\n            number_str = self._header_numbering(level_indexes, level)\n", "R20c"),
    Seed("TOC numbering: missing upper levels default to 0", "fault", _TOC, "numbers.append(level_indexes.setdefault(idx, 1))", "numbers.append(level_indexes.setdefault(idx, 0))", "R20d"),
    Seed("script numbering: separator changed", "fault", _HS, 'return ".".join(str(x) for x in numbers) + "."', 'return "-".join(str(x) for x in numbers) + "."', "R20d"),
    Seed("TOC numbering: deeper levels not reset", "fault", _TOC,
         "        idx = level + 1\n        while idx in level_indexes:\n            del level_indexes[idx]\n            idx += 1\n        return \".\".join(str(x) for x in numbers) + \".\"\n\n    def fill(",
         "        return \".\".join(str(x) for x in numbers) + \".\"\n\n    def fill(", "R20d"),
    Seed("script numbering: increment from 1", "fault", _HS, "index = level_indexes.get(level, 0) + 1", "index = level_indexes.get(level, 1) + 1", "R20d"),
    unparse_seed(_TOC), unparse_seed(_HS),
    Seed("text_recursive accessor is also exact", "neutral", _TOC, 'Paragraph(f"{number_str} {header.inner_text}")', 'Paragraph(f"{number_str} {header.inner_text}", style=None)'),
]
