"""C18 — codecs: exact inverses in ODF lexical form (structural clauses).

R18a  character-dispatch loops of decoders are exhaustive with a rejecting default
R18b  encoder/decoder literal and designator tables agree (Boolean, Duration, DateTime, Date)
R18c  colour table validated entry by entry; rgb2hex/hex2rgb field and slice tables
"""

from __future__ import annotations

import ast
import re

from ..core import UNKNOWN, AnalysisError, FuncInfo, body_no_doc, call_name, norm, walk_no_nested
from ..strflow import parts
from ..tables import _elif_arms, if_chains

EXPLANATION = (
    "Static table extraction from datatype.py, utils/color.py and const.py. R18a: every `for c in <input>` "
    "character-dispatch loop inside a decode function must end its if/elif chain with an arm that raises "
    "(else, or `c not in <literal>`), so unknown characters are rejected rather than skipped. R18b: the "
    "designators of DURATION_FORMAT, the sign prefix, the Boolean literals, the 'Z' canonicalisation and the "
    "isoformat/fromisoformat pairing are extracted from encoder and decoder and compared as sets. R18c: every "
    "entry of the literal CSS3_COLORMAP is validated (lower-case key, three ints in 0..255, grey/gray twins, the "
    "17 CSS2.1 basic colours against their specified values) and the format fields / slices of rgb2hex / hex2rgb "
    "are checked to tile '#RRGGBB'. R18e: Unit writes the stored Decimal through plain str() followed by the unit, stores "
    "Decimal(<digits as given>) and parses digits and '.' as the number. Inverse-ness over value domains (float division in "
    "Duration.encode, time zones, microseconds, floats with an exponent handed to Unit) is not decided."
)
ASSUMPTIONS = [
    "str(Decimal(d)) writes back the digits d it was built from when d has no exponent (decimal module)",
    "datetime.isoformat / fromisoformat are inverse on the values odfdo handles (Python >= 3.11 accepts 'Z')",
    "CSS 2.1 basic colour values (W3C) as frozen in BASIC_COLORS",
]

BASIC_COLORS = {  # W3C CSS 2.1 section 4.3.6 + orange (CSS 2.1)
    "black": (0, 0, 0), "silver": (192, 192, 192), "gray": (128, 128, 128), "white": (255, 255, 255),
    "maroon": (128, 0, 0), "red": (255, 0, 0), "purple": (128, 0, 128), "fuchsia": (255, 0, 255),
    "green": (0, 128, 0), "lime": (0, 255, 0), "olive": (128, 128, 0), "yellow": (255, 255, 0),
    "navy": (0, 0, 128), "blue": (0, 0, 255), "teal": (0, 128, 128), "aqua": (0, 255, 255), "orange": (255, 165, 0),
}


def _raises(body) -> bool:
    return any(isinstance(n, ast.Raise) for s in body for n in walk_no_nested(s))


def r18a(ctx):
    repo = ctx.repo
    ctx.rule("R18a", "decoder character dispatch is exhaustive: unknown characters reach an arm that raises", floor=1)
    m = repo.module("datatype")
    found = 0
    for f in m.all_funcs:
        if f.name != "decode":
            continue
        for n in walk_no_nested(f.node):
            if not (isinstance(n, ast.For) and isinstance(n.target, ast.Name) and isinstance(n.iter, ast.Name)
                    and n.iter.id in f.params):
                continue
            c = n.target.id
            chain = None
            for s in n.body:
                if isinstance(s, ast.If):
                    chain = _elif_arms(s)
            if not chain or len(chain) < 3:
                continue
            found += 1
            last = chain[-1]
            ok = False
            if last.is_else and _raises(last.body):
                ok = True
            elif last.test is not None and isinstance(last.test, ast.Compare) and isinstance(last.test.ops[0], ast.NotIn) \
                    and isinstance(last.test.left, ast.Name) and last.test.left.id == c and _raises(last.body):
                ok = True
            ctx.instance("R18a", f"{f.file}:{f.ident}", f"for {c} in {n.iter.id}: {len(chain)}-arm dispatch", ok=ok,
                         nontrivial=True, line=n.lineno)
            if not ok:
                ctx.report("R18a", f, n, f"for {c} in {n.iter.id}: if/elif chain without rejecting default",
                           f"characters matched by no arm of the dispatch on {c!r} are silently skipped: a malformed "
                           f"string decodes to a wrong value instead of being rejected")
    if not found:
        raise AnalysisError("R18a: no character-dispatch loop found in datatype.py decoders")


def _str_consts(node) -> set[str]:
    return {n.value for n in ast.walk(node) if isinstance(n, ast.Constant) and isinstance(n.value, str)}


def r18b(ctx):
    repo = ctx.repo
    ctx.rule("R18b", "encoder and decoder literal/designator tables agree", floor=6)
    m = repo.module("datatype")
    # --- Boolean
    enc, dec = repo.func("Boolean.encode"), repo.func("Boolean.decode")
    emitted = {n.value.value for n in walk_no_nested(enc.node) if isinstance(n, ast.Return) and isinstance(n.value, ast.Constant)}
    accepted = set()
    for n in walk_no_nested(dec.node):
        if isinstance(n, ast.Compare) and isinstance(n.ops[0], ast.Eq) and isinstance(n.comparators[0], ast.Constant):
            accepted.add(n.comparators[0].value)
    ok = emitted == accepted == {"true", "false"}
    ctx.instance("R18b", f"{enc.file}:Boolean", f"emitted {sorted(emitted)} == accepted {sorted(accepted)} == xsd:boolean literals", ok=ok, nontrivial=True)
    if not ok:
        ctx.report("R18b", enc, enc.node, f"emitted {sorted(emitted)} accepted {sorted(accepted)}",
                   "Boolean.encode literals and Boolean.decode literals differ (or are not 'true'/'false')")
    dec_default = any(isinstance(s, ast.Raise) for s in body_no_doc(dec.node))
    ctx.instance("R18b", f"{dec.file}:Boolean.decode", "rejecting default", ok=dec_default)
    if not dec_default:
        ctx.report("R18b", dec, dec.node, "no final raise", "Boolean.decode does not reject other strings")
    # --- Duration
    fmt = repo.fold(m.assigns.get("DURATION_FORMAT"), m)
    if not isinstance(fmt, str):
        raise AnalysisError("DURATION_FORMAT not foldable")
    denc, ddec = repo.func("Duration.encode"), repo.func("Duration.decode")
    prefix = fmt.split("%")[0]
    desig = re.findall(r"%0?\d*d([A-Za-z])", fmt)
    parsed = set()
    for n in walk_no_nested(ddec.node):
        if isinstance(n, ast.Compare) and isinstance(n.ops[0], ast.Eq) and isinstance(n.left, ast.Name) \
                and isinstance(n.comparators[0], ast.Constant) and isinstance(n.comparators[0].value, str) \
                and len(n.comparators[0].value) == 1:
            parsed.add(n.comparators[0].value)
    ok = bool(desig) and set(desig) <= parsed and prefix == "PT" and len(desig) == len(set(desig))
    ctx.instance("R18b", f"{denc.file}:Duration", f"designators emitted {desig} after {prefix!r} ⊆ parsed {sorted(parsed)}", ok=ok, nontrivial=True)
    if not ok:
        ctx.report("R18b", denc, denc.node, f"format {fmt!r} vs parsed {sorted(parsed)}",
                   "a designator written by DURATION_FORMAT is not parsed by Duration.decode (or the PT prefix changed)")
    # the % format must consume as many values as the tuple supplies, in H, M, S order
    for n in walk_no_nested(denc.node):
        if isinstance(n, ast.BinOp) and isinstance(n.op, ast.Mod) and isinstance(n.left, ast.Name) and n.left.id == "DURATION_FORMAT":
            args = [ast.unparse(a) for a in n.right.elts] if isinstance(n.right, ast.Tuple) else []
            ok = len(args) == len(desig)  # which value goes to which designator is decided by the unit table below
            ctx.instance("R18b", f"{denc.file}:{denc.ident}", f"{len(args)} format arguments for designators {desig}", ok=ok, nontrivial=True, line=n.lineno)
            if not ok:
                ctx.report("R18b", denc, n, f"{args} vs {desig}", "values passed to DURATION_FORMAT are not in designator order")
    # sign symmetry
    sign_written = "-" in {n.value.value for n in walk_no_nested(denc.node) if isinstance(n, ast.Assign) and isinstance(n.value, ast.Constant)}
    starts = set()
    for n in walk_no_nested(ddec.node):
        if isinstance(n, ast.Call) and isinstance(n.func, ast.Attribute) and n.func.attr == "startswith" and n.args \
                and isinstance(n.args[0], ast.Constant):
            starts.add(n.args[0].value)
    ok = (sign_written and {"P", "-P"} <= starts) or (not sign_written and "P" in starts)
    ctx.instance("R18b", f"{ddec.file}:{ddec.ident}", f"sign prefix written={sign_written} accepted prefixes {sorted(starts)}", ok=ok, nontrivial=True)
    if not ok:
        ctx.report("R18b", ddec, ddec.node, f"prefixes {sorted(starts)}", "sign prefix written by Duration.encode is not the one Duration.decode accepts")
    # decode applies the sign to every component it parsed
    comps = {}
    comp_var = {}
    # the sign local: assigned 1 and -1 (and nothing else)
    sign_vals: dict[str, set] = {}
    for n in walk_no_nested(ddec.node):
        if isinstance(n, ast.Assign) and len(n.targets) == 1 and isinstance(n.targets[0], ast.Name):
            v = repo.fold(n.value, ddec.module)
            sign_vals.setdefault(n.targets[0].id, set()).add(v if isinstance(v, int) and not isinstance(v, bool) else "?")
    sign_vars = {k for k, v in sign_vals.items() if v == {1, -1}}
    for n in walk_no_nested(ddec.node):
        if isinstance(n, ast.Call) and isinstance(n.func, ast.Name) and n.func.id == "timedelta":
            for k in n.keywords:
                comps[k.arg] = ast.unparse(k.value)
                e = k.value
                if isinstance(e, ast.BinOp) and isinstance(e.op, ast.Mult) and isinstance(e.left, ast.Name) and isinstance(e.right, ast.Name):
                    names = [e.left.id, e.right.id]
                    if len([x for x in names if x in sign_vars]) == 1:
                        comp_var[k.arg] = next(x for x in names if x not in sign_vars)
    ok = len(comps) >= 4 and set(comp_var) == set(comps)
    ctx.instance("R18b", f"{ddec.file}:{ddec.ident}", f"timedelta components {comps}", ok=ok, nontrivial=True)
    if not ok:
        ctx.report("R18b", ddec, ddec.node, f"timedelta({comps})", "a parsed component is not signed or feeds another unit")
    # unit table: designator -> seconds (ISO 8601), checked on both sides
    UNIT = {"D": ("days", 86400), "H": ("hours", 3600), "M": ("minutes", 60), "S": ("seconds", 1)}
    # decoder: the variable assigned in the arm of designator d is the timedelta keyword of that unit
    arm_var = {}
    for n in walk_no_nested(ddec.node):
        if isinstance(n, ast.If):
            for arm in _elif_arms(n):
                t = arm.test
                if isinstance(t, ast.Compare) and isinstance(t.ops[0], ast.Eq) and isinstance(t.comparators[0], ast.Constant) \
                        and t.comparators[0].value in UNIT:
                    for st in arm.body:
                        if isinstance(st, ast.Assign) and isinstance(st.targets[0], ast.Name) and isinstance(st.value, ast.Call) \
                                and getattr(st.value.func, "id", "") == "int":
                            arm_var[t.comparators[0].value] = st.targets[0].id
    for d, var in sorted(arm_var.items()):
        kw = UNIT[d][0]
        ok = comp_var.get(kw) == var
        ctx.instance("R18b", f"{ddec.file}:{ddec.ident}", f"designator {d}: parsed into {var}, passed as timedelta({kw}=…)", ok=ok, nontrivial=True)
        if not ok:
            ctx.report("R18b", ddec, ddec.node, f"designator {d} -> {var} -> {comps}",
                       f"the number parsed before designator {d!r} does not feed timedelta's {kw!r}")
    if set(arm_var) != set(parsed) & set(UNIT):
        ctx.report("R18b", ddec, ddec.node, f"arms {sorted(arm_var)} parsed {sorted(parsed)}", "a designator arm does not store the parsed number")
    # encoder: each format argument is microseconds / (unit seconds * 10**6), reduced modulo the previous unit
    defs = {}
    mods = []
    for n in body_no_doc(denc.node):
        if isinstance(n, ast.Assign) and isinstance(n.targets[0], ast.Name) and isinstance(n.value, ast.BinOp) \
                and isinstance(n.value.op, (ast.Div, ast.FloorDiv)):
            defs[n.targets[0].id] = (ast.unparse(n.value.left), repo.fold(n.value.right, denc.module), len(mods))
        if isinstance(n, ast.AugAssign) and isinstance(n.op, ast.Mod) and isinstance(n.target, ast.Name):
            mods.append((n.target.id, repo.fold(n.value, denc.module)))
    for n in walk_no_nested(denc.node):
        if isinstance(n, ast.BinOp) and isinstance(n.op, ast.Mod) and isinstance(n.left, ast.Name) and n.left.id == "DURATION_FORMAT" \
                and isinstance(n.right, ast.Tuple):
            for i, (a, d) in enumerate(zip(n.right.elts, desig)):
                if d not in UNIT:
                    continue  # already reported: designator not parsed
                v = ast.unparse(a)
                src, div, nm = defs.get(v, (None, None, None))
                want = UNIT[d][1] * 1000000
                ok = div == want and nm == i and all(j < len(mods) and desig[j] in UNIT and mods[j][1] == UNIT[desig[j]][1] * 1000000 and mods[j][0] == src for j in range(i))
                ctx.instance("R18b", f"{denc.file}:{denc.ident}", f"{d}: {v} = {src} / {div} after {nm} reductions (want /{want})", ok=ok, nontrivial=True)
                if not ok:
                    ctx.report("R18b", denc, n, f"{d}: {v} = {src} / {div}; reductions {mods}",
                               f"the value written before designator {d!r} is not the remaining microseconds divided by {want}")
    # --- DateTime Z canonicalisation
    te, td = repo.func("DateTime.encode"), repo.func("DateTime.decode")
    emits_z = "Z" in _str_consts(te.node)
    handles = any(isinstance(n, ast.Call) and isinstance(n.func, ast.Attribute) and n.func.attr == "fromisoformat" for n in ast.walk(td.node))
    zbranch = "Z" in _str_consts(td.node)
    ok = (not emits_z) or (handles and zbranch) or handles
    ctx.instance("R18b", f"{te.file}:DateTime", f"emits Z={emits_z}; decode uses fromisoformat={handles}, explicit Z branch={zbranch}", ok=ok)
    if not ok:
        ctx.report("R18b", td, td.node, "Z not handled", "DateTime.encode writes 'Z' but DateTime.decode has no way to read it")
    # the decoders hand the text to fromisoformat as it was given: that call is what rejects strings outside the lexical form and what reads fraction and
    # offset exactly; a clean-up pass in front of it (cut the fraction, expand 'Z', partition on '+') changes valid strings it did not foresee (a '-hh:mm'
    # offset after a fraction) and lets invalid ones through.  Fallbacks after a refusal (the 3.9/3.10 shim) are not concerned.
    for q in ("DateTime.decode", "Date.decode"):
        fd = repo.func(q)
        par = [a.arg for a in fd.node.args.args if a.arg not in ("self", "cls")]
        par = par[0] if par else None
        firsts = [c for c in walk_no_nested(fd.node) if isinstance(c, ast.Call) and isinstance(c.func, ast.Attribute) and c.func.attr == "fromisoformat"]
        rebinds = [a for a in walk_no_nested(fd.node) if isinstance(a, (ast.Assign, ast.AugAssign, ast.AnnAssign)) and any(
            isinstance(t, ast.Name) and t.id == par for t in (a.targets if isinstance(a, ast.Assign) else [a.target]))]
        first = min(firsts, key=lambda c: (c.lineno, c.col_offset)) if firsts else None
        ok = first is not None and len(first.args) == 1 and isinstance(first.args[0], ast.Name) and first.args[0].id == par and not rebinds
        ctx.instance("R18b", f"{fd.file}:{fd.ident}", f"first attempt is fromisoformat({par}) on the text as given", ok=ok, nontrivial=True, line=fd.node.lineno)
        if not ok:
            at = rebinds[0] if rebinds else (first if first is not None else fd.node)
            ctx.report("R18b", fd, at, f"{q}: " + (norm(at, 50) if at is not fd.node else "no fromisoformat call"),
                       f"{q} does not try fromisoformat() on the string as given first (`{norm(at, 50)}`): a rewriting pass in front of the strict parser changes valid lexical forms "
                       f"it did not foresee (a negative offset after fractional seconds loses its zone) and accepts strings the parser would have rejected")
    # suffix replaced has the length that is cut
    for n in walk_no_nested(te.node):
        if isinstance(n, ast.If) and isinstance(n.test, ast.Call) and isinstance(n.test.func, ast.Attribute) and n.test.func.attr == "endswith":
            suf = n.test.args[0].value if n.test.args and isinstance(n.test.args[0], ast.Constant) else None
            cut = None
            for r in walk_no_nested(n):
                if isinstance(r, ast.Subscript) and isinstance(r.slice, ast.Slice) and r.slice.upper is not None:
                    v = repo.fold(r.slice.upper, te.module)
                    if isinstance(v, int):
                        cut = -v
            ok = suf is not None and cut == len(suf)
            ctx.instance("R18b", f"{te.file}:{te.ident}", f"suffix {suf!r} of length {len(suf or '')} cut by [:-{cut}]", ok=ok, nontrivial=True, line=n.lineno)
            if not ok:
                ctx.report("R18b", te, n, f"endswith({suf!r}) cut {cut}", "the slice removing the UTC offset does not have the offset's length")
    # --- every encoded date/datetime string comes from isoformat(); strftime("%Y…") does not zero-pad years < 1000 on glibc
    for q in ("Date.encode", "DateTime.encode"):
        fe = repo.func(q)
        for r in [n for n in walk_no_nested(fe.node) if isinstance(n, ast.Return) and n.value is not None]:
            def derives(e, depth=0):
                if any(isinstance(c, ast.Call) and isinstance(c.func, ast.Attribute) and c.func.attr == "isoformat" for c in ast.walk(e)):
                    return True
                if depth < 3:
                    for nm in [x.id for x in ast.walk(e) if isinstance(x, ast.Name)]:
                        for a in walk_no_nested(fe.node):
                            if isinstance(a, ast.Assign) and isinstance(a.targets[0], ast.Name) and a.targets[0].id == nm and derives(a.value, depth + 1):
                                return True
                return False
            ok = derives(r.value)
            ctx.instance("R18b", f"{fe.file}:{fe.ident}", f"return {norm(r.value, 40)} derives from isoformat()", ok=ok, nontrivial=True, line=r.lineno)
            if not ok:
                ctx.report("R18b", fe, r, f"{q}: return {norm(r.value, 50)} not from isoformat()",
                           f"{q} builds this result without isoformat(): strftime-style formatting does not zero-pad years below 1000 (and drops what the "
                           f"format omits), so the string leaves the ODF lexical form and cannot be decoded")
    # --- and from nothing else: isoformat() writes date, time, fraction and offset exactly; an encoder that recomputes a field by arithmetic or re-formats it
    #     (divmod on the offset floors negative offsets, a format spec pads or cuts, replace(tzinfo=None) drops the zone) writes another instant
    for q in ("Date.encode", "DateTime.encode"):
        fe = repo.func(q)
        bad = []
        for x in walk_no_nested(fe.node):
            if isinstance(x, ast.FormattedValue) and x.format_spec is not None:
                bad.append((x, "a format specification re-formats a field"))
            elif isinstance(x, ast.Call) and call_name(x) in ("divmod", "utcoffset", "total_seconds", "strftime", "replace", "astimezone", "timetuple", "round", "int"):
                bad.append((x, f"{call_name(x)}() recomputes a field"))
            elif isinstance(x, ast.BinOp) and isinstance(x.op, (ast.FloorDiv, ast.Mod, ast.Mult, ast.Div, ast.Sub)) and not (isinstance(x.left, ast.Constant) and isinstance(x.left.value, str)):
                bad.append((x, "arithmetic on a field"))
        ctx.instance("R18b", f"{fe.file}:{fe.ident}", "the encoded text is isoformat()'s, only sliced and suffixed", ok=not bad, nontrivial=True, line=fe.node.lineno)
        for x, why in bad[:1]:
            ctx.report("R18b", fe, x, f"{q}: {norm(x, 50)}",
                       f"{q} does not leave the text to isoformat(): {why} (`{norm(x, 40)}`); hand-made date arithmetic differs from isoformat() on the values the tests do not "
                       f"sample (negative offsets with minutes, years below 1000, microseconds), so the encoded string denotes another instant than the value")
    # --- Date pairing
    de, dd = repo.func("Date.encode"), repo.func("Date.decode")
    e_iso = any(isinstance(n, ast.Attribute) and n.attr == "isoformat" for n in ast.walk(de.node))
    d_iso = any(isinstance(n, ast.Attribute) and n.attr == "fromisoformat" for n in ast.walk(dd.node))
    ctx.instance("R18b", f"{de.file}:Date", f"isoformat={e_iso} / fromisoformat={d_iso}", ok=e_iso == d_iso)
    if e_iso != d_iso:
        ctx.report("R18b", dd, dd.node, "isoformat/fromisoformat", "Date.encode and Date.decode no longer use the inverse stdlib pair")


def r18c(ctx):
    repo = ctx.repo
    ctx.rule("R18c", "every CSS colour entry is a lower-case name with three ints in 0..255; rgb2hex/hex2rgb tile '#RRGGBB'", floor=120)
    cm = repo.module("const")
    node = cm.assigns.get("CSS3_COLORMAP")
    table = repo.fold(node, cm)
    if not isinstance(table, dict) or len(table) < 100:
        raise AnalysisError("CSS3_COLORMAP not foldable to a dict literal")
    for name, rgb in table.items():
        ok = isinstance(name, str) and name == name.lower() and name.isalpha() and isinstance(rgb, tuple) and len(rgb) == 3 \
            and all(isinstance(c, int) and not isinstance(c, bool) and 0 <= c <= 255 for c in rgb)
        if ok and name in BASIC_COLORS and rgb != BASIC_COLORS[name]:
            ok = False
        if ok and "grey" in name:
            twin = name.replace("grey", "gray")
            if table.get(twin) != rgb:
                ok = False
        ctx.instance("R18c", f"{cm.relpath}:CSS3_COLORMAP", f"{name} -> {rgb}", ok=ok, nontrivial=name in BASIC_COLORS)
        if not ok:
            ctx.report("R18c", cm, node, f"{name!r}: {rgb!r}", f"colour entry {name!r}: {rgb!r} is not a valid/consistent CSS colour definition")
    # the CSS3 / SVG list has 147 names: both spellings of the seven greys belong to it (rgb2hex looks names up directly; a name that is dropped raises KeyError)
    untwinned = sorted(n_ for n_ in table if "gray" in n_ and n_.replace("gray", "grey") not in table)
    ctx.instance("R18c", f"{cm.relpath}:CSS3_COLORMAP", f"{len(table)} names (CSS3 defines 147); every gray has its grey", ok=len(table) >= 147 and not untwinned, nontrivial=True)
    if len(table) < 147 or untwinned:
        ctx.report("R18c", cm, node, f"{len(table)} colour names" + (f", no 'grey' spelling for {untwinned}" if untwinned else ""),
                   f"the colour table holds {len(table)} of the 147 CSS3 names" + (f" and lacks the British spelling of {untwinned}" if untwinned else "") +
                   ": rgb2hex() raises KeyError for a name the property counts among 'all CSS colour names'")
    missing = [k for k in BASIC_COLORS if k not in table]
    ctx.instance("R18c", f"{cm.relpath}:CSS3_COLORMAP", "contains the 17 basic colours", ok=not missing, nontrivial=True)
    if missing:
        ctx.report("R18c", cm, node, f"missing {missing}", f"basic CSS colours missing from the table: {missing}")
    if isinstance(node, ast.Dict):
        keys = [k.value for k in node.keys if isinstance(k, ast.Constant)]
        dups = sorted({k for k in keys if keys.count(k) > 1})
        ctx.instance("R18c", f"{cm.relpath}:CSS3_COLORMAP", "no duplicate key in the literal", ok=not dups)
        if dups:
            ctx.report("R18c", cm, node, f"duplicate keys {dups}", "duplicate colour names: the later entry silently wins")
    # rgb2hex
    f = repo.func("utils.color:rgb2hex")
    rets = [n for n in walk_no_nested(f.node) if isinstance(n, ast.Return) and isinstance(n.value, ast.JoinedStr)]
    ok = False
    desc = "no f-string return"
    if rets:
        js = rets[-1].value
        lits = [v.value for v in js.values if isinstance(v, ast.Constant)]
        flds = [v for v in js.values if isinstance(v, ast.FormattedValue)]
        specs = [ast.unparse(v.format_spec).strip("f'\"") if v.format_spec else "" for v in flds]
        idx = [ast.unparse(v.value) for v in flds]
        desc = f"lits={lits} fields={idx} specs={specs}"
        ok = lits == ["#"] and specs == ["02X"] * 3 and [i[-3:] for i in idx] == ["[0]", "[1]", "[2]"] and len({i[:-3] for i in idx}) == 1
    ctx.instance("R18c", f"{f.file}:{f.ident}", f"'#' + three :02X fields of indices 0,1,2 ({desc})", ok=ok, nontrivial=True)
    if not ok:
        ctx.report("R18c", f, f.node, desc, "rgb2hex does not format '#' followed by the three channels as two upper-case hex digits each")
    low = any(isinstance(n, ast.Attribute) and n.attr == "lower" for n in ast.walk(f.node))
    ctx.instance("R18c", f"{f.file}:{f.ident}", "name lookup lower-cases (table keys are lower-case)", ok=low)
    if not low:
        ctx.report("R18c", f, f.node, "CSS3_COLORMAP[color]", "colour names are looked up without lower-casing although every key is lower-case")
    rng = [n for n in walk_no_nested(f.node) if isinstance(n, ast.Compare) and len(n.ops) == 2]
    okr = any([repo.fold(n.left, f.module), repo.fold(n.comparators[1], f.module)] == [0, 255] and
              all(isinstance(o, ast.LtE) for o in n.ops) for n in rng)
    ctx.instance("R18c", f"{f.file}:{f.ident}", "channel range test 0 <= c <= 255", ok=okr, nontrivial=True)
    if not okr:
        ctx.report("R18c", f, f.node, "channel range", "rgb2hex does not reject channels outside 0..255")
    # hex2rgb
    g = repo.func("utils.color:hex2rgb")
    sl = []
    for n in walk_no_nested(g.node):
        if isinstance(n, ast.Call) and isinstance(n.func, ast.Name) and n.func.id == "int" and len(n.args) == 2 \
                and isinstance(n.args[0], ast.Subscript) and isinstance(n.args[0].slice, ast.Slice):
            s = n.args[0].slice
            lo = repo.fold(s.lower, g.module) if s.lower is not None else 0
            hi = repo.fold(s.upper, g.module) if s.upper is not None else None
            sl.append((lo, hi, repo.fold(n.args[1], g.module)))
    ok = sorted(sl, key=lambda x: x[0]) == [(0, 2, 16), (2, 4, 16), (4, 6, 16)] and sl == sorted(sl, key=lambda x: x[0])
    lens = [repo.fold(n.comparators[0], g.module) for n in walk_no_nested(g.node)
            if isinstance(n, ast.Compare) and isinstance(n.left, ast.Call) and getattr(n.left.func, "id", "") == "len" and isinstance(n.ops[0], ast.Eq)]
    ok = ok and 7 in lens
    ctx.instance("R18c", f"{g.file}:{g.ident}", f"slices {sl} tile 6 hex digits after '#', length test {lens}", ok=ok, nontrivial=True)
    if not ok:
        ctx.report("R18c", g, g.node, f"slices {sl} len {lens}", "hex2rgb does not parse exactly the three 2-digit slices of a 7-character '#RRGGBB' string in R,G,B order")


def r18d(ctx):
    """Duration.encode: the magnitude that is split into H/M/S is |total microseconds|, and the sign is that of the total.

    A timedelta is normalised as days (any sign) + seconds in [0, 86400) + microseconds in [0, 10^6): its value is
    T = 86400·10^6·days + 10^6·seconds + microseconds, and T < 0 iff days < 0.  A negative value is therefore encoded from -T — the
    negation of the whole sum — and never from a field-wise negation (−days with +seconds).  The two arms of the sign test are evaluated
    to affine forms over (days, seconds, microseconds) and compared with ±T.
    """
    from .c01 import Aff, sym
    repo = ctx.repo
    ctx.rule("R18d", "Duration.encode splits |T| with T = 86400e6*days + 1e6*seconds + microseconds, '-' exactly when days < 0", floor=2)
    f = repo.func("Duration.encode")
    par = f.node.args.args[0].arg if f.node.args.args else "value"
    FIELDS = {"days": "D", "seconds": "S", "microseconds": "U"}
    T = Aff({"D": 86400 * 10 ** 6, "S": 10 ** 6, "U": 1})

    def ev(e, env):
        if isinstance(e, ast.Constant) and isinstance(e.value, int) and not isinstance(e.value, bool):
            return Aff(c=e.value)
        if isinstance(e, ast.Attribute) and isinstance(e.value, ast.Name) and e.value.id == par and e.attr in FIELDS:
            return sym(FIELDS[e.attr])
        if isinstance(e, ast.Name):
            return env.get(e.id)
        if isinstance(e, ast.UnaryOp) and isinstance(e.op, ast.USub):
            a = ev(e.operand, env)
            return None if a is None else -a
        if isinstance(e, ast.BinOp):
            a, b = ev(e.left, env), ev(e.right, env)
            if a is None or b is None:
                return None
            if isinstance(e.op, ast.Add):
                return a + b
            if isinstance(e.op, ast.Sub):
                return a - b
            if isinstance(e.op, ast.Mult):
                if not a.d:
                    return Aff({k: v * a.c for k, v in b.d.items()}, b.c * a.c)
                if not b.d:
                    return Aff({k: v * b.c for k, v in a.d.items()}, a.c * b.c)
        return None

    def neg_test(t, env):
        """True if `t` is `days < 0` (on the days field, or on the total T: T < 0 iff days < 0), False for `>= 0`, None otherwise."""
        if isinstance(t, ast.UnaryOp) and isinstance(t.op, ast.Not):
            inner = neg_test(t.operand, env)
            return None if inner is None else not inner
        if isinstance(t, ast.Compare) and len(t.ops) == 1:
            l, r = ev(t.left, env), ev(t.comparators[0], env)
            if l is not None and r is not None and (l == sym("D") or l == T) and not r.d and r.c == 0:
                if isinstance(t.ops[0], ast.Lt):
                    return True
                if isinstance(t.ops[0], ast.GtE):
                    return False
            if l is not None and r is not None and (r == sym("D") or r == T) and not l.d and l.c == 0:
                if isinstance(t.ops[0], ast.Gt):
                    return True
                if isinstance(t.ops[0], ast.LtE):
                    return False
        return None

    # the variable that is split: first `X / const` after the sign handling
    body = body_no_doc(f.node)
    split = [s_ for s_ in body if isinstance(s_, ast.Assign) and isinstance(s_.value, ast.BinOp) and isinstance(s_.value.op, (ast.Div, ast.FloorDiv)) and isinstance(s_.value.left, ast.Name)]
    if not split:
        raise AnalysisError("R18d: Duration.encode no longer splits a total by division")
    mag = split[0].value.left.id
    upto = body.index(split[0])
    results = {}
    forks = 0

    def run_path(stmts, env, negative):
        nonlocal forks
        for st in stmts:
            if isinstance(st, ast.Assign) and len(st.targets) == 1 and isinstance(st.targets[0], ast.Name):
                v = ev(st.value, env)
                if v is not None:
                    env[st.targets[0].id] = v
                elif isinstance(st.value, ast.Constant) and isinstance(st.value.value, str):
                    env[st.targets[0].id] = st.value.value
                else:
                    env.pop(st.targets[0].id, None)
            elif isinstance(st, ast.If):
                nt = neg_test(st.test, env)
                if nt is None:
                    if any(isinstance(x, ast.Raise) for x in st.body):
                        continue  # argument check
                    raise AnalysisError(f"R18d: test `{norm(st.test, 40)}` in Duration.encode is not the sign test on the days field")
                forks += 1
                taken = st.body if nt == negative else st.orelse
                run_path(taken, env, negative)
        return env

    for negative in (True, False):
        env = run_path(body[:upto], {}, negative)
        results[negative] = (env.get(mag), next((v for k, v in env.items() if isinstance(v, str)), None))
    if forks == 0:
        ctx.instance("R18d", f"{f.file}:{f.ident}", "sign test on the days field", ok=False, line=f.node.lineno)
        ctx.report("R18d", f, f.node, "no `days < 0` test", "Duration.encode does not distinguish negative durations")
        return
    for negative, want, wsign in ((True, -T, "-"), (False, T, "")):
        got, sg = results[negative]
        ok = got is not None and got == want and sg == wsign
        ctx.instance("R18d", f"{f.file}:{f.ident}", f"days {'< 0' if negative else '>= 0'}: `{mag}` = {got!r}, sign {sg!r} (must be {want!r}, {wsign!r})", ok=ok, nontrivial=True, line=split[0].lineno)
        if not ok:
            ctx.report("R18d", f, split[0], f"for days {'< 0' if negative else '>= 0'}: {mag} = {got!r}, sign {sg!r}",
                       f"Duration.encode splits {got!r} into hours/minutes/seconds for a {'negative' if negative else 'non-negative'} timedelta, but the value is "
                       f"{'-' if negative else ''}(86400000000*D + 1000000*S + U) with 0 <= S < 86400: e.g. -1 hour is days=-1, seconds=82800 and must encode as -PT01H00M00S")


_NUM_REWRITE = {"normalize", "quantize", "to_eng_string", "to_integral", "to_integral_value", "to_integral_exact", "scaleb", "as_integer_ratio", "__format__", "__round__"}


def r18e(ctx):
    """A length is written as the digits it was given, followed by its unit.

    ODF's `length` is `-?([0-9]+(\\.[0-9]*)?|\\.[0-9]+)` followed by a unit name: no exponent.  Unit keeps the number as the Decimal built from
    the caller's digits, and Decimal's own str() writes those digits back (it only uses an exponent when it was given one).  Anything
    between the stored Decimal and str() — normalize() (100 -> 1E+2), a 'g'/'e'/'n' format, a trip through float — produces strings the
    decoder (which keeps digits and '.' and calls the rest the unit) reads back as another value.  Rule: in Unit.__str__ the stored value
    reaches the result only as `str(self.value)` / `{self.value}` without a format spec; Unit.__init__ stores Decimal(<digits>) and the
    unit without rewriting either; the characters the parser accepts as number are digits and '.'.
    """
    repo = ctx.repo
    ctx.rule("R18e", "Unit: the stored Decimal is written by plain str() and followed by the unit; the parser keeps digits and '.' as the number", floor=3)
    f = repo.func("Unit.__str__")
    init = repo.func("Unit.__init__")
    stores = {}
    for st in walk_no_nested(init.node):
        if isinstance(st, ast.Assign) and isinstance(st.targets[0], ast.Attribute) and isinstance(st.targets[0].value, ast.Name) and st.targets[0].value.id == "self":
            stores[st.targets[0].attr] = st
    num_attr = next((a for a, st in stores.items() if isinstance(st.value, ast.Call) and call_name(st.value) == "Decimal"), None)
    if num_attr is None:
        raise AnalysisError("R18e: Unit.__init__ stores no Decimal")
    unit_attr = next((a for a in stores if a != num_attr), None)
    parents = {}
    for r in walk_no_nested(f.node):
        for ch in ast.iter_child_nodes(r):
            parents[id(ch)] = r
    rets = [r.value for r in walk_no_nested(f.node) if isinstance(r, ast.Return) and r.value is not None]
    bad = []
    seen_num = seen_unit = 0
    for r in rets:
        for x in ast.walk(r):
            if isinstance(x, ast.Attribute) and isinstance(x.value, ast.Name) and x.value.id == "self":
                par = parents.get(id(x))
                if x.attr == num_attr:
                    seen_num += 1
                    ok = isinstance(par, ast.Call) and call_name(par) == "str" and len(par.args) == 1 and par.args[0] is x or \
                        isinstance(par, ast.FormattedValue) and par.format_spec is None and par.conversion in (-1, 115)
                    if not ok:
                        bad.append((par if par is not None else x, f"the stored number reaches the result through `{norm(par, 40) if par is not None else norm(x, 40)}`"))
                elif x.attr == unit_attr:
                    seen_unit += 1
    if not rets or not seen_num or not seen_unit:
        bad.append((f.node, "the result is not built from the stored number and unit"))
    ctx.instance("R18e", f"{f.file}:{f.ident}", f"str(self.{num_attr}) followed by self.{unit_attr}", ok=not bad, nontrivial=True, line=f.node.lineno)
    for n_, why in bad[:2]:
        ctx.report("R18e", f, n_, f"Unit.__str__: {norm(n_, 50)}",
                   f"{why}, not through plain str(): Decimal writes back the digits it was given, but a normalised, formatted or float-converted number comes out with an "
                   f"exponent or other digits (100 -> '1E+2cm'), which is not an ODF length and which Unit() itself reads back as another value and unit")
    # constructor: nothing rewrites the number between the digits and Decimal(), nor the unit
    bad = [c for c in walk_no_nested(init.node) if isinstance(c, ast.Call) and (isinstance(c.func, ast.Attribute) and c.func.attr in _NUM_REWRITE | {"strip", "lower", "upper", "replace"}
                                                                                   or call_name(c) in ("round", "int"))]
    ctx.instance("R18e", f"{init.file}:{init.ident}", f"self.{num_attr} = Decimal(<digits as given>), unit as given", ok=not bad, nontrivial=True, line=init.node.lineno)
    for c in bad[:2]:
        ctx.report("R18e", init, c, f"Unit.__init__: {norm(c, 50)}", f"Unit() rewrites what it was given with `{norm(c, 40)}`: the length that is written is not the length that was built")
    # parser alphabet
    from ..paths import if_arms
    tests = [t for n_ in walk_no_nested(init.node) if isinstance(n_, ast.If) for t in [if_arms(n_)[0]]
             if any(isinstance(x, ast.Call) and isinstance(x.func, ast.Attribute) and x.func.attr in ("isdigit", "isdecimal", "isnumeric") for x in ast.walk(t))]
    ok = len(tests) == 1
    extra = []
    if ok:
        t = tests[0]
        for x in ast.walk(t):
            if isinstance(x, ast.Compare):
                for cmp_ in x.comparators:
                    v = cmp_.value if isinstance(cmp_, ast.Constant) else None
                    extra += list(v) if isinstance(v, str) else [repr(norm(cmp_, 20))]
        ok = set(extra) <= {"."} and not any(isinstance(x, ast.Not) for x in ast.walk(t))
    ctx.instance("R18e", f"{init.file}:{init.ident}", f"number characters: digits and {sorted(set(extra))}", ok=ok, nontrivial=True, line=init.node.lineno)
    if not ok:
        ctx.report("R18e", init, tests[0] if tests else init.node, f"number characters: digits and {sorted(set(extra))}",
                   "the length parser takes characters other than digits and '.' into the number (or none at all): strings outside the ODF form decode to a wrong value instead of being rejected")


def r18f(ctx):
    """The colour encoder writes the channels it was given.

    `hex2rgb(rgb2hex(t)) == t` for every tuple of three integers 0…255: rgb2hex formats each channel with `:02X` and hex2rgb parses the three
    pairs back.  That holds because the tuple that is formatted *is* the argument.  An encoder that first reinterprets the tuple by looking
    at its values ("all channels ≤ 1: normalised floats, scale by 255") changes seven integer colours — (0,0,1) … (1,1,1) — into others, and
    the decoder cannot give them back.  Rule: in rgb2hex, on the tuple branch, every definition of the value whose items are formatted into
    the result is the parameter itself; no arithmetic, comprehension or call produces it.
    """
    from ..paths import cfg_of, node_of, reaching_defs
    repo = ctx.repo
    ctx.rule("R18f", "rgb2hex formats the channels of the tuple it is given (no rescaling by value)", floor=1)
    f = repo.func("utils.color:rgb2hex") if repo.find_func("utils.color:rgb2hex") else repo.func("color:rgb2hex")
    param = f.node.args.args[0].arg
    rets = [r for r in walk_no_nested(f.node) if isinstance(r, ast.Return) and isinstance(r.value, ast.JoinedStr)]
    if not rets:
        raise AnalysisError("R18f: rgb2hex no longer returns a formatted string")
    cfg = cfg_of(f)
    byid = {nd.id: nd for nd in cfg.nodes}
    r = rets[-1]
    names = {x.value.id for v in r.value.values if isinstance(v, ast.FormattedValue) for x in [v.value] if isinstance(x, ast.Subscript) and isinstance(x.value, ast.Name)}
    if not names:
        raise AnalysisError("R18f: the formatted channels are not items of a local")
    bad = None
    rn = node_of(cfg, r)
    for nm in names:
        for d in reaching_defs(cfg, nm).get(rn.id, frozenset()):
            st = byid[d].stmt
            if st is None:
                continue
            val = getattr(st, "value", None)
            from_table = isinstance(val, ast.Subscript)       # the CSS colour table (string branch)
            is_param = isinstance(val, ast.Name) and val.id == param
            if isinstance(st, ast.Assign) and not (from_table or is_param):
                bad = st
    ctx.instance("R18f", f"{f.file}:{f.ident}", f"formatted value `{sorted(names)[0]}` is the argument or an entry of the colour table", ok=bad is None, nontrivial=True, line=r.lineno)
    if bad is not None:
        ctx.report("R18f", f, bad, norm(bad, 50),
                   f"rgb2hex formats a tuple it computed (`{norm(bad, 50)}`) instead of the one it was given: integer colours whose channels fall in the reinterpreted range are written as "
                   f"other colours, and hex2rgb(rgb2hex(t)) != t for them")


def run(ctx):
    r18a(ctx)
    r18b(ctx)
    r18c(ctx)
    r18d(ctx)
    r18e(ctx)
    r18f(ctx)
    from .round12 import r18g
    r18g(ctx)


from ..selftest import Seed, unparse_seed  # noqa: E402

_DT = "src/odfdo/datatype.py"
_CO = "src/odfdo/utils/color.py"
SEEDS = [
    Seed("rgb2hex remembers its answers in a module table", "fault", "src/odfdo/utils/color.py",
         "    if isinstance(color, tuple):\n        return rgb2hex(color)", "    if isinstance(color, tuple):\n        if sum(color) not in _SEEN:\n            _SEEN[sum(color)] = rgb2hex(color)\n        return _SEEN[sum(color)]", "R18g",
         edits=[("src/odfdo/utils/color.py", "from ..const import CSS3_COLORMAP\n", "from ..const import CSS3_COLORMAP\n\n_SEEN: dict = {}\n")]),
    Seed("hexa_color keeps a local table", "neutral", "src/odfdo/utils/color.py",
         "    if isinstance(color, tuple):\n        return rgb2hex(color)", "    if isinstance(color, tuple):\n        seen = {}\n        seen[color] = rgb2hex(color)\n        return seen[color]"),
    Seed("rgb2hex rescales tuples whose channels are all at most 1", "fault", _CO,
         "        code = color\n", "        code = tuple(round(c * 255) for c in color) if all(0 <= c <= 1 for c in color) else color\n", "R18f"),
    Seed("the grey spellings are dropped from the colour table", "fault", "src/odfdo/const.py", '    "grey": (128, 128, 128),\n', '', "R18c"),
    Seed("DateTime.decode cleans the text up before parsing it", "fault", _DT,
         "        try:\n            return datetime.fromisoformat(data)\n        except ValueError:\n            # maybe python 3.9",
         "        if data.endswith(\"Z\"):\n            data = data[:-1] + \"+00:00\"\n        head, dot, fraction = data.partition(\".\")\n        if dot:\n            digits, plus, zone = fraction.partition(\"+\")\n            data = head + dot + digits[:6] + plus + zone\n        try:\n            return datetime.fromisoformat(data)\n        except ValueError:\n            # maybe python 3.9", "R18b"),
    Seed("DateTime.decode parses a cleaned copy first", "fault", _DT,
         "        try:\n            return datetime.fromisoformat(data)\n        except ValueError:\n            # maybe python 3.9",
         "        try:\n            return datetime.fromisoformat(_iso_clean(data))\n        except ValueError:\n            # maybe python 3.9", "R18b",
         edits=[(_DT, "class Boolean:", "def _iso_clean(text):\n    head, dot, fraction = text.partition(\".\")\n    digits, plus, zone = fraction.partition(\"+\")\n    return head + dot + digits[:6] + plus + zone if dot else text\n\n\nclass Boolean:")]),
    Seed("DateTime.encode formats the offset by hand with divmod", "fault", _DT,
         '        text = value.isoformat()\n        if text.endswith("+00:00"):\n            # convert to canonical representation\n            return text[:-6] + "Z"\n        return text',
         '        offset = value.utcoffset() if isinstance(value, datetime) else None\n        if offset is None:\n            return value.isoformat()\n        text = value.replace(tzinfo=None).isoformat()\n        hours, minutes = divmod(int(offset.total_seconds()) // 60, 60)\n        if not hours and not minutes:\n            return text + "Z"\n        return f"{text}{hours:+03d}:{minutes:02d}"', "R18b"),
    Seed("DateTime.encode tests the suffix through a local", "neutral", _DT,
         '        if text.endswith("+00:00"):\n            # convert to canonical representation\n            return text[:-6] + "Z"\n        return text',
         '        utc = text.endswith("+00:00")\n        if utc:\n            return text[:-6] + "Z"\n        return text'),
    Seed("Unit.__str__ normalises the Decimal", "fault", _DT, "        return str(self.value) + self.unit", "        return str(self.value.normalize()) + self.unit", "R18e"),
    Seed("Unit.__str__ formats with %g", "fault", _DT, "        return str(self.value) + self.unit", '        return f"{self.value:g}{self.unit}"', "R18e"),
    Seed("Unit.__str__ goes through float", "fault", _DT, "        return str(self.value) + self.unit", "        return str(float(self.value)) + self.unit", "R18e"),
    Seed("Unit.__str__ forgets the unit", "fault", _DT, "        return str(self.value) + self.unit", "        return str(self.value)", "R18e"),
    Seed("Unit.__str__ as an f-string", "neutral", _DT, "        return str(self.value) + self.unit", '        return f"{self.value}{self.unit}"'),
    Seed("Unit parser takes the exponent letters into the number", "fault", _DT, '                if char.isdigit() or char == ".":', '                if char.isdigit() or char in ".eE+":', "R18e"),
    Seed("Duration.encode negates the days field only", "fault", _DT, '        days = value.days\n        if days < 0:\n            microseconds = -(\n                (days * 24 * 60 * 60 + value.seconds) * 1000000 + value.microseconds\n            )\n            sign = "-"\n        else:\n            microseconds = (\n                days * 24 * 60 * 60 + value.seconds\n            ) * 1000000 + value.microseconds\n            sign = ""\n', '        days = value.days\n        sign = ""\n        if days < 0:\n            days = -days\n            sign = "-"\n        microseconds = (\n            days * 24 * 60 * 60 + value.seconds\n        ) * 1000000 + value.microseconds\n', "R18d"),
    Seed("Duration.encode forgets the minus sign", "fault", _DT, '        days = value.days\n        if days < 0:\n            microseconds = -(\n                (days * 24 * 60 * 60 + value.seconds) * 1000000 + value.microseconds\n            )\n            sign = "-"\n        else:\n            microseconds = (\n                days * 24 * 60 * 60 + value.seconds\n            ) * 1000000 + value.microseconds\n            sign = ""\n', '        days = value.days\n        if days < 0:\n            microseconds = -(\n                (days * 24 * 60 * 60 + value.seconds) * 1000000 + value.microseconds\n            )\n            sign = ""\n        else:\n            microseconds = (\n                days * 24 * 60 * 60 + value.seconds\n            ) * 1000000 + value.microseconds\n            sign = ""\n', "R18d"),
    Seed("Duration.encode computes the total first, then its absolute value", "neutral", _DT, '        days = value.days\n        if days < 0:\n            microseconds = -(\n                (days * 24 * 60 * 60 + value.seconds) * 1000000 + value.microseconds\n            )\n            sign = "-"\n        else:\n            microseconds = (\n                days * 24 * 60 * 60 + value.seconds\n            ) * 1000000 + value.microseconds\n            sign = ""\n', '        microseconds = (value.days * 86400 + value.seconds) * 1000000 + value.microseconds\n        sign = ""\n        if microseconds < 0:\n            microseconds = -microseconds\n            sign = "-"\n'),
    Seed("Duration.decode loses its rejecting arm", "fault", _DT,
         '            elif c not in "-PT":\n                raise ValueError(f"duration not valid {data!r}")\n', "", "R18a"),
    Seed("DURATION_FORMAT writes lower-case s", "fault", _DT, '"PT%02dH%02dM%02dS"', '"PT%02dH%02dM%02ds"', "R18b"),
    Seed("Duration.encode swaps minutes and seconds", "fault", _DT,
         "DURATION_FORMAT % (hours, minutes, seconds)", "DURATION_FORMAT % (hours, seconds, minutes)", "R18b"),
    Seed("Boolean.encode emits True", "fault", _DT, '            return "true"\n', '            return "True"\n', "R18b"),
    Seed("Duration.decode forgets the sign of minutes", "fault", _DT, "minutes=sign * minutes", "minutes=minutes", "R18b"),
    Seed("Duration.decode no longer accepts -P", "fault", _DT, 'data.startswith("-P")', 'data.startswith("+P")', "R18b"),
    Seed("DateTime.encode cuts 5 chars for +00:00", "fault", _DT, 'return text[:-6] + "Z"', 'return text[:-5] + "Z"', "R18b"),
    Seed("Duration.encode hour divisor wrong", "fault", _DT, "hours = microseconds / (60 * 60 * 1000000)", "hours = microseconds / (60 * 60 * 100000)", "R18b"),
    Seed("Duration.encode forgets to reduce minutes", "fault", _DT, "        microseconds %= 60 * 1000000\n", "", "R18b"),
    Seed("Duration.decode stores hours in minutes", "fault", _DT,
         '            elif c == "H":\n                hours = int(buffer)', '            elif c == "H":\n                minutes = int(buffer)', "R18b"),
    Seed("Date.encode formats datetimes with strftime", "fault", _DT, "            return value.date().isoformat()", "            return value.strftime(DATE_FORMAT)", "R18b"),
    Seed("DateTime.encode drops microseconds via strftime", "fault", _DT, "        text = value.isoformat()\n        if text.endswith", "        text = value.strftime(DATETIME_FORMAT)\n        if text.endswith", "R18b"),
    Seed("colour channel out of range", "fault", "src/odfdo/const.py", '"aliceblue": (240, 248, 255)', '"aliceblue": (240, 248, 256)', "R18c"),
    Seed("basic colour wrong", "fault", "src/odfdo/const.py", '"navy": (0, 0, 128)', '"navy": (0, 0, 182)', "R18c"),
    Seed("upper-case key", "fault", "src/odfdo/const.py", '"aliceblue":', '"AliceBlue":', "R18c"),
    Seed("rgb2hex lower-case hex", "fault", _CO, '{code[1]:02X}', '{code[1]:02x}', "R18c"),
    Seed("rgb2hex swaps channels", "fault", _CO, 'f"#{code[0]:02X}{code[1]:02X}{code[2]:02X}"', 'f"#{code[0]:02X}{code[2]:02X}{code[1]:02X}"', "R18c"),
    Seed("hex2rgb overlapping slices", "fault", _CO, "green = int(code[2:4], 16)", "green = int(code[1:3], 16)", "R18c"),
    Seed("rgb2hex accepts 256", "fault", _CO, "if not 0 <= channel <= 255:", "if not 0 <= channel <= 256:", "R18c"),
    unparse_seed(_DT), unparse_seed(_CO), unparse_seed("src/odfdo/const.py"),
    Seed("decoder default as else", "neutral", _DT,
         '            elif c not in "-PT":\n                raise ValueError(f"duration not valid {data!r}")\n',
         '            elif c in "-PT":\n                pass\n            else:\n                raise ValueError(f"duration not valid {data!r}")\n'),
]
