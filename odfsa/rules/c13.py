"""C13 — styles land in the right container, stay unique, are found again.

R13a  insert destination ⊆ lookup contexts, per family and mode (table agreement by symbolic evaluation)
R13b  the existence check is scoped to the destination container
R13c  replace, not duplicate: delete-before-append on every path
R13d  no cross-tree move: nodes of another document are cloned before being appended
R13e  generated automatic names are chosen after scanning every container that can hold one
"""

from __future__ import annotations

import ast

from ..core import UNKNOWN, AnalysisError, FuncInfo, Repo, body_no_doc, call_name, is_self_attr, norm, walk_no_nested
from ..paths import cfg_of, node_of, structural_guards
from ..tables import _elif_arms

EXPLANATION = (
    "Symbolic evaluation of Document.insert_style over the finite domain family ∈ keys(FAMILY_MAPPING) × "
    "{named common, automatic named, automatic unnamed, default}: each if/elif test compares family/automatic/"
    "default/name with constants, so the chain is folded to a (part, container) destination per cell through the "
    "_insert_style_get_* helpers; the lookup side (Content/Styles._get_style_contexts with CONTEXT_MAPPING) is "
    "folded the same way and the two tables are compared row by row. The scope of each helper's existence check "
    "is compared with its destination using a frozen 'which container can hold which style tag' table (ODF 1.2 "
    "schema). Delete-before-append is a dominance query; cross-document moves are a taint rule (values derived "
    "from the other Document must pass .clone before append). Name collisions as a numeric matter, 'other "
    "document wins' ordering and reload are not decided."
)
ASSUMPTIONS = [
    "ODF 1.2 schema: office:font-face-decls holds only style:font-face; office:master-styles only master pages (and layer sets); "
    "style:default-style, draw:* fill styles, text:outline-style, style:presentation-page-layout only in office:styles; "
    "style:page-layout only in office:automatic-styles",
    "lxml append() moves a node that already has a parent",
]

# which containers can hold a style element of a given tag (ODF 1.2 part 1, §3.15)
ALL4 = {"office:styles", "office:automatic-styles", "office:master-styles", "office:font-face-decls"}


def holders(tag: str) -> set[str]:
    if tag == "style:font-face":
        return {"office:font-face-decls"}
    if tag == "style:master-page":
        return {"office:master-styles"}
    if tag == "style:page-layout":
        return {"office:automatic-styles"}
    if tag in ("style:default-style", "style:presentation-page-layout", "text:outline-style") or tag.startswith("draw:"):
        return {"office:styles"}
    return {"office:styles", "office:automatic-styles"}


def _strip(q: str) -> str:
    return q.lstrip("/")


class Eval:
    """Tiny evaluator: fold tests under an environment, follow if/elif chains and self._helper() returns."""

    def __init__(self, repo: Repo):
        self.repo = repo
        self.doc = repo.cls("Document")

    def pick(self, f: FuncInfo, env: dict):
        """Walk the body of f; return the first Return/assignment-call reached under env: (kind, node)."""
        return self._block(f, body_no_doc(f.node), env)

    def _block(self, f, body, env):
        for s in body:
            if isinstance(s, ast.If):
                taken = None
                for arm in _elif_arms(s):
                    if arm.is_else:
                        taken = arm
                        break
                    v = self.repo.fold(arm.test, f.module, f.cls, env)
                    if v is UNKNOWN:
                        relevant = any(isinstance(x, ast.Return) or (isinstance(x, ast.Call) and call_name(x).startswith("_insert_style"))
                                       for a2 in _elif_arms(s) for st in a2.body for x in ast.walk(st))
                        if not relevant:
                            taken = None
                            break
                        raise AnalysisError(f"C13: cannot decide test `{norm(arm.test, 60)}` of {f.ident} under {env}")
                    if v:
                        taken = arm
                        break
                if taken is not None:
                    r = self._block(f, taken.body, env)
                    if r is not None:
                        return r
                continue
            if isinstance(s, ast.Raise):
                return ("raise", s)
            if isinstance(s, ast.Return):
                return ("return", s)
            if isinstance(s, ast.Assign) and isinstance(s.value, ast.Call) and isinstance(s.value.func, ast.Attribute) \
                    and is_self_attr(s.value.func) and s.value.func.attr.startswith("_insert_style"):
                return ("call", s.value)
        return None


def _helper_dest(repo: Repo, h: FuncInfo):
    """(part attr, container const, existing-scope: ('part', part) | ('container',) | ('none',), default_tag) of a helper."""
    part = cont = None
    scope = ("none",)
    # roles by position in what the helper returns: (existing style, destination container)
    ex_var, ct_var = "existing", "style_container"
    for n in walk_no_nested(h.node):
        if isinstance(n, ast.Return) and isinstance(n.value, ast.Tuple) and len(n.value.elts) == 2 and all(isinstance(x, ast.Name) for x in n.value.elts):
            ex_var, ct_var = n.value.elts[0].id, n.value.elts[1].id
    for n in walk_no_nested(h.node):
        if isinstance(n, ast.Assign) and isinstance(n.targets[0], ast.Name) and n.targets[0].id == ct_var \
                and isinstance(n.value, ast.Call) and call_name(n.value) == "get_element" and isinstance(n.value.func.value, ast.Attribute) \
                and is_self_attr(n.value.func.value):
            part = n.value.func.value.attr
            cont = repo.fold(n.value.args[0], h.module) if n.value.args else UNKNOWN
        if isinstance(n, ast.Assign) and isinstance(n.targets[0], ast.Name) and n.targets[0].id == ex_var and isinstance(n.value, ast.Call) \
                and call_name(n.value) == "get_style":
            recv = n.value.func.value
            if isinstance(recv, ast.Attribute) and is_self_attr(recv):
                scope = ("part", recv.attr, len(n.value.args))
            elif isinstance(recv, ast.Name) and recv.id == ct_var:
                scope = ("container",)
            else:
                scope = ("other", ast.unparse(recv))
    sets_default = any(isinstance(n, ast.Assign) and isinstance(n.targets[0], ast.Attribute) and n.targets[0].attr == "tag"
                       and isinstance(n.value, ast.Constant) for n in walk_no_nested(h.node))
    return part, cont, scope, sets_default


def _lookup_contexts(repo: Repo, ev: Eval, family: str):
    """{(part, container)} searched by Document.get_style for `family`."""
    out = set()
    for part, clsname in (("content", "Content"), ("styles", "Styles")):
        f = repo.func(f"{clsname}._get_style_contexts")
        env = {"family": family, "automatic": False}
        r = ev.pick(f, env)
        if r is None or r[0] != "return":
            # Styles: `queries = …` then return comprehension
            pass
        ctxs = _eval_contexts(repo, f, env)
        for c in ctxs:
            out.add((part, _strip(c)))
    return out


def _eval_contexts(repo: Repo, f: FuncInfo, env: dict) -> list[str]:
    env = dict(env)
    res: list[str] = []

    def block(body) -> bool:
        for s in body:
            if isinstance(s, ast.If):
                v = repo.fold(s.test, f.module, f.cls, env)
                if v is UNKNOWN:
                    raise AnalysisError(f"C13: cannot decide `{norm(s.test, 50)}` in {f.ident}")
                if block(s.body if v else s.orelse):
                    return True
                continue
            if isinstance(s, ast.Assign) and isinstance(s.targets[0], ast.Name):
                v = repo.fold(s.value, f.module, f.cls, env)
                if v is not UNKNOWN:
                    env[s.targets[0].id] = v
                continue
            if isinstance(s, ast.Return) and s.value is not None:
                e = s.value
                if isinstance(e, (ast.Tuple, ast.List)):
                    for x in e.elts:
                        if isinstance(x, ast.Call) and call_name(x) == "get_element" and x.args:
                            q = repo.fold(x.args[0], f.module, f.cls, env)
                            if isinstance(q, str):
                                res.append(q)
                    return True
                if isinstance(e, ast.ListComp) and isinstance(e.elt, ast.Call) and call_name(e.elt) == "get_element":
                    it = repo.fold(e.generators[0].iter, f.module, f.cls, env)
                    if isinstance(it, (tuple, list)):
                        res.extend(it)
                        return True
                raise AnalysisError(f"C13: cannot evaluate the contexts returned by {f.ident}")
        return False

    if not block(body_no_doc(f.node)):
        raise AnalysisError(f"C13: {f.ident} returns no contexts under {env}")
    return res


MODES = [
    ("common", {"name": "N", "automatic": False, "default": False}),
    ("automatic", {"name": "N", "automatic": True, "default": False}),
    ("automatic-unnamed", {"name": "", "automatic": True, "default": False}),
    ("default", {"name": "", "automatic": False, "default": True}),
]


def r13ab(ctx):
    repo = ctx.repo
    ctx.rule("R13a", "per family and mode, the container a style is inserted into is one the document's style lookup searches", floor=60)
    ctx.rule("R13b", "the existence check of each insert helper is scoped to the container the style goes into", floor=20)
    ev = Eval(repo)
    sc = repo.module("utils.style_constants")
    fam_map = repo.fold(sc.assigns["FAMILY_MAPPING"], sc)
    if not isinstance(fam_map, dict) or len(fam_map) < 20:
        raise AnalysisError("FAMILY_MAPPING not foldable")
    ins = repo.func("Document.insert_style")
    doc = repo.cls("Document")
    table = {}
    seen_b: set[tuple] = set()
    # the local of insert_style that holds the family: defined by reading `.family` of the style
    fam_defs = [n.targets[0].id for n in walk_no_nested(ins.node) if isinstance(n, ast.Assign) and len(n.targets) == 1 and isinstance(n.targets[0], ast.Name)
                and isinstance(n.value, ast.Attribute) and n.value.attr == "family"]
    fam_var = fam_defs[0] if fam_defs else "family"
    for family in sorted(fam_map) + [""]:
        tag = fam_map.get(family, "draw:fill-image")
        for mode, flags in MODES:
            env = {fam_var: family, **flags}
            if family == "":
                # DrawFillImage pseudo style: the class-name test cannot be folded; evaluate that arm directly
                h = doc.lookup("_insert_style_get_draw_fill_image")
                if h is None:
                    raise AnalysisError("helper _insert_style_get_draw_fill_image vanished")
                if mode != "common":
                    continue
            else:
                try:
                    r = ev.pick(ins, env)
                except AnalysisError:
                    raise
                if r is None or r[0] == "raise":
                    continue
                if r[0] != "call":
                    raise AnalysisError(f"C13: insert_style dispatch not understood for {family}/{mode}")
                h = doc.lookup(r[1].func.attr)
                if h is not None and h.name == "_insert_style_standard":
                    # map arguments to parameters
                    pos = h.params[1:]
                    env2 = {}
                    for p, a in zip(pos, r[1].args):
                        v = repo.fold(a, ins.module, ins.cls, env)
                        if v is not UNKNOWN:
                            env2[p] = v
                    r2 = ev.pick(h, env2)
                    if r2 is None or r2[0] == "raise":
                        continue
                    if r2[0] != "return" or not isinstance(r2[1].value, ast.Call):
                        raise AnalysisError(f"C13: _insert_style_standard not understood for {family}/{mode}")
                    h = doc.lookup(call_name(r2[1].value))
                if h is None:
                    raise AnalysisError(f"C13: helper not found for {family}/{mode}")
            part, cont, scope, sets_default = _helper_dest(repo, h)
            if part is None or not isinstance(cont, str):
                raise AnalysisError(f"C13: destination of {h.ident} not understood")
            dest = (part, _strip(cont))
            look = _lookup_contexts(repo, ev, family)
            ok = dest in look
            table[f"{family or 'fill-image'}/{mode}"] = f"{dest[0]}:{dest[1]}"
            ctx.instance("R13a", f"{h.file}:{h.ident}", f"family {family or '(fill-image)'} {mode}: goes to {dest[0]}.xml {dest[1]}; "
                         f"lookup searches {sorted(f'{p}:{c}' for p, c in look)}", ok=ok, nontrivial=True, line=h.node.lineno)
            if not ok:
                ctx.report("R13a", h, h.node, f"family {family or '(fill-image)'} {mode} -> {dest[0]}:{dest[1]}",
                           f"a {mode} style of family {family!r} is inserted into {dest[1]} of {dest[0]}.xml, which the document lookup for that "
                           f"family never searches ({sorted(c for p, c in look if p == dest[0]) or 'nothing in that part'}): get_style() does not "
                           f"find it again and a second insert duplicates it")
            # R13b
            etag = "style:default-style" if (sets_default or (scope[0] == "part" and scope[2] == 1)) else tag
            key = (h.name, family if scope[0] == "part" else "*", etag)
            if key in seen_b:
                continue
            seen_b.add(key)
            if scope[0] == "none":
                ctx.instance("R13b", f"{h.file}:{h.ident}", f"family {family}: no existence check (fresh automatic name)", ok=True)
                continue
            if scope[0] == "container":
                ctx.instance("R13b", f"{h.file}:{h.ident}", "existence looked up in the destination container itself", ok=True, nontrivial=True)
                continue
            if scope[0] == "other":
                ctx.instance("R13b", f"{h.file}:{h.ident}", f"existence looked up in {scope[1]}", ok=False)
                ctx.report("R13b", h, h.node, f"existing looked up in {scope[1]}", "existence check on an unrelated object")
                continue
            searched = {c for p, c in _lookup_contexts(repo, ev, family) if p == scope[1]}
            extra = {c for c in searched - {dest[1]} if c in holders(etag)}
            okb = scope[1] == part and not extra
            ctx.instance("R13b", f"{h.file}:{h.ident}", f"family {family or '(fill-image)'} ({etag}): existence searched in {sorted(searched)}, "
                         f"destination {dest[1]}", ok=okb, nontrivial=True, line=h.node.lineno)
            if not okb:
                ctx.report("R13b", h, h.node, f"existing searched in {sorted(searched)} but deleted from {dest[1]}",
                           f"for family {family!r} the style to replace is searched in {sorted(searched)} of {scope[1]}.xml, wider than the "
                           f"destination {dest[1]}: a same-named style in {sorted(extra) or 'another part'} is handed to "
                           f"style_container.delete(), which raises (not a child) instead of inserting")
    ctx.extra["insert_destination_table"] = table


def r13c(ctx):
    repo = ctx.repo
    ctx.rule("R13c", "an existing style of the same family/name is deleted before the new one is appended; merging looks for it in the whole destination part", floor=3)
    f = repo.func("Document.insert_style")
    cfg = cfg_of(f)
    # roles: `existing, container = self._insert_style_…(…)` — by position in the tuple the helpers return
    pairs = {(n.targets[0].elts[0].id, n.targets[0].elts[1].id) for n in walk_no_nested(f.node) if isinstance(n, ast.Assign) and isinstance(n.targets[0], ast.Tuple)
             and len(n.targets[0].elts) == 2 and all(isinstance(x, ast.Name) for x in n.targets[0].elts) and isinstance(n.value, ast.Call)
             and call_name(n.value).startswith("_insert_style")}
    if len(pairs) != 1:
        raise AnalysisError(f"R13c: insert_style no longer receives (existing, container) from its helpers in one pair of locals: {sorted(pairs)}")
    ex_var, ct_var = next(iter(pairs))
    apps = [n for n in walk_no_nested(f.node) if isinstance(n, ast.Call) and call_name(n) == "append" and isinstance(n.func.value, ast.Name)
            and n.func.value.id == ct_var]
    dels = [n for n in walk_no_nested(f.node) if isinstance(n, ast.Call) and call_name(n) == "delete" and n.args and isinstance(n.args[0], ast.Name) and n.args[0].id == ex_var]
    if not apps:
        raise AnalysisError("R13c: append to the destination container not found in insert_style")
    ok = False
    for d in dels:
        test_nodes = [n for n in cfg.nodes if n.kind == "test" and isinstance(n.stmt, ast.If) and any(x is d for x in ast.walk(n.stmt))]
        if test_nodes and any(isinstance(x, ast.Name) and x.id == ex_var for x in ast.walk(test_nodes[-1].stmt.test)) and cfg.dominates(test_nodes[-1], node_of(cfg, apps[0])) \
                and isinstance(d.func.value, ast.Name) and d.func.value.id == ct_var:
            ok = True
    ctx.instance("R13c", f"{f.file}:{f.ident}", "`if existing is not None: container.delete(existing)` dominates the append", ok=ok, nontrivial=True)
    if not ok:
        ctx.report("R13c", f, apps[0], "append without delete of the existing style",
                   "the new style is appended without first removing an existing style of the same family and name: duplicates")
    g = repo.func("Document.merge_styles_from")
    cfgg = cfg_of(g)
    # the lookup of the style to be replaced: X = R.get_style(family, name)
    looks = [a for a in walk_no_nested(g.node) if isinstance(a, ast.Assign) and isinstance(a.value, ast.Call) and call_name(a.value) == "get_style"
             and isinstance(a.value.func, ast.Attribute) and len(a.targets) == 1 and isinstance(a.targets[0], ast.Name)]
    apps = [n for n in walk_no_nested(g.node) if isinstance(n, ast.Call) and call_name(n) == "append" and isinstance(n.func, ast.Attribute)
            and isinstance(n.func.value, ast.Name) and n.args and isinstance(n.args[0], ast.Name) and "manifest" not in n.func.value.id]
    ok = bool(apps) and len(looks) == 1
    dels = []
    if ok:
        dup = looks[0].targets[0].id
        dels = [n for n in walk_no_nested(g.node) if isinstance(n, ast.Call) and call_name(n) == "delete" and (
            (isinstance(n.func, ast.Attribute) and isinstance(n.func.value, ast.Name) and n.func.value.id == dup)
            or any(isinstance(x, ast.Name) and x.id == dup for a_ in n.args for x in ast.walk(a_)))]
        ok = bool(dels)
    if ok:
        tn = [n for n in cfgg.nodes if n.kind == "test" and isinstance(n.stmt, ast.If) and any(x is dels[0] for x in ast.walk(n.stmt))]
        ok = bool(tn) and cfgg.dominates(tn[-1], node_of(cfgg, apps[0])) and cfgg.dominates(node_of(cfgg, looks[0]), tn[-1])
    ctx.instance("R13c", f"{g.file}:{g.ident}", "the style found by the duplicate lookup is deleted on the way to the append of the merged style", ok=ok, nontrivial=True)
    if not ok:
        ctx.report("R13c", g, g.node, "append of the merged style without deleting the style it replaces", "merged styles are appended without removing the style they replace")
        return
    # scope of the duplicate lookup = the destination *part* (what the part's own lookup searches), neither a single container nor the whole document
    recv = looks[0].value.func.value
    defs = [a.value for a in walk_no_nested(g.node) if isinstance(a, (ast.Assign, ast.AnnAssign)) and a.value is not None
            and any(isinstance(t, ast.Name) and isinstance(recv, ast.Name) and t.id == recv.id for t in (a.targets if isinstance(a, ast.Assign) else [a.target]))]
    is_part = lambda e: isinstance(e, ast.Attribute) and isinstance(e.value, ast.Name) and e.value.id == "self" and e.attr in ("styles", "content")  # noqa: E731
    okp = isinstance(recv, ast.Name) and bool(defs) and all(is_part(d) for d in defs)
    what = [norm(d, 40) for d in defs] if defs else norm(recv, 40)
    ctx.instance("R13c", f"{g.file}:{g.ident}", f"duplicate lookup runs on the destination part ({what})", ok=okp, nontrivial=True, line=looks[0].lineno)
    if not okp:
        ctx.report("R13c", g, looks[0], f"{norm(looks[0], 60)} — receiver defined by {what}",
                   "merge_styles_from searches the style to replace in another scope than the destination part: narrower (one container) leaves a second style of the same "
                   "family and name in the part, which the lookup may return instead of the merged one; wider (the document) deletes a style of the other part")


def r13d(ctx):
    repo = ctx.repo
    ctx.rule("R13d", "nodes obtained from another document are cloned before being attached", floor=1)
    doc = repo.cls("Document")
    n_inst = 0
    for fs in doc.methods.values():
        for f in fs:
            others = [a.arg for a in f.all_params() if a.annotation is not None and "Document" in ast.unparse(a.annotation) and a.arg != "self"]
            if not others:
                continue
            tainted: set[str] = set()
            fresh: set[str] = set()

            def derived(e: ast.expr) -> bool:
                return any(isinstance(x, ast.Name) and (x.id in others or x.id in tainted) for x in ast.walk(e))

            def walk(body):
                nonlocal n_inst
                for s in body:
                    if isinstance(s, (ast.For,)):
                        if derived(s.iter):
                            for t in ast.walk(s.target):
                                if isinstance(t, ast.Name):
                                    tainted.add(t.id)
                        walk(s.body)
                        walk(s.orelse)
                        continue
                    if isinstance(s, ast.If):
                        walk(s.body)
                        walk(s.orelse)
                        continue
                    if isinstance(s, (ast.With, ast.Try)):
                        walk(s.body)
                        for h in getattr(s, "handlers", []):
                            walk(h.body)
                        continue
                    if isinstance(s, ast.Assign) and isinstance(s.targets[0], ast.Name):
                        t = s.targets[0].id
                        v = s.value
                        if isinstance(v, ast.Attribute) and v.attr == "clone":
                            tainted.discard(t)
                            fresh.add(t)
                        elif isinstance(v, ast.Call) and call_name(v) in ("deepcopy", "clone"):
                            tainted.discard(t)
                        elif isinstance(v, (ast.Attribute,)) and derived(v) and v.attr in ("parent", "root", "children"):
                            tainted.add(t)
                        elif isinstance(v, ast.Call) and derived(v.func) and call_name(v) in ("get_element", "get_elements", "get_style", "get_styles",
                                                                                              "get_part", "get_frames", "get_images"):
                            # bytes parts are values, not nodes
                            if call_name(v) != "get_part":
                                tainted.add(t)
                        elif isinstance(v, ast.Name) and v.id in tainted:
                            tainted.add(t)
                    for c in ast.walk(s):
                        if isinstance(c, ast.Call) and call_name(c) in ("append", "insert", "extend", "addnext", "append_named_range") and c.args:
                            a = c.args[0]
                            if isinstance(a, ast.Name) and (a.id in tainted or a.id in fresh):
                                ok = a.id not in tainted
                                n_inst += 1
                                ctx.instance("R13d", f"{f.file}:{f.ident}", f"{norm(c, 50)}: {a.id} {'cloned' if ok else 'is a live node of the other document'}",
                                             ok=ok, nontrivial=True, line=c.lineno)
                                if not ok:
                                    ctx.report("R13d", f, c, c,
                                               f"{a.id} is a node of the other document ({', '.join(others)}); attaching it here moves it out of "
                                               f"that document (lxml re-parents): the source document loses its styles")

            walk(body_no_doc(f.node))
    if n_inst == 0:
        raise AnalysisError("R13d: no cross-document attach site found (merge_styles_from vanished?)")


def _max_plus_one(loop: ast.For, value: ast.expr) -> bool:
    """`value` contains M + 1 where M is the running maximum of the scan loop (M = max(M, …))."""
    ms = {n.targets[0].id for n in ast.walk(loop) if isinstance(n, ast.Assign) and len(n.targets) == 1 and isinstance(n.targets[0], ast.Name)
          and isinstance(n.value, ast.Call) and call_name(n.value) == "max" and any(isinstance(a, ast.Name) and a.id == n.targets[0].id for a in n.value.args)}
    return any(isinstance(x, ast.BinOp) and isinstance(x.op, ast.Add) and isinstance(x.left, ast.Name) and x.left.id in ms
               and isinstance(x.right, ast.Constant) and x.right.value == 1 for x in ast.walk(value))


def r13e(ctx):
    repo = ctx.repo
    ctx.rule("R13e", "generated names are assigned after scanning all containers that may hold a clashing name", floor=3)
    f = repo.func("Document._set_automatic_name")
    scans = [n for n in walk_no_nested(f.node) if isinstance(n, ast.Call) and call_name(n) == "get_styles" and is_self_attr(n.func)]
    ok = bool(scans) and any(k.arg == "automatic" and repo.fold(k.value, f.module) is True for k in scans[0].keywords) and \
        any(k.arg == "family" for k in scans[0].keywords)
    ctx.instance("R13e", f"{f.file}:{f.ident}", "scans self.get_styles(family=…, automatic=True)", ok=ok)
    if not ok:
        ctx.report("R13e", f, f.node, "scan of automatic styles", "automatic names are generated without scanning the automatic styles of both parts")
    cfg = cfg_of(f)
    loops = [n for n in walk_no_nested(f.node) if isinstance(n, ast.For)]
    sets = [n for n in walk_no_nested(f.node) if isinstance(n, ast.Assign) and isinstance(n.targets[0], ast.Attribute) and n.targets[0].attr == "name"]
    ok2 = bool(loops) and bool(sets) and not any(l in [p for p in _ancestors(sets[0])] for l in loops) and \
        cfg.dominates(node_of(cfg, loops[0]), node_of(cfg, sets[0])) and _max_plus_one(loops[0], sets[0].value)
    ctx.instance("R13e", f"{f.file}:{f.ident}", "style.name = prefix + (max_index + 1) after the scan loop", ok=ok2, nontrivial=True)
    if not ok2:
        ctx.report("R13e", f, f.node, "name assigned inside/before the scan", "the automatic name is not max+1 computed after the whole scan")
    # Document.get_styles(automatic=True) really covers both parts
    g = repo.func("Document.get_styles")
    from ..shape import has
    ok3 = has(g.node, "self.content.get_styles(family=F_) + self.styles.get_styles(family=F_, automatic=A_)")
    ctx.instance("R13e", f"{g.file}:{g.ident}", "Document.get_styles = content styles + styles.xml styles (automatic flag forwarded)", ok=ok3)
    if not ok3:
        ctx.report("R13e", g, g.node, "get_styles coverage", "Document.get_styles no longer unions content.xml and styles.xml")
    u = repo.func("Document._unique_style_name")
    ok4 = any(isinstance(n, ast.Call) and call_name(n) == "get_styles" and not n.args and not n.keywords for n in walk_no_nested(u.node)) and \
        any(isinstance(n, ast.Compare) and isinstance(n.ops[0], ast.In) for n in walk_no_nested(u.node))
    ctx.instance("R13e", f"{u.file}:{u.ident}", "candidate checked against the names of all styles", ok=ok4)
    if not ok4:
        ctx.report("R13e", u, u.node, "unique name scan", "_unique_style_name does not test candidates against every existing style name")


def _ancestors(n):
    from ..core import ancestors
    return list(ancestors(n))


def r13f(ctx):
    """The name that insert_style returns is read from the style as it was inserted.

    The helpers that place a style may still change its identity — a default style loses `style:name` and is re-tagged, an unnamed automatic
    style receives its generated name.  The caller is promised "a name under which the lookup finds exactly that style", so the returned
    value must be read from the element after the last of these changes (after the append), not from a local computed on entry.
    """
    repo = ctx.repo
    ctx.rule("R13f", "insert_style returns the name read from the inserted element, after the append", floor=1)
    f = repo.func("Document.insert_style")
    cfg = cfg_of(f)
    apps = [n for n in walk_no_nested(f.node) if isinstance(n, ast.Call) and call_name(n) == "append" and isinstance(n.func, ast.Attribute)]
    rets = [r for r in walk_no_nested(f.node) if isinstance(r, ast.Return) and r.value is not None]
    if not apps or not rets:
        raise AnalysisError("R13f: insert_style no longer appends and returns")
    last_app = max(apps, key=lambda c: c.lineno)
    elem = last_app.args[0].id if last_app.args and isinstance(last_app.args[0], ast.Name) else None

    def reads_element(e) -> bool:
        return isinstance(e, ast.Call) and call_name(e) == "_pseudo_style_attribute" and e.args and isinstance(e.args[0], ast.Name) and e.args[0].id == elem \
            and len(e.args) > 1 and repo.fold(e.args[1], f.module) == "name"

    for r in rets:
        if not cfg.dominates(node_of(cfg, last_app), node_of(cfg, r)):
            continue  # an early return before anything was inserted (error paths raise)
        v = r.value
        ok = reads_element(v)
        if not ok and isinstance(v, ast.Name):
            defs = [a for a in walk_no_nested(f.node) if isinstance(a, ast.Assign) and any(isinstance(t, ast.Name) and t.id == v.id for t in a.targets)]
            ok = bool(defs) and all(reads_element(a.value) and cfg.dominates(node_of(cfg, last_app), node_of(cfg, a)) for a in defs)
        ctx.instance("R13f", f"{f.file}:{f.ident}", f"return {norm(v, 50)}: " + ("the name of the element as inserted" if ok else "may be a name computed before the style was placed"),
                     ok=ok, nontrivial=True, line=r.lineno)
        if not ok:
            ctx.report("R13f", f, r, f"return {norm(v, 60)}",
                       "insert_style returns a value that can come from before the placement helpers ran: a default style loses its name and an unnamed automatic style gets a "
                       "generated one there, so the returned name is not one under which get_style finds the inserted style")


def r13g(ctx):
    """The style is stored under the name its predecessor was looked up by.

    insert_style looks for "the style of the same family and name" under `name` and deletes it before appending the new one.  Replacing
    instead of duplicating — and returning a name that finds the inserted style — needs the appended style to carry that very name:
    when the caller gave none, `name` is read from the style; when the caller gave one, it is written onto the style before the style
    is placed, whatever name the style had (only the default-style flag and the absence of a name attribute may exempt it).
    Rule: (a) insert_style has both arms on its test of `name`; (b) the store `<style>.name = name` of the "given" arm is not guarded by a
    test that reads the style's own name.
    """
    from ..paths import if_arms, structural_guards
    repo = ctx.repo
    ctx.rule("R13g", "insert_style: a caller-given name is written onto the style before it is placed; a missing one is read from the style", floor=2)
    f = repo.func("Document.insert_style")
    params = [a.arg for a in f.all_params()]
    if "name" not in params:
        raise AnalysisError("R13g: insert_style has no `name` parameter")
    found = None
    for n in walk_no_nested(f.node):
        if isinstance(n, ast.If):
            core, when_t, when_f = if_arms(n)
            if isinstance(core, ast.Name) and core.id == "name":
                found = (n, when_t, when_f)
                break
    if found is None:
        raise AnalysisError("R13g: insert_style no longer tests `name`")
    n, given, missing = found
    reads = any(isinstance(a, ast.Assign) and any(isinstance(t, ast.Name) and t.id == "name" for t in a.targets) for st in missing for a in ast.walk(st))

    def name_stores(stmts):
        return [a for st in stmts for a in ast.walk(st) if isinstance(a, ast.Assign) and isinstance(a.value, ast.Name) and a.value.id == "name"
                and any(isinstance(t, ast.Attribute) and t.attr == "name" for t in a.targets)]

    writes = name_stores(given)
    ok = reads and bool(writes)
    ctx.instance("R13g", f"{f.file}:{f.ident}", "name missing: read from the style; name given: written onto the style", ok=ok, nontrivial=True, line=n.lineno)
    if not ok:
        ctx.report("R13g", f, n, "insert_style: name given but not written onto the style" if reads else "insert_style: missing name not read from the style",
                   "insert_style looks the style to replace up under `name` but appends the new style under whatever name it carries: with name= given, an unnamed style stays unnamed "
                   "(the old style of that name is deleted, nothing is found under it, None is returned) and a style carrying another name is stored under that other name")
    # (b) the write (a) relies on does not depend on the style's current name (stores repeated later in a helper are redundant and not looked at)
    for a in writes:
        tgt = next(t for t in a.targets if isinstance(t, ast.Attribute) and t.attr == "name")
        holder = norm(tgt.value)
        bad = [t for t, _pol in structural_guards(a, stop=f.node)
               if any(isinstance(x, ast.Attribute) and x.attr == "name" and norm(x.value) == holder and not isinstance(getattr(x, "ctx", None), ast.Store) for x in ast.walk(t))
               or any(isinstance(x, ast.Call) and call_name(x) in ("getattr", "_pseudo_style_attribute") and x.args and norm(x.args[0]) == holder for x in ast.walk(t))]
        ctx.instance("R13g", f"{f.file}:{f.ident}", f"`{norm(a, 40)}` does not depend on the style's current name", ok=not bad, nontrivial=True, line=a.lineno)
        if bad:
            ctx.report("R13g", f, a, f"{norm(a, 40)} under `{norm(bad[0], 40)}`",
                       f"{f.ident} writes the requested name only when `{norm(bad[0], 40)}`: a style that already carries another name keeps it, while the style of the requested "
                       f"name has been looked up for deletion — the requested name is lost, the other name may now exist twice, and the returned name finds another style")


def r13h(ctx):
    """A style is looked up by family and name, and a style handed in as an object is judged by itself.

    Styles are unique by family + name: `T1` of family "text" and `T1` of family "paragraph" are two styles of one container.  Every
    lookup — and the "is there one to replace" question of insert_style and merge_styles_from — ends in Element.get_style, which must
    hand the family to the filtered query whenever it has one (the tag alone does not tell the families of style:style apart).  When the
    caller passes a style object instead of a name, the object's own style:name is what shows it is a style.
    """
    repo = ctx.repo
    ctx.rule("R13h", "Element.get_style filters by the family it was given, and reads the name of the style object it was given", floor=2)
    f = repo.func("Element.get_style")
    fam = "family"
    rebound = [a for a in walk_no_nested(f.node) if isinstance(a, ast.Assign) and any(isinstance(t, ast.Name) and t.id == fam for t in a.targets)]
    calls_ = [c for c in walk_no_nested(f.node) if isinstance(c, ast.Call) and call_name(c) in ("_filtered_element", "_filtered_elements")]
    if not calls_:
        raise AnalysisError("R13h: Element.get_style no longer ends in a filtered lookup")
    for c in calls_:
        kw = {k.arg: k.value for k in c.keywords if k.arg}
        v = kw.get("family")
        ok = isinstance(v, ast.Name) and v.id == fam and not rebound
        ctx.instance("R13h", f"{f.file}:{f.ident}", f"`{norm(c, 40)}` is given family={norm(v, 20) if v is not None else 'nothing'}", ok=ok, nontrivial=True, line=c.lineno)
        if not ok:
            ctx.report("R13h", f, c, norm(c, 60),
                       f"Element.get_style hands `{norm(v, 30) if v is not None else 'no family'}` to the filtered lookup instead of the family it was asked for: a style of another family "
                       f"with the same name is found (and, through insert_style and merge_styles_from, deleted as the one to replace)")
    # the object branch
    obj = [a for a in walk_no_nested(f.node) if isinstance(a, ast.Assign) and isinstance(a.value, ast.Call) and call_name(a.value).startswith("get_attribute")
           and a.value.args and repo.fold(a.value.args[0], f.module) == "style:name"]
    for a in obj:
        recv = a.value.func.value if isinstance(a.value.func, ast.Attribute) else None
        gs = [t for t, pol in structural_guards(a, stop=f.node) if pol and isinstance(t, ast.Call) and call_name(t) == "isinstance" and t.args and isinstance(t.args[0], ast.Name)]
        want = gs[0].args[0].id if gs else None
        ok = want is None or (isinstance(recv, ast.Name) and recv.id == want)
        ctx.instance("R13h", f"{f.file}:{f.ident}", f"`{norm(a, 50)}` reads the name of the object under test", ok=ok, nontrivial=True, line=a.lineno)
        if not ok:
            ctx.report("R13h", f, a, norm(a, 60), f"under `isinstance({want}, …)` the style name is read from `{norm(recv, 20)}`, not from `{want}`: a style passed as an object is "
                       f"judged by the container the lookup runs on and refused")


def r13i(ctx):
    """What is inserted as a new style is a new style.

    insert_style() appends the object it is given to its destination container (lxml moves a node that already has a parent) and the
    caller usually renames it first.  A style obtained from a lookup is the document's own: renaming and inserting it takes the existing
    style away from every element that refers to it by name, and out of the container it was found in.  Rule: in Document, the object
    handed to `insert_style` is built in the function (constructor, from_tag, `.clone` of something) or is a parameter; a value that may
    come straight from a get_*style* lookup is accepted only under a test that the lookup found nothing.
    """
    repo = ctx.repo
    ctx.rule("R13i", "Document methods hand insert_style a style they built or cloned, never the object a lookup returned", floor=2)
    c = repo.cls("Document")
    n = 0
    for name, fs in sorted(c.methods.items()):
        f = fs[0]
        if name == "insert_style":
            continue
        params = {a.arg for a in f.all_params()}
        defs: dict[str, list[ast.expr]] = {}
        for a in walk_no_nested(f.node):
            if isinstance(a, ast.Assign):
                for t in a.targets:
                    if isinstance(t, ast.Name):
                        defs.setdefault(t.id, []).append(a.value)

        def lookup_origin(e, depth=0):
            """names of lookups the value may come from un-copied"""
            if depth > 3:
                return set()
            if isinstance(e, ast.Call) and "style" in call_name(e) and call_name(e).lstrip("_").startswith("get"):
                return {call_name(e)}
            if isinstance(e, ast.Name) and e.id not in params:
                out = set()
                for d in defs.get(e.id, []):
                    out |= lookup_origin(d, depth + 1)
                return out
            return set()

        for call in [x for x in walk_no_nested(f.node) if isinstance(x, ast.Call) and call_name(x) == "insert_style" and x.args and isinstance(x.args[0], ast.Name)]:
            n += 1
            v = call.args[0]
            origins = lookup_origin(v)
            # accepted when the call sits under `not <v>` (the lookup found nothing, the other definition applies)
            excused = any((not pol and isinstance(t, ast.Name) and t.id == v.id) or (pol and isinstance(t, ast.UnaryOp) and isinstance(t.op, ast.Not) and isinstance(t.operand, ast.Name) and t.operand.id == v.id)
                          or (isinstance(t, ast.Compare) and isinstance(t.left, ast.Name) and t.left.id == v.id and isinstance(t.comparators[0], ast.Constant) and t.comparators[0].value is None
                              and ((isinstance(t.ops[0], ast.Is) and pol) or (isinstance(t.ops[0], ast.IsNot) and not pol)))
                          for t, pol in structural_guards(call, stop=f.node))
            ok = not origins or excused
            ctx.instance("R13i", f"{f.file}:{f.ident}", f"`{norm(call, 40)}`: " + ("built or cloned here" if not origins else ("only when the lookup found nothing" if excused else f"may be the object returned by {sorted(origins)}")),
                         ok=ok, nontrivial=True, line=call.lineno)
            if not ok:
                ctx.report("R13i", f, call, norm(call, 60),
                           f"{f.ident} inserts `{v.id}`, which may be the very object {sorted(origins)[0]}() returned (no .clone on the way): the style the document already uses is renamed "
                           f"and moved — elements that refer to it by its old name lose their style, and it leaves the container it was defined in")
    if n == 0:
        raise AnalysisError("R13i: no insert_style call with a local in Document")


def r13j(ctx):
    """A name is looked up as a name.

    Styles have an internal name (`style:name`, "Text_20_body") and a display name ("Text body"); the lookups take each under its own
    parameter.  insert_style and merge_styles_from ask `get_style(family, name)` which style to replace: a lookup that quietly retries the
    name as a display name answers with another style of the family, and that one is deleted.  Rule: in every `get_style` of the package,
    a call that passes `display_name=` passes the display_name parameter (or a constant), never a value derived from the name parameter,
    and the reverse.
    """
    repo = ctx.repo
    ctx.rule("R13j", "style lookups forward the name as name and the display name as display name (no cross-over, no retry under the other key)", floor=4)
    NAME_KW = {"name_or_element", "style_name", "name"}
    n = 0
    for f in repo.all_funcs():
        if f.name != "get_style":
            continue
        params = {a.arg for a in f.all_params()}
        defs: dict[str, set[str]] = {}
        for a in walk_no_nested(f.node):
            if isinstance(a, ast.Assign) and len(a.targets) == 1 and isinstance(a.targets[0], ast.Name):
                defs.setdefault(a.targets[0].id, set()).update(x.id for x in ast.walk(a.value) if isinstance(x, ast.Name))

        def roots(e):
            out, work, seen = set(), [x.id for x in ast.walk(e) if isinstance(x, ast.Name)], set()
            while work:
                nm = work.pop()
                if nm in seen:
                    continue
                seen.add(nm)
                if nm in params:
                    out.add(nm)
                work += list(defs.get(nm, ()))
            return out

        for c in walk_no_nested(f.node):
            if not isinstance(c, ast.Call):
                continue
            for k in c.keywords:
                if k.arg == "display_name":
                    r = roots(k.value)
                    ok = not (r & NAME_KW)
                elif k.arg in NAME_KW:
                    r = roots(k.value)
                    ok = "display_name" not in r
                else:
                    continue
                n += 1
                ctx.instance("R13j", f"{f.file}:{f.ident}", f"`{k.arg}={norm(k.value, 30)}` comes from {sorted(r) or 'a constant'}", ok=ok, nontrivial=True, line=c.lineno)
                if not ok:
                    ctx.report("R13j", f, c, f"{norm(c, 60)}",
                               f"{f.ident} passes `{norm(k.value, 30)}` (from parameter {sorted(r)}) as `{k.arg}`: a style asked for by its name is also searched by display name (or the "
                               f"reverse), so another style of the family answers — and is the one insert_style / merge_styles_from then replaces")
    if n < 4:
        raise AnalysisError(f"R13j: only {n} keyword forwardings found in the get_style family")


def r13k(ctx):
    """Wherever a `style:style` can be put, it is looked for.

    A `style:style` element of any family may sit among the common styles or among the automatic styles of styles.xml (automatic styles of
    styles.xml serve headers, footers and master pages: a table in a page header has its table, column, row and cell styles there).
    merge_styles_from copies a style into the container named like the one it came from, and insert_style / merge ask the lookup whether it
    is already there.  Rule: for every family whose element is `style:style` (FAMILY_MAPPING), the styles.xml lookup contexts
    (CONTEXT_MAPPING, or the default used for an unlisted family) include both `//office:styles` and `//office:automatic-styles`.  The same holds for
    the data-style families (elements `number:*-style`), which office suites store in the automatic styles of styles.xml.
    """
    repo = ctx.repo
    ctx.rule("R13k", "every style:style family is looked up in both office:styles and office:automatic-styles of styles.xml", floor=10)
    sc = repo.module("utils.style_constants")
    fam_map = repo.fold(sc.assigns["FAMILY_MAPPING"], sc)
    st = repo.module("styles")
    cm = repo.fold(st.assigns.get("CONTEXT_MAPPING"), st)
    if not isinstance(fam_map, dict) or not isinstance(cm, dict):
        raise AnalysisError("R13k: FAMILY_MAPPING / CONTEXT_MAPPING not foldable")
    need = {"//office:styles", "//office:automatic-styles"}
    for fam, tag in sorted(fam_map.items()):
        # data styles (number:*-style) are copied by merge_styles_from into the automatic styles of styles.xml just like style:style elements
        # (every spreadsheet written by an office suite has some there): the same two contexts are needed for them
        if not (tag == "style:style" or str(tag).startswith("number:")) or fam not in cm:
            continue
        have = set(cm[fam]) if isinstance(cm[fam], (tuple, list)) else set()
        ok = need <= have
        ctx.instance("R13k", f"{st.relpath}:CONTEXT_MAPPING", f"{fam}: {sorted(have)}", ok=ok, nontrivial=True, line=st.assigns["CONTEXT_MAPPING"].lineno)
        if not ok:
            ctx.report("R13k", st, st.assigns["CONTEXT_MAPPING"], f"{fam}: looked up in {sorted(have)} only",
                       f"styles of family {fam!r} (element {tag}) can sit in {sorted(need - have)} of styles.xml (merge_styles_from copies them there), but the lookup does not "
                       f"search it: such a style is not found again, is missing from get_styles(), and a second merge stores it twice")


def r13l(ctx):
    """"Nothing to replace" is claimed only for a name that was just made up.

    Each placement helper of insert_style answers two questions: where the style goes, and which style already there it replaces
    (`existing`).  Replacing instead of duplicating needs `existing` to come from a lookup on every path.  The one legitimate `None` is the
    unnamed automatic style, whose name is generated to be unused (`_set_automatic_name`).  A helper that skips the lookup on some other
    path — no name given, so "nothing to replace" — appends a second default style of the family next to the first.  Rule: in every
    `_insert_style_get_*` helper, a definition `existing = None` sits in a block that generates the unique name.
    """
    repo = ctx.repo
    ctx.rule("R13l", "insert helpers claim there is nothing to replace only after generating an unused name", floor=6)
    c = repo.cls("Document")
    n = 0
    for name, fs in sorted(c.methods.items()):
        if not name.startswith("_insert_style_get"):
            continue
        f = fs[0]
        rets = [r for r in walk_no_nested(f.node) if isinstance(r, ast.Return) and isinstance(r.value, ast.Tuple) and len(r.value.elts) == 2]
        if not rets:
            continue
        ev = rets[0].value.elts[0]
        if not isinstance(ev, ast.Name):
            continue
        n += 1
        defs = [a for a in walk_no_nested(f.node) if isinstance(a, ast.Assign) and any(isinstance(t, ast.Name) and t.id == ev.id for t in a.targets)]
        bad = []
        for a in defs:
            if isinstance(a.value, ast.Constant) and a.value.value is None:
                # the enclosing block
                blk = None
                for st in ast.walk(f.node):
                    for fld in ("body", "orelse"):
                        b = getattr(st, fld, None)
                        if isinstance(b, list) and a in b:
                            blk = b
                gen = blk is not None and any(isinstance(x, ast.Call) and call_name(x) in ("_set_automatic_name", "_unique_style_name") for s_ in blk for x in ast.walk(s_))
                if not gen:
                    bad.append(a)
        lookups = [a for a in defs if isinstance(a.value, ast.Call) and "get_style" in call_name(a.value)]
        ok = not bad and bool(lookups)
        ctx.instance("R13l", f"{f.file}:{f.ident}", f"`{ev.id}` comes from a lookup ({len(lookups)}) or is None for a generated name", ok=ok, nontrivial=True, line=f.node.lineno)
        for a in bad[:1]:
            ctx.report("R13l", f, a, f"{name}: {norm(a, 40)}",
                       f"{f.ident} answers `{ev.id} = None` on a path that does not generate an unused name: the style already present for that family (and name) is not looked up, so the new "
                       f"style is appended next to it — two default styles of one family, and get_style keeps returning the old one")
    if n < 6:
        raise AnalysisError(f"R13l: only {n} insert helper(s) found")


_FIXTURE_M = '''
class Document:
    def __init__(self):
        self.__done = False
        self.__parts = {}
    def add_page_break_style(self):
        if self.__done:
            return
        self.__done = True
        self.insert_style(1)
    def add_other(self):
        if not self._ready:
            self._ready = True
            self.insert_style(2)
    def get_part(self, path):
        if path in self.__parts:
            return self.__parts[path]
        self.__parts[path] = 1
        return 1
    def plain(self, flag):
        if flag:
            return
        self.insert_style(3)
'''


def _latched_methods(cls_node: ast.ClassDef):
    """methods that skip their work on a flag of the object which they set themselves: (function, test, store)"""
    out = []
    for fn in cls_node.body:
        if not isinstance(fn, ast.FunctionDef) or fn.name == "__init__":
            continue
        latches = {}
        for a in walk_no_nested(fn):
            if isinstance(a, ast.Assign) and isinstance(a.value, ast.Constant) and isinstance(a.value.value, bool):
                for t in a.targets:
                    if isinstance(t, ast.Attribute) and isinstance(t.value, ast.Name) and t.value.id == "self":
                        latches[t.attr] = a
        if not latches:
            continue
        for n in walk_no_nested(fn):
            if isinstance(n, (ast.If, ast.While)):
                reads = {x.attr for x in ast.walk(n.test) if isinstance(x, ast.Attribute) and isinstance(x.value, ast.Name) and x.value.id == "self"}
                reads |= {x.args[1].value for x in ast.walk(n.test) if isinstance(x, ast.Call) and isinstance(x.func, ast.Name) and x.func.id == "getattr" and len(x.args) >= 2
                          and isinstance(x.args[0], ast.Name) and x.args[0].id == "self" and isinstance(x.args[1], ast.Constant) and isinstance(x.args[1].value, str)}
                reads &= set(latches)
                # the flag decides, on its own, whether the body of the method runs: nothing else is consulted
                pure = {x.id for x in ast.walk(n.test) if isinstance(x, ast.Name)} <= {"self", "getattr"} and not any(isinstance(x, (ast.Compare, ast.Subscript)) for x in ast.walk(n.test))
                if reads and pure:
                    out.append((fn, n.test, latches[sorted(reads)[0]]))
    return out


def r13m(ctx):
    """A helper that installs a style does it every time it is asked.

    `add_page_break_style`, `insert_style`, `merge_styles_from`, `delete_styles` can be called in any order, any number of times; the styles of
    the document change in between.  A helper that remembers on the Document (or on a part) that it "has done its work already" and returns
    at once from then on leaves the style missing after a `delete_styles()`, or keeps a same-named style with other properties in place —
    and the flag is deep-copied by clone.  Today no method of Document or of an XmlPart class is latched.  Rule (expected count 0, fixture
    evaluated on every run): no method of those classes sets a boolean attribute of the object that it also tests, alone, to decide whether
    its body runs.
    """
    repo = ctx.repo
    ctx.rule("R13m", "no method of Document or of an XmlPart class is latched by a done-flag kept on the object", floor=6)
    tree = ast.parse(_FIXTURE_M)
    got = sorted(fn.name for fn, _, _ in _latched_methods(tree.body[0]))
    if got != ["add_other", "add_page_break_style"]:
        raise AnalysisError(f"R13m fixture: detector broken: {got}")
    base = repo.cls("XmlPart")
    for c in repo.all_classes():
        if c.name != "Document" and base not in c.mro:
            continue
        bad = {id(fn): (fn, t, st) for fn, t, st in _latched_methods(c.node)}
        for name, fs in sorted(c.methods.items()):
            for f in fs:
                if f.cls is not c or f.kind == "nested":
                    continue
                b = bad.get(id(f.node))
                ctx.instance("R13m", f"{f.file}:{f.ident}", "not latched", ok=b is None, nontrivial=b is not None or name.startswith(("add_", "insert_", "merge_", "set_", "delete_")), line=f.node.lineno)
                if b:
                    ctx.report("R13m", f, b[1], f"latch {norm(b[1], 30)} / {norm(b[2], 30)}",
                               f"{f.ident} skips its work when `{norm(b[1], 30)}` and sets that flag itself (`{norm(b[2], 30)}`): after the first call it does nothing for the life of the "
                               f"object, whatever happened to the styles in between (deleted, replaced by a same-named style, merged from another document)")


def r13n(ctx):
    """The Document remembers nothing about its styles.

    A Document keeps two caches and both have their protocol: the parsed parts (`__xmlparts`, dropped by set_part, rebuilt by clone) and the
    body element (`__body`, reset with them).  Everything else it answers — which names are taken, which style is the default, what the
    next generated name is — it reads from the parts each time, because the parts change under it: merge_styles_from, insert_style with an
    explicit name, delete_styles, direct edits of `doc.styles`.  A counter or table kept on the Document "to avoid the scan" is right until
    the first of those happens; a generated `odfdo_auto_N` then collides with a style that arrived another way, and two automatic styles of
    one family share a name.  Rule: outside `__init__`, no method of Document stores into an attribute of the object, or into a container
    held by one, other than the two governed caches and the container.
    """
    repo = ctx.repo
    ctx.rule("R13n", "outside __init__ a Document method stores only into the governed caches (parsed parts, body) and the container", floor=40)
    c = repo.cls("Document")
    governed = {"__xmlparts", "_Document__xmlparts", "__body", "_Document__body", "container"}
    for name, fs in sorted(c.methods.items()):
        for f in fs:
            if f.cls is not c or name == "__init__" or f.kind == "nested":
                continue
            bad = []
            for a in walk_no_nested(f.node):
                tg = a.targets if isinstance(a, ast.Assign) else [a.target] if isinstance(a, (ast.AnnAssign, ast.AugAssign)) else []
                for t in tg:
                    for x in ast.walk(t):
                        if isinstance(x, ast.Attribute) and isinstance(x.value, ast.Name) and x.value.id == "self" and x.attr not in governed \
                                and (isinstance(x.ctx, ast.Store) or isinstance(getattr(x, "_parent", None), ast.Subscript)) and c.lookup(x.attr) is None:
                            bad.append(a)
                if isinstance(a, ast.Call) and isinstance(a.func, ast.Attribute) and a.func.attr in ("setdefault", "update", "append", "add", "extend", "insert", "__setitem__") \
                        and isinstance(a.func.value, ast.Attribute) and isinstance(a.func.value.value, ast.Name) and a.func.value.value.id == "self" \
                        and a.func.value.attr not in governed and c.lookup(a.func.value.attr) is None:
                    bad.append(a)
            ctx.instance("R13n", f"{f.file}:{f.ident}", "keeps nothing on the document", ok=not bad, nontrivial=bool(bad) or name.startswith(("insert_", "_insert", "add_", "merge_", "delete_", "get_style", "_set_automatic", "_unique")), line=f.node.lineno)
            for a in bad[:1]:
                ctx.report("R13n", f, a, norm(a, 50),
                           f"{f.ident} keeps state on the Document (`{norm(a, 50)}`) that nothing resets when the styles change another way (merge_styles_from, an insert under an "
                           f"explicit name, delete_styles, edits of doc.styles): what it answers from that state — a free name, a default, an index — is then wrong for the current parts")


def r13o(ctx):
    """The containers of a family are searched in the order its table entry gives.

    `CONTEXT_MAPPING[family]` lists where styles of a family may live, most specific answer first: `office:styles` before
    `office:automatic-styles`.  Lookup returns the first hit, so the order is part of the answer: a common style and an automatic style of
    styles.xml may carry the same name (`Mdp1`, `MP1` in the templates), and the common one is the one `insert_style` replaces and returns.
    A rewrite that filters a fixed list of containers by membership in the entry keeps the set and loses the order.  Rule: for a given
    family, `Styles._get_style_contexts` builds its answer by iterating over the table entry itself.
    """
    repo = ctx.repo
    ctx.rule("R13o", "Styles._get_style_contexts walks the CONTEXT_MAPPING entry of the family in its own order", floor=1)
    f = repo.func("Styles._get_style_contexts")
    entry = {a.targets[0].id for a in walk_no_nested(f.node) if isinstance(a, ast.Assign) and len(a.targets) == 1 and isinstance(a.targets[0], ast.Name)
             and any(isinstance(x, ast.Name) and x.id == "CONTEXT_MAPPING" for x in ast.walk(a.value))}
    if not entry:
        raise AnalysisError("R13o: _get_style_contexts no longer reads CONTEXT_MAPPING into a local")
    rets = [r for r in walk_no_nested(f.node) if isinstance(r, ast.Return) and r.value is not None]
    last = rets[-1]
    v = last.value
    if isinstance(v, ast.Name):
        defs = [a.value for a in walk_no_nested(f.node) if isinstance(a, ast.Assign) and any(isinstance(t, ast.Name) and t.id == v.id for t in a.targets)]
        v = defs[-1] if defs else v
    iters = [g.iter for g in v.generators] if isinstance(v, (ast.ListComp, ast.GeneratorExp)) else \
        [lp.iter for lp in walk_no_nested(f.node) if isinstance(lp, ast.For)]
    ok = bool(iters) and isinstance(iters[0], ast.Name) and iters[0].id in entry
    ctx.instance("R13o", f"{f.file}:{f.ident}", f"answer built by iterating `{norm(iters[0], 20) if iters else '?'}`", ok=ok, nontrivial=True, line=last.lineno)
    if not ok:
        ctx.report("R13o", f, last, norm(last, 50),
                   f"{f.ident} does not build the answer for a family by walking its CONTEXT_MAPPING entry (it iterates `{norm(iters[0], 30) if iters else 'nothing'}`): the order of the "
                   f"entry — office:styles before office:automatic-styles — is lost, and a lookup returns the automatic style of styles.xml where a common style of the same name exists")


def run(ctx):
    r13ab(ctx)
    r13c(ctx)
    r13d(ctx)
    r13e(ctx)
    r13f(ctx)
    r13g(ctx)
    r13h(ctx)
    r13i(ctx)
    r13j(ctx)
    r13k(ctx)
    r13l(ctx)
    r13m(ctx)
    r13n(ctx)
    r13o(ctx)


from ..selftest import Seed, unparse_seed  # noqa: E402

_DOC = "src/odfdo/document.py"
_ST = "src/odfdo/styles.py"
SEEDS = [
    Seed("the automatic-name index is remembered on the Document", "fault", _DOC,
         "            self._set_automatic_name(style, family)\n", "            self._set_automatic_name(style, family)\n            self.__dict__.setdefault(\"_auto_idx\", {})\n            self._auto_idx[family] = style.name\n", "R13n"),
    Seed("add_page_break_style runs once per Document object", "fault", _DOC,
         "        if existing := self.get_style(  # noqa: SIM102\n            family=\"paragraph\",\n            name_or_element=\"odfdopagebreak\",",
         "        if getattr(self, \"_pb_done\", False):\n            return\n        self._pb_done = True\n        if existing := self.get_style(  # noqa: SIM102\n            family=\"paragraph\",\n            name_or_element=\"odfdopagebreak\",", "R13m"),
    Seed("default-style helper looks the old default up only when a name was given", "fault", _DOC,
         "        if name:\n            style.del_attribute(\"style:name\")\n        existing = self.styles.get_style(family)",
         "        if name:\n            style.del_attribute(\"style:name\")\n            existing = self.styles.get_style(family)\n        else:\n            existing = None", "R13l"),
    Seed("table-cell styles looked up among the common styles only", "fault", _ST, '    "table-cell": ("//office:styles", "//office:automatic-styles"),', '    "table-cell": ("//office:styles",),', "R13k"),
    Seed("Styles.get_style retries the name as a display name", "fault", _ST, "        for context in self._get_style_contexts(family):\n            if context is None:\n                continue\n            style = context.get_style(",
         "        if name_or_element and isinstance(name_or_element, str) and not display_name and family == \"none\":\n            return self.get_style(family, display_name=name_or_element)\n        for context in self._get_style_contexts(family):\n            if context is None:\n                continue\n            style = context.get_style(", "R13j"),
    Seed("set_table_displayed renames and moves the style in use", "fault", _DOC, "        new_style = orig_style.clone\n", "        new_style = orig_style\n", "R13i"),
    Seed("Element.get_style drops the family when a name is given", "fault", "src/odfdo/element.py",
         "                style_name=style_name,\n                display_name=display_name,\n                family=family,\n            )",
         "                style_name=style_name,\n                display_name=display_name,\n                family=family if is_default else None,\n            )", "R13h"),
    Seed("Element.get_style reads the name of the container again", "fault", "src/odfdo/element.py",
         '            name = name_or_element.get_attribute("style:name")', '            name = self.get_attribute("style:name")', "R13h"),
    Seed("automatic branch repeats the naming only when the style has no name (redundant after the central write)", "neutral", _DOC, '            if hasattr(style, "name"):\n                style.name = name', '            if hasattr(style, "name") and not style.name:\n                style.name = name'),
    Seed("insert_style no longer writes a given name onto the style", "fault", _DOC,
         '        elif not default and hasattr(style_element, "name"):\n            # the style is stored under the name it is looked up by\n            style_element.name = name\n', '', "R13g"),
    Seed("insert_style writes a given name only on unnamed styles", "fault", _DOC,
         '        elif not default and hasattr(style_element, "name"):', '        elif not default and hasattr(style_element, "name") and not style_element.name:', "R13g"),
    Seed("insert_style tests the flags in the other order", "neutral", _DOC,
         '        elif not default and hasattr(style_element, "name"):', '        elif hasattr(style_element, "name") and not default:'),
    Seed("insert_style returns the name computed on entry", "fault", _DOC,
         '        return self._pseudo_style_attribute(style_element, "name")\n\n    def get_styled_elements', '        return name or self._pseudo_style_attribute(style_element, "name")\n\n    def get_styled_elements', "R13f"),
    Seed("merge looks for the replaced style in the destination container only", "fault", _DOC, '            duplicate = part.get_style(family, stylename)\n            if duplicate is not None:\n                duplicate.delete()\n', '            duplicate = dest.get_style(family, stylename)\n            if duplicate is not None:\n                duplicate.delete()\n', "R13c"),
    Seed("merge looks for the replaced style in the whole document", "fault", _DOC, '            duplicate = part.get_style(family, stylename)\n            if duplicate is not None:\n                duplicate.delete()\n', '            duplicate = self.get_style(family, stylename)\n            if duplicate is not None:\n                duplicate.delete()\n', "R13c"),
    Seed("merge: replaced style renamed", "neutral", _DOC, '            duplicate = part.get_style(family, stylename)\n            if duplicate is not None:\n                duplicate.delete()\n', '            previous = part.get_style(family, stylename)\n            if previous is not None:\n                previous.delete()\n'),
    Seed("drawing-page lookup loses office:styles", "fault", _ST,
         '"drawing-page": ("//office:styles", "//office:automatic-styles"),', '"drawing-page": ("//office:automatic-styles",),', "R13a"),
    Seed("table-cell lookup loses automatic styles... of styles.xml only (still found through content)", "neutral", _ST,
         '"table-cell": ("//office:styles", "//office:automatic-styles"),', '"table-cell": ("//office:styles", "//office:automatic-styles", "//office:master-styles"),'),
    Seed("page layouts inserted into office:styles", "fault", _DOC,
         '        # force to automatic\n        style_container = self.styles.get_element("office:automatic-styles")',
         '        # force to automatic\n        style_container = self.styles.get_element("office:styles")', "R13a"),
    Seed("master pages inserted into content.xml", "fault", _DOC,
         '        style_container = self.styles.get_element("office:master-styles")\n        existing = self.styles.get_style(family, name)',
         '        style_container = self.content.get_element("office:master-styles")\n        existing = self.content.get_style(family, name)', "R13a"),
    Seed("marker lookup dropped from CONTEXT_MAPPING default", "fault", _ST, '    "marker": ("//office:styles",),', '    "marker": ("//office:master-styles",),', "R13a"),
    Seed("Content lookup forgets automatic styles", "fault", "src/odfdo/content.py",
         '            self.get_element("//office:font-face-decls"),\n            self.get_element("//office:automatic-styles"),\n        )',
         '            self.get_element("//office:font-face-decls"),\n        )', "R13a"),
    Seed("common style existence searched part-wide again", "fault", _DOC,
         "        existing = style_container.get_style(family, name)\n        return existing, style_container\n\n    def _insert_style_get_automatic_styles(",
         "        existing = self.styles.get_style(family, name)\n        return existing, style_container\n\n    def _insert_style_get_automatic_styles(", "R13b"),
    Seed("automatic style existence searched in styles.xml", "fault", _DOC,
         "            existing = self.content.get_style(family, name)\n        else:\n            self._set_automatic_name(style, family)",
         "            existing = self.styles.get_style(family, name)\n        else:\n            self._set_automatic_name(style, family)", "R13b"),
    Seed("insert_style appends without deleting", "fault", _DOC,
         "        if existing is not None:\n            style_container.delete(existing)\n        style_container.append(style_element)",
         "        style_container.append(style_element)", "R13c"),
    Seed("insert_style deletes only automatic duplicates", "fault", _DOC,
         "        if existing is not None:\n            style_container.delete(existing)\n        style_container.append(style_element)",
         "        if automatic:\n            if existing is not None:\n                style_container.delete(existing)\n        style_container.append(style_element)", "R13c"),
    Seed("merge moves the nodes again", "fault", _DOC, "            style = style.clone\n            dest.append(style)", "            dest.append(style)", "R13d"),
    Seed("automatic name assigned from first hit", "fault", _DOC,
         "            max_index = max(max_index, index)\n\n        style.name = f\"{AUTOMATIC_PREFIX}{max_index + 1}\"",
         "            max_index = max(max_index, index)\n            style.name = f\"{AUTOMATIC_PREFIX}{max_index + 1}\"", "R13e"),
    Seed("automatic names scan content.xml only", "fault", _DOC,
         "        styles = self.get_styles(family=family, automatic=True)", "        styles = self.content.get_styles(family=family)", "R13e"),
    unparse_seed(_DOC), unparse_seed(_ST), unparse_seed("src/odfdo/content.py"),
]
