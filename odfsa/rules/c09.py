"""C09 — inserting or removing markup never alters the paragraph text (structural clauses).

R09a  text conservation at every split site: the slices tile the string and every slice is re-attached
R09b  slot discipline: a text node is written back into the slot it came from; the new element goes first child / next sibling
R09c  removal keeps tails: Element.delete(keep_tail) and the strip functions re-attach text, children and tail in order
"""

from __future__ import annotations

import ast

from ..core import UNKNOWN, AnalysisError, FuncInfo, call_name, get_arg, is_self_attr, norm, walk_no_nested
from ..cfg import CFG
from ..paths import canon, cfg_of, node_of, reaching_defs, structural_guards

EXPLANATION = (
    "Text-conservation rules on the mechanism of every insertion and removal: wherever a string read from a text "
    "node is cut (_by_regex_offset ×2, Element._insert, Element._insert_between), the slice bounds must chain "
    "[:a] [a:b] [b:] with no gap or overlap and every slice (or the variable holding it) must reach a sink — "
    ".text/.tail store or the wrapped builder's arguments; the wrapped builders (set_span, set_link) must place "
    "both `match` and `tail`; write-back follows the node's own is_text predicate; Element.delete(keep_tail) moves "
    "the tail into prev.tail or parent.text on every path before removing; _strip_tags and strip_tags re-attach "
    "text, every child and tail by appending, in document order. Whether offsets/regex addressed the right "
    "substring, nesting order and atomicity of two-step insertions are not decided."
)
ASSUMPTIONS = [
    "lxml .text/.tail hold the character data before the first child / after the element",
    "Element.__append(str) appends to the last child's tail or to the element's text",
]


def _slices_of(node: ast.AST, var: str):
    out = []
    for n in walk_no_nested(node):
        if isinstance(n, ast.Subscript) and isinstance(n.slice, ast.Slice) and isinstance(n.value, ast.Name) and n.value.id == var and n.slice.step is None:
            lo = ast.unparse(n.slice.lower) if n.slice.lower is not None else None
            hi = ast.unparse(n.slice.upper) if n.slice.upper is not None else None
            out.append((lo, hi, n))
    return out


def _tiles(bounds: set[tuple]) -> bool:
    """The set of (lower, upper) bounds chains from None to None."""
    cur = None
    left = set(bounds)
    for _ in range(len(bounds) + 1):
        nxt = [b for b in left if b[0] == cur]
        if len(nxt) != 1:
            return False
        left.discard(nxt[0])
        cur = nxt[0][1]
        if cur is None:
            return not left
    return False


def _holders(scope: ast.AST, sl_node: ast.AST) -> set[str]:
    """Local names assigned from an expression containing the slice node."""
    out = set()
    for n in walk_no_nested(scope):
        if isinstance(n, ast.Assign) and any(x is sl_node for x in ast.walk(n.value)):
            for t in n.targets:
                if isinstance(t, ast.Name):
                    out.add(t.id)
    return out


def _sunk(scope: ast.AST, names: set[str], extra_calls=("method",)) -> bool:
    for n in walk_no_nested(scope):
        if isinstance(n, ast.Assign) and any(isinstance(t, ast.Attribute) and t.attr in ("text", "tail") for t in n.targets) \
                and any(isinstance(x, ast.Name) and x.id in names for x in ast.walk(n.value)):
            return True
        if isinstance(n, ast.Call) and call_name(n) in extra_calls and any(isinstance(a, ast.Name) and a.id in names for a in n.args):
            return True
    return False


def _cut_sites(repo):
    sites = []
    wrapper = None
    for f in repo.module("paragraph").all_funcs:
        if f.kind == "nested" and f.name == "wrapper" and "_by_regex_offset" in f.qualname:
            wrapper = f
    if wrapper is None:
        raise AnalysisError("R09a: _by_regex_offset wrapper vanished")
    # two arms: offset and regex
    arms = [n for n in walk_no_nested(wrapper.node) if isinstance(n, ast.For) and "descendant::text()" in ast.unparse(n.iter)]
    if len(arms) != 2:
        raise AnalysisError(f"R09a: expected 2 text-node loops in _by_regex_offset, found {len(arms)}")
    for arm in arms:
        sites.append((wrapper, arm, _cut_var(arm)))
    ins = repo.func("Element._insert")
    sites.append((ins, ins.node, _cut_var(ins.node)))
    return sites, wrapper, arms


def _cut_var(scope: ast.AST) -> str:
    """The local that is cut: the name sliced most often with `[a:b]` slices in the scope."""
    count: dict[str, int] = {}
    for n in walk_no_nested(scope):
        if isinstance(n, ast.Subscript) and isinstance(n.slice, ast.Slice) and isinstance(n.value, ast.Name) and n.slice.step is None:
            count[n.value.id] = count.get(n.value.id, 0) + 1
    if not count or max(count.values()) < 2:
        raise AnalysisError("R09a: no local is cut into slices here any more")
    return max(sorted(count), key=lambda k: count[k])


def r09a(ctx):
    repo = ctx.repo
    ctx.rule("R09a", "where a text node is cut, the slices tile the string and every slice is re-attached", floor=4)
    sites, wrapper, arms = _cut_sites(repo)
    for f, scope, var in sites:
        sl = _slices_of(scope, var)
        bounds = {(lo, hi) for lo, hi, _ in sl}
        ok_t = bool(sl) and _tiles(bounds)
        ctx.instance("R09a", f"{f.file}:{f.ident}", f"slices of {var}: {sorted(bounds, key=str)} tile the string", ok=ok_t, nontrivial=True, line=getattr(scope, "lineno", None))
        if not ok_t:
            ctx.report("R09a", f, scope if isinstance(scope, ast.stmt) else f.node, f"slices of {var}: {sorted(bounds, key=str)}",
                       f"the pieces cut from {var} do not chain [:a][a:b][b:]: a character is dropped or duplicated when the markup is inserted")
        for lo, hi, node in sl:
            names = _holders(scope, node)
            ok_s = bool(names) and _sunk(scope, names)
            ctx.instance("R09a", f"{f.file}:{f.ident}", f"{var}[{lo or ''}:{hi or ''}] held by {sorted(names)} reaches .text/.tail or the wrapped builder", ok=ok_s,
                         nontrivial=True, line=node.lineno)
            if not ok_s:
                ctx.report("R09a", f, node, f"{var}[{lo or ''}:{hi or ''}] not re-attached",
                           f"the piece {var}[{lo or ''}:{hi or ''}] is cut out and never written back: that text disappears from the paragraph")
    # the text is re-read from the live slot, not from the (static) text node, in both arms
    for arm in arms:
        cv = _cut_var(arm)
        defs = [n for n in walk_no_nested(arm) if isinstance(n, ast.Assign) and isinstance(n.targets[0], ast.Name) and n.targets[0].id == cv]
        owners = set()
        shapes = set()
        for d in defs:
            v = d.value
            # `<owner>.text or ""` / `<owner>.tail or ""`
            if isinstance(v, ast.BoolOp) and isinstance(v.op, ast.Or) and isinstance(v.values[0], ast.Attribute) and v.values[0].attr in ("text", "tail") \
                    and isinstance(v.values[-1], ast.Constant) and v.values[-1].value == "":
                owners.add(ast.unparse(v.values[0].value))
                shapes.add(v.values[0].attr)
            else:
                shapes.add("?" + norm(v, 30))
        # the owner is the parent of the text node (the element whose slot holds it), not the node itself
        ok = shapes == {"text", "tail"} and len(owners) == 1 and canon(wrapper, ast.parse(next(iter(owners)), mode="eval").body).endswith(".parent")
        ctx.instance("R09a", f"{wrapper.file}:{wrapper.ident}", f"the string that is cut is read from {sorted(owners)}.{sorted(shapes)}", ok=ok, nontrivial=True, line=arm.lineno)
        if not ok:
            ctx.report("R09a", wrapper, arm, f"cut string sources {sorted(owners)} {sorted(shapes)}", "the string that is cut is not re-read from the container's live text/tail slot")
    # wrapped builders place both pieces
    for q, ctor in (("Paragraph.set_span", "Span"), ("Paragraph.set_link", "Link")):
        f = repo.func(q)
        decorated = any(isinstance(d, ast.Name) and d.id == "_by_regex_offset" for d in f.node.decorator_list)
        calls = [c for c in walk_no_nested(f.node) if isinstance(c, ast.Call) and call_name(c) == ctor]
        uses_match = bool(calls) and any(isinstance(x, ast.Name) and x.id == "match" for c in calls for x in ast.walk(c))
        tails = [n for n in walk_no_nested(f.node) if isinstance(n, ast.Assign) and isinstance(n.targets[0], ast.Attribute) and n.targets[0].attr == "tail"
                 and ast.unparse(n.value) == "tail"]
        rets = [n for n in walk_no_nested(f.node) if isinstance(n, ast.Return) and n.value is not None]
        ok = decorated and uses_match and bool(tails) and bool(rets) and ast.unparse(rets[-1].value) == ast.unparse(tails[0].targets[0].value)
        ctx.instance("R09a", f"{f.file}:{f.ident}", f"{ctor}(…match…), .tail = tail, returned", ok=ok, nontrivial=True)
        if not ok:
            ctx.report("R09a", f, f.node, f"{q} does not place match and tail",
                       f"{q} must wrap `match` in the new {ctor} and hang `tail` after it: otherwise the matched text or the text after it is lost")
    # the wrapper hands (match, tail) to the builder in that order
    for arm in arms:
        cv = _cut_var(arm)
        sl = _slices_of(arm, cv)
        mid = [node for lo, hi, node in sl if lo is not None and hi is not None]
        last = [node for lo, hi, node in sl if lo is not None and hi is None]
        hm = _holders(arm, mid[0]) if mid else set()
        hl = _holders(arm, last[0]) if last else set()
        mc = [c for c in walk_no_nested(arm) if isinstance(c, ast.Call) and call_name(c) == "method"]
        wp = [a.arg for a in wrapper.all_params()]
        ok = bool(mc) and len(mc[0].args) >= 3 and isinstance(mc[0].args[0], ast.Name) and mc[0].args[0].id == (wp[0] if wp else "element") \
            and isinstance(mc[0].args[1], ast.Name) and mc[0].args[1].id in hm and isinstance(mc[0].args[2], ast.Name) and mc[0].args[2].id in hl
        ctx.instance("R09a", f"{wrapper.file}:{wrapper.ident}", "method(element, <matched piece>, <piece after it>, …)", ok=ok, line=arm.lineno)
        if not ok:
            ctx.report("R09a", wrapper, arm, "method(…) argument order", "the wrapped builder does not receive (element, match, tail) in that order")


def r09b(ctx):
    repo = ctx.repo
    ctx.rule("R09b", "write-back follows the text node's own slot: .text + first child under is_text, .tail + next sibling otherwise", floor=3)
    wrapper = [f for f in repo.module("paragraph").all_funcs if f.kind == "nested" and f.name == "wrapper" and "_by_regex_offset" in f.qualname][0]
    ins = repo.func("Element._insert")
    for f in (wrapper, ins):
        for n in walk_no_nested(f.node):
            if not (isinstance(n, ast.If) and n.orelse):
                continue
            # the test is the text node's own slot predicate: `<x>.is_text()` itself or a local defined from it (possibly negated, arms swapped)
            from ..paths import if_arms
            core, arm_t, arm_f = if_arms(n)
            tc = canon(f, core)
            if not (tc.endswith(".is_text") or tc.endswith(".is_text()")):
                continue
            stores_t = [a.targets[0] for s in arm_t for a in ast.walk(s) if isinstance(a, ast.Assign) and isinstance(a.targets[0], ast.Attribute) and a.targets[0].attr in ("text", "tail")]
            stores_f = [a.targets[0] for s in arm_f for a in ast.walk(s) if isinstance(a, ast.Assign) and isinstance(a.targets[0], ast.Attribute) and a.targets[0].attr in ("text", "tail")]
            if not stores_t and not stores_f:
                continue  # the read arm (text_str = …) is checked by R09a
            # one owner: the element whose .text is written in the true arm and whose .tail is written in the false arm
            owners_t = {ast.unparse(x.value) for x in stores_t if x.attr == "text"}
            owners_f = {ast.unparse(x.value) for x in stores_f if x.attr == "tail"}
            cont = owners_t & owners_f
            c = next(iter(cont)) if len(cont) == 1 else None
            ok = c is not None and not any(x.attr == "tail" and ast.unparse(x.value) == c for x in stores_t) \
                and not any(x.attr == "text" and ast.unparse(x.value) == c for x in stores_f)
            # placement of the new element
            calls_t = [x for s in arm_t for x in ast.walk(s) if isinstance(x, ast.Call) and call_name(x) == "insert"]
            calls_f = [x for s in arm_f for x in ast.walk(s) if isinstance(x, ast.Call) and call_name(x) in ("insert", "addnext")]
            first = any((repo.fold(get_arg(x, None, "position"), f.module) == 0) or (x.args and repo.fold(x.args[0], f.module) == 0) for x in calls_t)

            def after_owner(x):
                # addnext on the owner, or insert(…, position=<index of the owner in its parent> + 1)
                if call_name(x) == "addnext":
                    return True
                pos = get_arg(x, 1, "position")
                if isinstance(pos, ast.BinOp) and isinstance(pos.op, ast.Add) and isinstance(pos.right, ast.Constant) and pos.right.value == 1:
                    base = canon(f, pos.left)
                    return ".index(" in base and c is not None and c in base
                return False

            nxt = any(after_owner(x) for x in calls_f)
            okp = first and nxt
            ctx.instance("R09b", f"{f.file}:{f.ident}", f"is_text arm writes {c}.text and inserts first child; else arm writes {c}.tail and inserts next sibling",
                         ok=ok and okp, nontrivial=True, line=n.lineno)
            if not ok:
                ctx.report("R09b", f, n, f"slots written: true-arm {[ast.unparse(x) for x in stores_t]} false-arm {[ast.unparse(x) for x in stores_f]}",
                           "the text before the new element is not written back into the slot the text node came from (.text under is_text, .tail otherwise)")
            elif not okp:
                ctx.report("R09b", f, n, "placement of the new element",
                           "the new element is not inserted as first child (text slot) / as next sibling (tail slot): text and markup swap places")
    if ctx.rules["R09b"].instances < 3:
        raise AnalysisError("R09b: is_text write-back pairs not found")


def r09c(ctx):
    repo = ctx.repo
    ctx.rule("R09c", "removing an element keeps its tail; stripping tags re-attaches text, children and tail in order", floor=6)
    f = repo.func("Element.delete")
    blk = None
    for n in walk_no_nested(f.node):
        if isinstance(n, ast.If) and "keep_tail" in ast.unparse(n.test):
            blk = n
    if blk is None:
        ctx.instance("R09c", f"{f.file}:{f.ident}", "keep_tail is honoured", ok=False)
        ctx.report("R09c", f, f.node, "Element.delete ignores keep_tail", "Element.delete no longer has a branch that keeps the tail of the removed node")
        return
    # roles by definition: the tail string (read from a `.tail`), the previous sibling (`.getprevious()`), the parent (receiver of `.remove(`)
    tailvar = prevvar = None
    for s_ in blk.body:
        if isinstance(s_, ast.Assign) and isinstance(s_.targets[0], ast.Name):
            if any(isinstance(x, ast.Attribute) and x.attr == "tail" for x in ast.walk(s_.value)):
                tailvar = s_.targets[0].id
            if isinstance(s_.value, ast.Call) and call_name(s_.value) == "getprevious":
                prevvar = s_.targets[0].id
    rm_recv = [ast.unparse(c.func.value) for c in walk_no_nested(f.node) if isinstance(c, ast.Call) and call_name(c) == "remove" and isinstance(c.func, ast.Attribute)]
    inner = [n for n in blk.body if isinstance(n, ast.If)]
    ok = tailvar is not None and prevvar is not None and bool(inner) and bool(rm_recv)
    if ok:
        top = inner[-1]

        from ..paths import if_arms

        def arm_ok(body, slot_attr, owner_text):
            """`if <owner>.<slot> is None: <owner>.<slot> = tail else: <owner>.<slot> += tail`, in either orientation"""
            sub = [n for n in body if isinstance(n, ast.If)]
            if not sub:
                return False
            core, when_t, when_f = if_arms(sub[0])
            is_none = isinstance(core, ast.Compare) and len(core.ops) == 1 and isinstance(core.comparators[0], ast.Constant) and core.comparators[0].value is None
            if not is_none:
                return False
            if isinstance(core.ops[0], ast.IsNot):
                when_t, when_f = when_f, when_t
            elif not isinstance(core.ops[0], ast.Is):
                return False
            a_, b_ = when_t, when_f  # a_: slot empty → plain store; b_: slot filled → append
            st = [x for x in a_ if isinstance(x, ast.Assign)] + [x for x in b_ if isinstance(x, (ast.AugAssign, ast.Assign))]
            if len(st) != 2:
                return False
            for x in st:
                tgt = x.targets[0] if isinstance(x, ast.Assign) else x.target
                if not (isinstance(tgt, ast.Attribute) and tgt.attr == slot_attr and ast.unparse(tgt.value) == owner_text):
                    return False
                if ast.unparse(x.value) != tailvar:
                    return False
            return isinstance(st[1], ast.AugAssign) and isinstance(st[1].op, ast.Add)

        t, top_t, top_f = if_arms(top)
        has_prev = isinstance(t, ast.Compare) and len(t.ops) == 1 and isinstance(t.left, ast.Name) and t.left.id == prevvar \
            and isinstance(t.comparators[0], ast.Constant) and t.comparators[0].value is None
        if has_prev and isinstance(t.ops[0], ast.Is):
            top_t, top_f = top_f, top_t  # `if prev is None: → parent.text else: → prev.tail`
        elif has_prev and not isinstance(t.ops[0], ast.IsNot):
            has_prev = False
        ok = has_prev and arm_ok(top_t, "tail", prevvar) and arm_ok(top_f, "text", rm_recv[0])
    ctx.instance("R09c", f"{f.file}:{f.ident}", "tail → prev.tail (=/+=) when a previous sibling exists, else → parent.text (=/+=)", ok=ok, nontrivial=True, line=blk.lineno)
    if not ok:
        ctx.report("R09c", f, blk, "keep_tail arms", "Element.delete(keep_tail=True) does not move the removed node's tail into prev.tail or parent.text on every path: "
                   "the text after the deleted element disappears")
    rm = [c for c in walk_no_nested(f.node) if isinstance(c, ast.Call) and call_name(c) == "remove"]
    okr = bool(rm) and rm[0].lineno > blk.end_lineno and not structural_guards(rm[0], stop=f.node)
    ctx.instance("R09c", f"{f.file}:{f.ident}", "remove() after the tail was moved, unconditionally", ok=okr)
    if not okr:
        ctx.report("R09c", f, f.node, "remove before tail move", "the node is removed before/without its tail being moved")
    d = f.defaults().get("keep_tail")
    okd = isinstance(d, ast.Constant) and d.value is True
    ctx.instance("R09c", f"{f.file}:{f.ident}", "keep_tail defaults to True", ok=okd)
    if not okd:
        ctx.report("R09c", f, f.node, "keep_tail default", "deleting an element drops the following text by default")
    # _strip_tags: a small source-tracking dataflow (which of text / children / tail of the clone flow where), so that the
    # rule survives refactorings of the function
    g = repo.func("Element._strip_tags")
    src: dict[str, list[str]] = {}  # local name -> ordered list of sources it holds

    def sources(e: ast.expr) -> list[str]:
        out = []
        for x in ast.walk(e):
            if isinstance(x, ast.Attribute) and x.attr in ("text", "tail", "children") and isinstance(x.value, ast.Name) and x.value.id not in ("self",):
                if x.attr not in out:
                    out.append(x.attr)
            elif isinstance(x, ast.Call) and call_name(x) == "_strip_tags":
                if "children" not in out:
                    out.append("children")  # a stripped child (or the list of pieces it dissolved into) stands where the child stood
            elif isinstance(x, ast.Name) and x.id in src:
                for s_ in src[x.id]:
                    if s_ not in out:
                        out.append(s_)
        return out

    events = []  # (line, kind, detail)
    stmts = sorted([n for n in walk_no_nested(g.node) if isinstance(n, (ast.Assign, ast.AnnAssign, ast.Expr, ast.For, ast.Return))], key=lambda n: n.lineno)
    for _pass in range(2):  # second pass: loop-carried flows (a list filled in a loop and read later is complete after one pass; names bound late need two)
        events = []
        for n in stmts:
            if isinstance(n, (ast.Assign, ast.AnnAssign)):
                tgt = n.targets[0] if isinstance(n, ast.Assign) else n.target
                val = n.value
                if val is None:
                    continue
                if isinstance(tgt, ast.Name):
                    ss = sources(val)
                    if ss:
                        src[tgt.id] = ss
                    elif isinstance(val, (ast.List,)) and not val.elts:
                        src.setdefault(tgt.id, [])
                elif isinstance(tgt, (ast.Tuple, ast.List)):
                    ss = sources(val)
                    for t_ in tgt.elts:
                        if isinstance(t_, ast.Name) and ss and t_ is tgt.elts[0]:
                            src[t_.id] = ss  # (piece, modified-flag): the piece is the first element
                elif isinstance(tgt, ast.Attribute) and tgt.attr == "tail" and isinstance(tgt.value, ast.Name):
                    events.append((n.lineno, "tail=", (tgt.value.id, sources(val))))
            elif isinstance(n, ast.Expr) and isinstance(n.value, ast.Call) and isinstance(n.value.func, ast.Attribute) and isinstance(n.value.func.value, ast.Name):
                c = n.value
                recv, m = c.func.value.id, c.func.attr
                if m in ("append", "extend") and c.args:
                    ss = sources(c.args[0])
                    src.setdefault(recv, [])
                    for s_ in ss:
                        if s_ not in src[recv]:
                            src[recv].append(s_)
                elif m in ("__append", "_Element__append") and c.args:
                    events.append((n.lineno, "rebuild-append", (recv, sources(c.args[0]))))
                elif m == "clear":
                    events.append((n.lineno, "clear", recv))
            elif isinstance(n, ast.For) and isinstance(n.target, ast.Name):
                ss = sources(n.iter)
                if ss:
                    src[n.target.id] = ss
            elif isinstance(n, ast.Return) and isinstance(n.value, ast.Tuple) and n.value.elts and isinstance(n.value.elts[0], ast.Name):
                events.append((n.lineno, "return", (n.value.elts[0].id, list(src.get(n.value.elts[0].id, [])))))
    dropped = [d for ln, k, d in events if k == "return" and d[1]]
    ok1 = bool(dropped) and all(d[1] == ["text", "children", "tail"] for d in dropped)
    ctx.instance("R09c", f"{g.file}:{g.ident}", f"a dropped tag hands back {[d[1] for d in dropped]} (text, children, tail in order)", ok=ok1, nontrivial=True)
    if not ok1:
        ctx.report("R09c", g, g.node, f"dropped tag returns {[d[1] for d in dropped]}", "a stripped tag does not hand back its text, every child and its tail in document order")
    clears = [d for ln, k, d in events if k == "clear"]
    okk = True
    detail = []
    for ln, k, recv in [e for e in events if e[1] == "clear"]:
        apps = [d[1] for l2, k2, d in events if k2 == "rebuild-append" and d[0] == recv and l2 > ln]
        flat = [x for a_ in apps for x in a_]
        tails = [d for l2, k2, d in events if k2 == "tail=" and d[0] == recv and l2 > ln and "tail" in d[1]]
        good = flat[:2] == ["text", "children"] and bool(tails)
        detail.append((recv, flat, bool(tails)))
        okk = okk and good
    okk = okk and bool(clears)
    ctx.instance("R09c", f"{g.file}:{g.ident}", f"a kept element is cleared and rebuilt from text, children, and its tail restored: {detail}", ok=okk, nontrivial=True)
    if not okk:
        ctx.report("R09c", g, g.node, f"rebuild after clear(): {detail}",
                   "a kept element is cleared (lxml clear() also wipes the tail) and not rebuilt from its text, its children and its own tail: "
                   "the text following a kept inline element is lost when a tag inside it is stripped")
    # the wrapper that builds a default paragraph appends every piece
    h = repo.func("Element.strip_tags")
    loop = [n for n in walk_no_nested(h.node) if isinstance(n, ast.For)]
    okw = False
    detail = "no loop"
    if loop:
        stores = [a for a in ast.walk(loop[0]) if isinstance(a, ast.Assign) and isinstance(a.targets[0], ast.Attribute) and a.targets[0].attr in ("text", "tail")]
        apps = [c for c in ast.walk(loop[0]) if isinstance(c, ast.Call) and call_name(c) in ("__append", "append", "_Element__append")]
        okw = not stores and bool(apps)
        detail = f"{len(apps)} append(s), {len(stores)} overwriting store(s)"
    ctx.instance("R09c", f"{h.file}:{h.ident}", f"pieces of a stripped top element are appended to the new paragraph ({detail})", ok=okw, nontrivial=True)
    if not okw:
        ctx.report("R09c", h, loop[0] if loop else h.node, "strip_tags: new.text = content overwrites",
                   "when the element itself is stripped, each text piece is assigned to new.text instead of appended: every string but the last is lost "
                   "and text moves in front of the children")
    # strip_elements marks the elements and delegates to strip_tags
    k = repo.func("Element.strip_elements")
    okk = any(isinstance(c, ast.Call) and call_name(c) == "strip_tags" for c in walk_no_nested(k.node))
    ctx.instance("R09c", f"{k.file}:{k.ident}", "strip_elements delegates to strip_tags", ok=okk)
    if not okk:
        ctx.report("R09c", k, k.node, "strip_elements", "strip_elements no longer goes through strip_tags")


def _nonneg(e: ast.expr, site: ast.AST, scope: ast.AST, depth: int = 0) -> bool:
    """Sign analysis, one bit: is the integer `e`, evaluated at statement `site`, provably >= 0?

    len() and non-negative constants are; min() is if all arguments are, max() if one is; sums and products of non-negatives are; a name is
    if the tests in force at the site say so (`x > 0`, `x >= 0`, `x > c` with c >= 0), or if every definition of it reaching the site (reaching definitions on the CFG; a
    parameter or a possibly unbound name does not qualify) assigns a provably non-negative value.  A difference is not (nothing here bounds it)."""
    if depth > 6:
        return False
    if isinstance(e, ast.Constant):
        return isinstance(e.value, int) and not isinstance(e.value, bool) and e.value >= 0
    if isinstance(e, ast.Call):
        nm = call_name(e)
        if nm == "len" and isinstance(e.func, ast.Name):
            return True
        if nm == "min" and isinstance(e.func, ast.Name) and e.args and not e.keywords:
            return all(_nonneg(a, site, scope, depth + 1) for a in e.args)
        if nm == "max" and isinstance(e.func, ast.Name) and e.args and not e.keywords:
            return any(_nonneg(a, site, scope, depth + 1) for a in e.args)
        if nm == "abs" and isinstance(e.func, ast.Name):
            return True
        return False
    if isinstance(e, ast.BinOp) and isinstance(e.op, (ast.Add, ast.Mult)):
        return _nonneg(e.left, site, scope, depth + 1) and _nonneg(e.right, site, scope, depth + 1)
    if isinstance(e, ast.IfExp):
        return _nonneg(e.body, site, scope, depth + 1) and _nonneg(e.orelse, site, scope, depth + 1)
    if isinstance(e, ast.Name):
        for t, pol in structural_guards(site):
            if isinstance(t, ast.Compare) and len(t.ops) == 1:
                l, op, r = t.left, t.ops[0], t.comparators[0]
                if isinstance(l, ast.Name) and l.id == e.id and isinstance(r, ast.Constant) and isinstance(r.value, int) and r.value >= 0:
                    if (pol and isinstance(op, (ast.Gt, ast.GtE))) or (not pol and isinstance(op, ast.Lt) and r.value >= 0) or (not pol and isinstance(op, ast.LtE)):
                        return True
                if isinstance(r, ast.Name) and r.id == e.id and isinstance(l, ast.Constant) and isinstance(l.value, int) and l.value >= 0:
                    if (pol and isinstance(op, (ast.Lt, ast.LtE))) or (not pol and isinstance(op, (ast.Gt, ast.GtE))):
                        return True
        cfg = scope if isinstance(scope, CFG) else None
        if cfg is None:
            return False
        sn = node_of(cfg, site)
        if sn is None:
            return False
        rd = reaching_defs(cfg, e.id).get(sn.id, frozenset())
        byid = {n.id: n for n in cfg.nodes}
        if not rd or cfg.entry.id in rd:
            return False  # a parameter, or possibly unbound
        for d in rd:
            st = byid[d].stmt
            if st is site and depth > 0:
                return False
            if not (isinstance(st, ast.Assign) and len(st.targets) == 1 and isinstance(st.targets[0], ast.Name)):
                return False
            if not _nonneg(st.value, st, scope, depth + 1):
                return False
        return True
    return False


def r09d(ctx, sites):
    """[:a] [a:b] [b:] tile the string only when a <= b.

    Python slicing does not complain about b < a: `s[:a] + s[a:b] + s[b:]` then repeats s[b:a].  So where a text node is cut in three, the
    upper cut must not precede the lower one: either both come from a regex match span, or b is a plus a length that is provably not
    negative (one-bit sign analysis over the definitions and the tests in force)."""
    ctx.rule("R09d", "three-way cuts are ordered: the end of the cut is its start plus a provably non-negative length (or both are a match span)", floor=2)
    n = 0
    for f, scope, var in sites:
        sl = _slices_of(scope, var)
        mids = [(lo, hi, node) for lo, hi, node in sl if lo is not None and hi is not None]
        for lo, hi, node in mids:
            if not (isinstance(node.slice.lower, ast.Name) and isinstance(node.slice.upper, ast.Name)):
                raise AnalysisError(f"R09d: cut bounds of {var} in {f.ident} are no longer plain locals")
            a, b = node.slice.lower.id, node.slice.upper.id
            bdefs = [x for x in walk_no_nested(scope) if isinstance(x, ast.Assign) and any(b in {y.id for y in ast.walk(t) if isinstance(y, ast.Name)} for t in x.targets)]
            n += 1
            if len(bdefs) != 1:
                raise AnalysisError(f"R09d: `{b}` has {len(bdefs)} definitions in {f.ident}: cut order not decidable by this rule")
            d = bdefs[0]
            tg = d.targets[0]
            if isinstance(tg, ast.Tuple) and [getattr(x, "id", None) for x in tg.elts] == [a, b] and isinstance(d.value, ast.Call) and call_name(d.value) == "span":
                ctx.instance("R09d", f"{f.file}:{f.ident}", f"{var}[{a}:{b}]: both bounds are the span of one regex match", ok=True, line=d.lineno)
                continue
            v = d.value
            length = None
            if isinstance(tg, ast.Name) and isinstance(v, ast.BinOp) and isinstance(v.op, ast.Add):
                if isinstance(v.left, ast.Name) and v.left.id == a:
                    length = v.right
                elif isinstance(v.right, ast.Name) and v.right.id == a:
                    length = v.left
            if length is None:
                raise AnalysisError(f"R09d: `{norm(d, 40)}` in {f.ident} is not `{a} + length`: cut order not decidable by this rule")
            cfg = cfg_of(f)
            ok = _nonneg(length, d, cfg)
            ctx.instance("R09d", f"{f.file}:{f.ident}", f"{var}[{a}:{b}]: {norm(d, 40)} with `{norm(length, 20)}` provably >= 0", ok=ok, nontrivial=True, line=d.lineno)
            if not ok:
                ldefs = [x for x in walk_no_nested(scope) if isinstance(x, ast.Assign) and isinstance(length, ast.Name)
                         and any(isinstance(t, ast.Name) and t.id == length.id for t in x.targets) and not _nonneg(x.value, x, cfg)]
                at = ldefs[-1] if ldefs else d
                ctx.report("R09d", f, at, f"{norm(at, 60)} can make `{norm(length, 20)}` negative, so {var}[{a}:{b}] can end before it starts",
                           f"the cut [:{a}] [{a}:{b}] [{b}:] of the text node only tiles it when {a} <= {b}; `{norm(length, 20)}` is not provably non-negative "
                           f"(`{norm(at.value, 40)}`), and with {b} < {a} the characters between them are written twice: inserting markup changes the text")
    if n == 0:
        raise AnalysisError("R09d: no three-way cut of a text node found")


def r09e(ctx):
    """What is inserted by position is a new element, never one taken out of the tree.

    lxml moves a node together with its tail: inserting an element that already sits in the paragraph drags the text that followed it along
    (and `Element._insert` then overwrites that tail with the text after the new position, so the dragged text is gone).  The insertion
    helpers of Paragraph therefore build a fresh element — or delete the old one first, which re-attaches its tail.  Rule: the element
    handed to `self._insert(…)` is, on every path (reaching definitions), the result of a constructor call or a parameter; a node looked up
    in the tree (get_*/xpath/children …) is a violation.
    """
    repo = ctx.repo
    ctx.rule("R09e", "the element handed to _insert() is newly built (or a caller's), not a node already in the tree", floor=8)
    n = 0
    for cname in ("Paragraph", "Element", "ParagraphBase"):
        c = repo.find_class(cname)
        if c is None:
            continue
        for name, fs in c.methods.items():
            f = fs[0]
            calls_ = [x for x in walk_no_nested(f.node) if isinstance(x, ast.Call) and call_name(x) == "_insert" and is_self_attr(x.func) and x.args]
            if not calls_:
                continue
            cfg = cfg_of(f)
            params = {a.arg for a in f.all_params()}
            byid = {nd.id: nd for nd in cfg.nodes}
            for x in calls_:
                e = x.args[0]
                n += 1
                bad = None
                if isinstance(e, ast.Name):
                    for d in reaching_defs(cfg, e.id).get(node_of(cfg, x).id, frozenset()):
                        if d == cfg.entry.id:
                            if e.id not in params:
                                bad = "possibly unbound"
                            continue
                        st = byid[d].stmt
                        v = st.value if isinstance(st, (ast.Assign, ast.AnnAssign)) else None
                        built = isinstance(v, ast.Call) and isinstance(v.func, ast.Name) and v.func.id[:1].isupper()
                        from_param = isinstance(v, ast.Name) and v.id in params
                        cloned = isinstance(v, ast.Attribute) and v.attr == "clone"
                        if not (built or from_param or cloned):
                            bad = norm(st, 50)
                elif not (isinstance(e, ast.Call) and isinstance(e.func, ast.Name) and e.func.id[:1].isupper()):
                    bad = norm(e, 50)
                ctx.instance("R09e", f"{f.file}:{f.ident}", f"_insert({norm(e, 25)}, …): " + ("newly built / caller's element" if bad is None else f"may be a node of the tree ({bad})"),
                             ok=bad is None, nontrivial=True, line=x.lineno)
                if bad is not None:
                    ctx.report("R09e", f, x, f"_insert({norm(e, 30)}, …) where `{norm(e, 20)}` comes from `{bad}`",
                               f"{cname}.{name} inserts an element that may already sit in the tree: lxml moves it with its tail, so the text that followed the old position "
                               f"is dragged along and then overwritten — the paragraph loses text although only markup was meant to move")
    if n == 0:
        raise AnalysisError("R09e: no _insert() call found")


def r09f(ctx):
    """The n-th occurrence is counted over all text nodes, and both ends of a range are placed by the same address.

    (1) `Element._search_positive_position` walks the text nodes and must *accumulate* the matches seen so far: the node that holds
    occurrence number `position` is the first where seen + found >= position + 1, and the occurrence inside it is number position - seen.
    (2) The range forms (bookmark, reference mark, annotation around `content`) insert a start element `before=content` and an end element
    `after=content`; both insertions must address the same occurrence: same `position`, same `main_text`.
    """
    from ..shape import find, has
    repo = ctx.repo
    ctx.rule("R09f", "occurrence counting accumulates over the text nodes; start and end of a range use the same occurrence address", floor=4)
    f = repo.func("Element._search_positive_position")
    loops = [n for n in walk_no_nested(f.node) if isinstance(n, ast.For)]
    ok = False
    why = "no loop over the text nodes"
    if loops:
        lp = loops[0]
        per_node = [a for a in ast.walk(lp) if isinstance(a, ast.Assign) and isinstance(a.targets[0], ast.Name) and isinstance(a.value, ast.Call) and call_name(a.value) == "len"
                    and any(isinstance(x, ast.Call) and call_name(x) == "findall" for x in ast.walk(a.value))]
        accs = [a for a in ast.walk(lp) if isinstance(a, ast.AugAssign) and isinstance(a.op, ast.Add) and isinstance(a.target, ast.Name)
                and per_node and isinstance(a.value, ast.Name) and a.value.id == per_node[0].targets[0].id]
        resets = [a for a in ast.walk(lp) if isinstance(a, ast.Assign) and accs and isinstance(a.targets[0], ast.Name) and a.targets[0].id == accs[0].target.id]
        if not per_node:
            why = "no per-node match count"
        elif not accs or resets:
            why = "the count of the earlier text nodes is not accumulated with += (or is overwritten)"
        else:
            cv, nv = accs[0].target.id, per_node[0].targets[0].id
            init = [a for a in walk_no_nested(f.node) if isinstance(a, ast.Assign) and isinstance(a.targets[0], ast.Name) and a.targets[0].id == cv and a.lineno < lp.lineno]
            brk = has(lp, f"if {nv} + {cv} >= position + 1:\n    break") or has(lp, f"if {cv} + {nv} >= position + 1:\n    break") or has(lp, f"if {nv} + {cv} > position:\n    break") \
                or has(lp, f"if {cv} + {nv} > position:\n    break")
            idx = bool(find(f.node, f"X_[position - {cv}]"))
            ok = bool(init) and repo.fold(init[0].value, f.module) == 0 and brk and idx
            why = f"init 0={bool(init)}, stop test={brk}, index position - {cv}={idx}"
    ctx.instance("R09f", f"{f.file}:{f.ident}", f"matches seen so far accumulate over the text nodes ({why})", ok=ok, nontrivial=True, line=f.node.lineno)
    if not ok:
        ctx.report("R09f", f, loops[0] if loops else f.node, f"occurrence counting: {why}",
                   "the helper that finds occurrence number `position` of a pattern does not add up the matches of the earlier text nodes: in a paragraph already split by "
                   "spans or marks the element is inserted at a later occurrence than the one addressed, or the address is reported as not found after the start mark of a "
                   "range was already inserted")
    # (2) start / end of a range
    para = repo.cls("Paragraph")
    for name, fs in sorted(para.methods.items()):
        g = fs[0]
        ins = [c for c in walk_no_nested(g.node) if isinstance(c, ast.Call) and call_name(c) == "_insert"]
        kw = lambda c, k: next((ast.unparse(x.value) for x in c.keywords if x.arg == k), None)  # noqa: E731
        for b in [c for c in ins if kw(c, "before") is not None]:
            for a in [c for c in ins if kw(c, "after") is not None and kw(c, "after") == kw(b, "before")]:
                same = kw(a, "position") == kw(b, "position") and kw(a, "main_text") == kw(b, "main_text")
                ctx.instance("R09f", f"{g.file}:{g.ident}", f"start (before={kw(b, 'before')}, position={kw(b, 'position')}) and end (after=…, position={kw(a, 'position')}) address one occurrence",
                             ok=same, nontrivial=True, line=a.lineno)
                if not same:
                    ctx.report("R09f", g, a, f"{norm(a, 70)} vs {norm(b, 70)}",
                               f"Paragraph.{name} places the start of the range with position={kw(b, 'position')}, main_text={kw(b, 'main_text')} and its end with "
                               f"position={kw(a, 'position')}, main_text={kw(a, 'main_text')}: for any occurrence but the default one the end lands on another match than the start")


def r09g(ctx):
    """delete(child) is asked of the element the child was found under.

    `Element.delete(child)` first moves the child's tail to the previous sibling — or, when there is none, into the *receiver's* own text —
    and then asks lxml to remove the child from the receiver.  With a receiver that is not the child's parent the tail lands in the wrong
    element and the removal raises afterwards, leaving the paragraph half modified (text moved, both marks still there).  Rule over every
    `P.delete(C)` of the package: C is a parameter handed through, or P is `C.parent`, or C was looked up / iterated under the same P;
    a C obtained from a lookup on another element than P is reported (self-deletion `C.delete()` finds the parent itself).
    """
    from ..paths import canon
    repo = ctx.repo
    ctx.rule("R09g", "P.delete(C): C was found under P (or P is C.parent, or C is handed through)", floor=20)
    for f in repo.all_funcs():
        if f.kind == "nested" or "/scripts/" in f.file:
            continue
        params = {a.arg for a in f.all_params()}
        for c in walk_no_nested(f.node):
            if not (isinstance(c, ast.Call) and isinstance(c.func, ast.Attribute) and c.func.attr == "delete" and c.args and isinstance(c.args[0], ast.Name)):
                continue
            child, recv = c.args[0].id, c.func.value
            if isinstance(recv, ast.Call) and call_name(recv) == "super":
                rtxt = "self"
            else:
                rtxt = canon(f, recv)
            verdict, why = "undetermined", ""
            if child in params:
                verdict = "ok"
            elif isinstance(recv, ast.Attribute) and recv.attr == "parent" and isinstance(recv.value, ast.Name) and recv.value.id == child:
                verdict = "ok"
            else:
                srcs = []
                for st in walk_no_nested(f.node):
                    if isinstance(st, ast.Assign) and any(isinstance(t, ast.Name) and t.id == child for t in st.targets):
                        srcs.append(st.value)
                    elif isinstance(st, (ast.For, ast.comprehension)) and isinstance(st.target, ast.Name) and st.target.id == child:
                        srcs.append(st.iter)
                    elif isinstance(st, ast.For) and isinstance(st.target, ast.Tuple) and any(isinstance(e, ast.Name) and e.id == child for e in st.target.elts):
                        srcs.append(st.iter)
                roots = set()
                for e in srcs:
                    while isinstance(e, ast.Call) and call_name(e) in ("list", "reversed", "enumerate", "tuple", "sorted") and e.args:
                        e = e.args[0]
                    if isinstance(e, ast.Call) and isinstance(e.func, ast.Attribute):
                        roots.add(canon(f, e.func.value))
                    elif isinstance(e, ast.Attribute):
                        roots.add(canon(f, e.value))
                    elif isinstance(e, ast.Subscript) and isinstance(e.value, (ast.Attribute, ast.Call)):
                        v = e.value.func.value if isinstance(e.value, ast.Call) and isinstance(e.value.func, ast.Attribute) else e.value.value if isinstance(e.value, ast.Attribute) else None
                        if v is not None:
                            roots.add(canon(f, v))
                if roots and roots == {rtxt}:
                    verdict = "ok"
                elif roots == {"self"} and rtxt.startswith("self."):
                    verdict = "undetermined"  # a helper of self that searches under an attribute of self (XmlPart.root …)
                elif roots and rtxt not in roots:
                    verdict, why = "bad", f"`{child}` is looked up under {sorted(roots)}, not under `{rtxt}`"
            ctx.instance("R09g", f"{f.file}:{f.ident}", f"{norm(c, 40)}: {verdict}", ok=verdict != "bad", nontrivial=verdict != "undetermined", line=c.lineno)
            if verdict == "bad":
                ctx.report("R09g", f, c, norm(c, 60),
                           f"{f.ident} asks `{rtxt}` to delete `{child}`, but {why}: when `{child}` is not a direct child of `{rtxt}`, delete() moves its tail text into the wrong element "
                           f"and the removal then fails, leaving text displaced and the markup in place")


def r09h(ctx):
    """The n-th occurrence is taken from the list of all occurrences in the node.

    A regex-addressed mark names an occurrence by number; -1 is the last one.  The helpers first choose the text node, then the match
    inside it: `list(regex.finditer(text))[k]`.  `regex.search(text)` is occurrence number 0 of that node — right only when the node holds
    a single match, which is all the tests try.  Rule: in `_search_negative_position` / `_search_positive_position` the match that is
    returned is a subscript of the finditer list of the chosen node; for the negative helper the subscript is -1.
    """
    repo = ctx.repo
    ctx.rule("R09h", "the position helpers return list(regex.finditer(node))[k] — the last match for a negative position — never the first match of search()", floor=2)
    for q, neg in (("Element._search_negative_position", True), ("Element._search_positive_position", False)):
        f = repo.func(q)
        rets = [r.value for r in walk_no_nested(f.node) if isinstance(r, ast.Return) and isinstance(r.value, ast.Tuple) and len(r.value.elts) == 2]
        if not rets:
            raise AnalysisError(f"R09h: {q} no longer returns (text, match)")
        for rv in rets:
            m = rv.elts[1]
            for _ in range(3):
                if isinstance(m, ast.Name):
                    ds = [a.value for a in walk_no_nested(f.node) if isinstance(a, (ast.Assign, ast.NamedExpr)) and (
                        any(isinstance(t, ast.Name) and t.id == m.id for t in a.targets) if isinstance(a, ast.Assign) else a.target.id == m.id)]
                    if len({ast.dump(d) for d in ds}) == 1:
                        m = ds[0]
                        continue
                break
            base = m.value if isinstance(m, ast.Subscript) else None
            if isinstance(base, ast.Name):
                ds = [a.value for a in walk_no_nested(f.node) if isinstance(a, ast.Assign) and any(isinstance(t, ast.Name) and t.id == base.id for t in a.targets)]
                base = ds[0] if len(ds) == 1 else base
            is_sub = base is not None and any(isinstance(c, ast.Call) and call_name(c) == "finditer" for c in ast.walk(base))
            ok = is_sub and (not neg or (isinstance(m.slice, ast.UnaryOp) and isinstance(m.slice.op, ast.USub) and isinstance(m.slice.operand, ast.Constant) and m.slice.operand.value == 1))
            ctx.instance("R09h", f"{f.file}:{f.ident}", f"returns `{norm(m, 50)}`", ok=ok, nontrivial=True, line=rv.lineno)
            if not ok:
                ctx.report("R09h", f, rv, f"{f.name} returns {norm(m, 50)}",
                           f"{f.name} hands back `{norm(m, 40)}` as the match: " + ("search()/match() give the FIRST occurrence in the node" if not is_sub else "not the last entry of the finditer list") +
                           f" — with several occurrences in the chosen text node a mark asked for at position {'-1' if neg else 'k'} is placed on another occurrence than the one addressed")


def r09i(ctx):
    """lxml's remove() takes the tail along — only Element.delete may call it.

    In lxml the text that follows an element belongs to that element (`.tail`); `parent.remove(node)` drops it with the node.
    Element.delete() is the one place that knows: it moves the tail to the previous sibling or to the parent's text first (R09c).  Any
    other direct `remove()` of a node of the tree loses the text after the markup that is being removed.  Rule (one site expected): in the
    element modules, a call `<x>.remove(<y>)` on lxml nodes occurs only inside Element.delete; removing from plain Python lists is not
    concerned (receiver known to be a list / the result of list()).
    """
    repo = ctx.repo
    ctx.rule("R09i", "raw lxml remove() (which drops the tail text with the node) is called only by Element.delete", floor=1)
    n_ok = 0
    for f in repo.all_funcs():
        if "/scripts/" in f.file:
            continue
        listy = {a.targets[0].id for a in walk_no_nested(f.node) if isinstance(a, ast.Assign) and len(a.targets) == 1 and isinstance(a.targets[0], ast.Name)
                 and (isinstance(a.value, (ast.List, ast.ListComp)) or isinstance(a.value, ast.Call) and call_name(a.value) in ("list", "sorted"))}
        for c in walk_no_nested(f.node):
            if not (isinstance(c, ast.Call) and isinstance(c.func, ast.Attribute) and c.func.attr == "remove" and len(c.args) == 1):
                continue
            recv = c.func.value
            if isinstance(recv, ast.Name) and recv.id in listy:
                continue
            lxmlish = any(isinstance(x, ast.Attribute) and x.attr.endswith("__element") for x in ast.walk(c)) or \
                any(isinstance(x, ast.Call) and call_name(x) in ("getparent", "getroot") for x in ast.walk(recv)) or \
                (isinstance(recv, ast.Name) and any(isinstance(a, ast.Assign) and any(isinstance(t, ast.Name) and t.id == recv.id for t in a.targets)
                                                     and any(isinstance(x, ast.Call) and call_name(x) in ("getparent", "getroot") or isinstance(x, ast.Attribute) and x.attr.endswith("__element")
                                                             for x in ast.walk(a.value)) for a in walk_no_nested(f.node)))
            if not lxmlish:
                continue
            ok = f.ident == "Element.delete"
            n_ok += ok
            ctx.instance("R09i", f"{f.file}:{f.ident}", f"`{norm(c, 40)}`: " + ("inside Element.delete, after the tail was moved" if ok else "outside Element.delete"), ok=ok, nontrivial=True, line=c.lineno)
            if not ok:
                ctx.report("R09i", f, c, norm(c, 60),
                           f"{f.ident} removes a node of the tree with lxml's remove(): the text that follows the node (its tail) is dropped with it — removing an empty span or link "
                           f"deletes the words after it; Element.delete() moves the tail first")
    if n_ok == 0:
        raise AnalysisError("R09i: Element.delete no longer removes through lxml (anchor lost)")


def r09j(ctx):
    """The text an offset or an occurrence counts is the text XPath selects.

    `_insert` addresses positions in the list of text nodes produced by one of four module-level compiled queries (`…text()`, with or
    without the annotation filter).  In lxml a text node that is a *tail* answers `getparent()` with the element it trails, not the element
    it is a child of: hand-written filtering by climbing parents rejects the text after a note together with the note.  Rule: every
    `_xpath_text*` name of element.py is bound at module level to `xpath_compile(<constant selecting text()>)` — not to a function.
    """
    repo = ctx.repo
    ctx.rule("R09j", "the text-node selectors used by _insert are compiled XPath constants selecting text()", floor=2)
    m = repo.module("element")
    used = sorted({x.id for f in m.all_funcs for x in walk_no_nested(f.node) if isinstance(x, ast.Name) and x.id.startswith("_xpath_text")})
    if not used:
        raise AnalysisError("R09j: no _xpath_text* selector is used in element.py")
    fdefs = {g.name: g for g in m.all_funcs if g.cls is None}
    for nm in used:
        node = m.assigns.get(nm)
        expr = repo.fold(node.args[0], m) if isinstance(node, ast.Call) and call_name(node) in ("xpath_compile", "XPath") and node.args else None
        ok = isinstance(expr, str) and "text()" in expr
        ctx.instance("R09j", f"{m.relpath}:{nm}", f"compiled query {expr!r}" if ok else "not a compiled text() query", ok=ok, nontrivial=True, line=getattr(node, "lineno", 1))
        if not ok:
            g = fdefs.get(nm)
            ctx.report("R09j", g if g is not None else m, g.node if g is not None else m.tree, f"{nm} is " + ("a Python function" if g is not None else "not a compiled XPath"),
                       f"{nm}, the selector of the text nodes that offsets and occurrence numbers count, is no longer a compiled `text()` query: a filter written by hand over "
                       f"getparent() takes the text that follows a note or an annotation (its tail) for part of it, so marks addressed after it are not found or land on an earlier match")


def r09k(ctx):
    """The tags to strip are given as a collection of names.

    `_strip_tags` decides with `element.tag in strip`.  Given a tuple that is equality with one of the names; given a bare string it is a
    substring test, and `"text:s" in "text:span"` holds: removing the spans would also unwrap every `text:s`, and each run of blanks
    collapses to the one blank of its tail — characters outside any span are lost.  `strip` is typed Iterable[str], which a str satisfies, so
    no type checker objects.  Rule: every argument bound to the `strip` or `protect` parameter of strip_tags / _strip_tags is None, a
    tuple/list/set (display or constructor), a parameter handed through, or a local whose every definition is one of those — never a
    string constant or a class's `_tag`.
    """
    repo = ctx.repo
    ctx.rule("R09k", "strip_tags is handed collections of tag names, never a bare string (membership would become a substring test)", floor=6)
    n = 0

    def kind(e, f, depth=0) -> str:
        if isinstance(e, ast.Constant):
            return "none" if e.value is None else ("str" if isinstance(e.value, str) else "other")
        if isinstance(e, (ast.Tuple, ast.List, ast.Set, ast.ListComp, ast.SetComp, ast.GeneratorExp)):
            return "coll"
        if isinstance(e, ast.JoinedStr):
            return "str"
        if isinstance(e, ast.Call) and call_name(e) in ("tuple", "list", "set", "frozenset", "sorted"):
            return "coll"
        if isinstance(e, ast.Attribute):
            v = repo.fold(e, f.module)
            return "str" if isinstance(v, str) or e.attr == "_tag" else "other"
        if isinstance(e, ast.IfExp):
            a, b = kind(e.body, f, depth), kind(e.orelse, f, depth)
            return "str" if "str" in (a, b) else ("coll" if "other" not in (a, b) else "other")
        if isinstance(e, ast.BinOp) and isinstance(e.op, ast.Add):
            a, b = kind(e.left, f, depth), kind(e.right, f, depth)
            return "str" if a == b == "str" else ("coll" if "coll" in (a, b) else "other")
        if isinstance(e, ast.Name) and depth < 3:
            params = {a.arg: a for a in f.node.args.posonlyargs + f.node.args.args + f.node.args.kwonlyargs}
            defs = [a.value for a in walk_no_nested(f.node) if isinstance(a, ast.Assign) and any(isinstance(t, ast.Name) and t.id == e.id for t in a.targets)]
            defs += [a.value for a in walk_no_nested(f.node) if isinstance(a, ast.AnnAssign) and a.value is not None and isinstance(a.target, ast.Name) and a.target.id == e.id]
            ks = [kind(d, f, depth + 1) for d in defs]
            if e.id in params:
                ann = params[e.id].annotation
                ks.append("str" if ann is not None and ast.unparse(ann).replace(" ", "") in ("str", "str|None") else "coll")
            if "str" in ks:
                return "str"
            return "coll" if ks and all(k in ("coll", "none") for k in ks) else "other"
        return "other"

    for f in repo.all_funcs():
        for c in walk_no_nested(f.node):
            if not (isinstance(c, ast.Call) and call_name(c) in ("strip_tags", "_strip_tags")):
                continue
            off = 1 if call_name(c) == "_strip_tags" else 0
            for pos, pname in ((off, "strip"), (off + 1, "protect")):
                a = get_arg(c, pos, pname)
                if a is None:
                    continue
                n += 1
                k = kind(a, f)
                ctx.instance("R09k", f"{f.file}:{f.ident}", f"{pname}={norm(a, 30)}: {k}", ok=k != "str", nontrivial=True, line=c.lineno)
                if k == "str":
                    ctx.report("R09k", f, c, f"{pname}={norm(a, 30)}",
                               f"{f.ident} hands `{norm(a, 40)}` — a string — to strip_tags as `{pname}`: `element.tag in {pname}` is then a substring test, so every tag whose name is "
                               f"contained in it is stripped too (`text:s` in `text:span`, `text:a` in …): the blanks held by text:s collapse to their tails and text outside the removed markup is lost")
    if n < 6:
        raise AnalysisError(f"R09k: only {n} strip/protect argument(s) found")


def r09l(ctx):
    """An element built around a piece of text holds that piece, unchanged.

    The regex- and offset-driven wrappers (set_link, set_span …) cut the text node into before / match / after and put the match into a new
    element built by the class's constructor: `Link(url, text=match)`.  The characters of the match leave the paragraph's own text at that
    moment; if the constructor tidies what it is given (strip, collapse, lower) they do not come back — a match that begins or ends with a
    blank loses it, and the text of the paragraph changes although only markup was asked for.  Rule: in the constructor of every registered
    element class, a store `self.text = …` / `self.tail = …` whose value comes from a parameter applies no lossy string call to it
    (`_unformatted`, the documented white-space collapse of formatted=False, aside).
    """
    from .c14 import LOSSY, LOSSY_FUNCS
    repo = ctx.repo
    ctx.rule("R09l", "constructors store the text they are given without tidying it (the regex wrappers hand them the matched characters)", floor=8)
    n = 0
    for c in repo.all_classes():
        for f in c.methods.get("__init__", []):
            if f.cls is not c:
                continue
            params = {a.arg for a in f.all_params()} - {"self"}
            for a in walk_no_nested(f.node):
                if not (isinstance(a, ast.Assign) and len(a.targets) == 1 and isinstance(a.targets[0], ast.Attribute) and a.targets[0].attr in ("text", "tail")
                        and isinstance(a.targets[0].value, ast.Name) and a.targets[0].value.id == "self"):
                    continue
                n += 1
                v = a.value
                uses_param = any(isinstance(x, ast.Name) and x.id in params for x in ast.walk(v))
                lossy = [x for x in ast.walk(v) if isinstance(x, ast.Call) and ((isinstance(x.func, ast.Attribute) and x.func.attr in LOSSY) or call_name(x) in LOSSY_FUNCS)]
                ok = not (uses_param and lossy)
                ctx.instance("R09l", f"{f.file}:{f.ident}", f"{norm(a, 40)}: stored as given", ok=ok, nontrivial=uses_param, line=a.lineno)
                if not ok:
                    ctx.report("R09l", f, a, norm(a, 50),
                               f"{c.name}() tidies the text it is given (`{norm(lossy[0], 30)}`) before storing it: the wrappers that build a {c.name} around a regex match or an offset hand it "
                               f"characters taken out of the paragraph — what the constructor drops (a blank at the edge of the match) is gone from the paragraph's text")
    if n < 8:
        raise AnalysisError(f"R09l: only {n} text store(s) found in constructors")


def r09m(ctx):
    """A node placed next to an element gets the cut text around it.

    The inserters place the new element by cutting the text node that holds the position: the part before stays (as text or tail), the new
    element follows, the part after becomes its tail.  lxml's `addnext` places a node after an *element and its tail*; used for a position
    inside a tail it is correct only together with the two stores that follow it in `_insert`: the owner's tail becomes the text before the
    cut, the new element's tail the text after.  A shortcut that calls addnext alone leaves the whole tail in front of the mark.  Rule: in the
    text modules every `X.addnext(N)` / `X.addprevious(N)` is followed, in the same block, by a store to `X.tail` and a store to the tail of
    the inserted element.
    """
    from ..core import enclosing_stmt, parent as _parent
    repo = ctx.repo
    ctx.rule("R09m", "a node placed with lxml's addnext is given the cut text: the owner's tail and the new element's tail are both rewritten after it", floor=1)
    n = 0
    for f in repo.all_funcs():
        if not f.file.endswith(("/element.py", "/paragraph.py", "/paragraph_base.py")):
            continue
        for c in [c for c in walk_no_nested(f.node) if isinstance(c, ast.Call) and isinstance(c.func, ast.Attribute) and c.func.attr in ("addnext", "addprevious")]:
            n += 1
            st = enclosing_stmt(c)
            blk = None
            par = _parent(st)
            for fld in ("body", "orelse", "finalbody"):
                b = getattr(par, fld, None)
                if isinstance(b, list) and st in b:
                    blk = b
            later = blk[blk.index(st) + 1:] if blk else []
            tails = [a for a in later if isinstance(a, ast.Assign) and any(isinstance(t, ast.Attribute) and t.attr == "tail" for t in a.targets)]
            owner = isinstance(c.func.value, ast.Name) and any(isinstance(t, ast.Attribute) and t.attr == "tail" and isinstance(t.value, ast.Name) and t.value.id == c.func.value.id
                                                              for a in tails for t in a.targets)
            ok = owner and len(tails) >= 2
            ctx.instance("R09m", f"{f.file}:{f.ident}", f"{norm(c, 40)}: both tails rewritten after it", ok=ok, nontrivial=True, line=c.lineno)
            if not ok:
                ctx.report("R09m", f, c, norm(c, 40),
                           f"{f.ident} places a node with `{c.func.attr}` and does not rewrite the tails after it: lxml puts the node after the element *and its tail*, so a mark asked for at a "
                           f"position inside that tail (before a word that starts it) lands after the whole tail")
    if n < 1:
        raise AnalysisError("R09m: no addnext site found in the text modules")


def run(ctx):
    r09a(ctx)
    r09b(ctx)
    r09c(ctx)
    r09d(ctx, _cut_sites(ctx.repo)[0])
    r09e(ctx)
    r09f(ctx)
    r09g(ctx)
    r09h(ctx)
    r09i(ctx)
    r09j(ctx)
    r09k(ctx)
    r09l(ctx)
    r09m(ctx)
    # strip_tags and the span builders re-attach every text piece through Element.append: a substitution there that touches more than U+0020 rewrites text
    # that lies outside the markup being inserted or removed (part of a rule shared with C16)
    from .c16 import r16i
    r16i(ctx, children=False)
    ctx.rules["R16i"].floor = 1
    from .round12 import r09n
    r09n(ctx)
    from .round12 import r09o
    r09o(ctx)


from ..selftest import Seed, unparse_seed  # noqa: E402

_P = "src/odfdo/paragraph.py"
_EL = "src/odfdo/element.py"
SEEDS = [
    Seed("_insert_before_after takes the end of the first group", "fault", "src/odfdo/element.py", "sre.end()", "sre.end(sre.lastindex or 0)", "R09o"),
    Seed("Annotation.delete computes the tail flag of its end mark", "fault", "src/odfdo/note.py",
         "        if end:\n            end.delete()\n", "        if end:\n            end.delete(keep_tail=end.parent is self.parent)\n", "R09n"),
    Seed("Annotation.delete names the default tail flag", "neutral", "src/odfdo/note.py",
         "        if end:\n            end.delete()\n", "        if end:\n            end.delete(keep_tail=True)\n"),
    Seed("_insert takes a shortcut through addnext when the match opens the tail", "fault", _EL,
         "        if text.is_text:  # type: ignore\n            parent.text = text_before", "        if before is not None and pos == 0 and not text.is_text:  # type: ignore\n            parent.addnext(xelement)\n        elif text.is_text:  # type: ignore\n            parent.text = text_before", "R09m"),
    Seed("Link() trims its label", "fault", "src/odfdo/link.py", "            self.text = text\n", "            self.text = text.strip()\n", "R09l"),
    Seed("remove_spans hands the bare tag name to strip_tags", "fault", _P,
         "        strip = (Span._tag,)\n        if keep_heading:", "        strip = Span._tag\n        if keep_heading:", "R09k"),
    Seed("remove_links builds its one-name tuple in the call", "neutral", _P,
         "        strip = (Link._tag,)\n        return self.strip_tags(strip=strip)", "        return self.strip_tags(strip=(Link._tag,))"),
    Seed("strip_elements detaches a lone empty element with lxml remove()", "fault", _EL,
         "    def strip_elements(\n        self,\n        sub_elements: Element | Iterable[Element],\n    ) -> Element | list:",
         "    def _drop_lone(self, lone_element: Element) -> None:\n        lone = lone_element.__element\n        holder = lone.getparent()\n        holder.remove(lone)\n\n    def strip_elements(\n        self,\n        sub_elements: Element | Iterable[Element],\n    ) -> Element | list:", "R09i"),
    Seed("negative position takes the first match of the last matching node", "fault", _EL,
         "        text = None\n        for a_text in xpath_result:\n            if regex.search(str(a_text)) is not None:\n                text = a_text\n        if text is None:\n            raise ValueError(f\"Text not found: '{xpath_result}'\")\n        if not isinstance(text, str):\n            raise TypeError(f\"Text not found or text not of type str: '{text}'\")\n        return text, list(regex.finditer(text))[-1]",
         "        for text in reversed(xpath_result):\n            sre = regex.search(str(text))\n            if sre is not None:\n                break\n        else:\n            raise ValueError(f\"Text not found: '{xpath_result}'\")\n        if not isinstance(text, str):\n            raise TypeError(f\"Text not found or text not of type str: '{text}'\")\n        return text, sre", "R09h"),
    Seed("negative position names the list of matches first", "neutral", _EL,
         "        return text, list(regex.finditer(text))[-1]", "        found = list(regex.finditer(text))\n        return text, found[-1]"),
    Seed("ReferenceMarkStart.delete asks its own parent to remove the end mark", "fault", "src/odfdo/reference.py",
         "        if end:\n            end.delete()\n        # act like normal delete\n        return super().delete()", "        if end:\n            parent.delete(end)\n        # act like normal delete\n        return parent.delete(self)", "R09g"),
    Seed("ReferenceMarkStart.delete asks the end mark's own parent", "neutral", "src/odfdo/reference.py",
         "        if end:\n            end.delete()\n", "        if end:\n            end.parent.delete(end)\n"),
    Seed("occurrence counter overwritten instead of accumulated", "fault", _EL, "            count += found_nb\n        else:\n            raise ValueError(f\"Text not found: '{xpath_result}'\")", "            count = found_nb\n        else:\n            raise ValueError(f\"Text not found: '{xpath_result}'\")", "R09f"),
    Seed("reference-mark end placed without the position", "fault", _P,
         "            self._insert(\n                reference_end, after=content, position=position, main_text=True\n            )", "            self._insert(reference_end, after=content, main_text=True)", "R09f"),
    Seed("reference-mark end tag is moved instead of rebuilt", "fault", _P,
         "        existing_end_tag = self.get_reference_mark_end(name=name)\n        if existing_end_tag:\n            existing_end_tag.delete()\n\n        # create the end tag\n        end_tag = ReferenceMarkEnd(name)\n",
         "        end_tag = self.get_reference_mark_end(name=name)\n        if not end_tag:\n            end_tag = ReferenceMarkEnd(name)\n", "R09e"),
    Seed("offset arm clamps the length by the paragraph-global offset", "fault", _P,
         "                    length = min(length, len(text))  # type: ignore", "                    length = min(length, len(text) - offset)  # type: ignore", "R09d"),
    Seed("offset arm takes the caller's length as it comes", "fault", _P,
         "                if length > 0:\n                    length = min(length, len(text))  # type: ignore\n                else:\n                    length = len(text)  # type: ignore\n",
         "                if length == 0:\n                    length = len(text)  # type: ignore\n", "R09d"),
    Seed("offset arm: end computed with the operands swapped", "neutral", _P, "                end = start + length\n", "                end = length + start\n"),
    Seed("regex arm: tail slice skips a character", "fault", _P,
         "                    before = text_str[:start]\n                    match = text_str[start:end]\n                    tail = text_str[end:]",
         "                    before = text_str[:start]\n                    match = text_str[start:end]\n                    tail = text_str[end + 1 :]", "R09a"),
    Seed("offset arm: before slice overlaps the match", "fault", _P,
         "                before = text_str[:start]\n                match = text_str[start:end]\n                tail = text_str[end:]\n                result = method(element, match, tail, *args, **kwargs)\n                if is_text:",
         "                before = text_str[:end]\n                match = text_str[start:end]\n                tail = text_str[end:]\n                result = method(element, match, tail, *args, **kwargs)\n                if is_text:", "R09a"),
    Seed("regex arm: the text before the match is dropped", "fault", _P,
         "                    if is_text:\n                        container.text = before\n                        # Insert as first child\n                        container.insert(result, position=0)\n                    else:\n                        container.tail = before",
         "                    if is_text:\n                        container.text = None\n                        # Insert as first child\n                        container.insert(result, position=0)\n                    else:\n                        container.tail = None", "R09a"),
    Seed("set_span forgets the tail", "fault", _P, "        span = Span(match, style=style)\n        span.tail = tail\n        return span", "        span = Span(match, style=style)\n        return span", "R09a"),
    Seed("set_link wraps the tail instead of the match", "fault", _P, "        link = Link(url, text=match)\n        link.tail = tail", "        link = Link(url, text=tail)\n        link.tail = tail", "R09a"),
    Seed("_insert loses the text after the position", "fault", _EL,
         "        text_after = text[pos:] if text[pos:] else None", "        text_after = text[pos + 1 :] if text[pos + 1 :] else None", "R09a"),
    Seed("wrapper passes (tail, match)", "fault", _P,
         "                    result = method(element, match, tail, *args, **kwargs)", "                    result = method(element, tail, match, *args, **kwargs)", "R09a"),
    Seed("offset arm writes the tail slot for a text node", "fault", _P,
         "                if is_text:\n                    container.text = before\n                    # Insert as first child\n                    container.insert(result, position=0)\n                else:\n                    container.tail = before\n                    # Insert as next sibling\n                    if upper:\n                        index = upper.index(container)\n                        upper.insert(result, position=index + 1)\n                return",
         "                if is_text:\n                    container.tail = before\n                    # Insert as first child\n                    container.insert(result, position=0)\n                else:\n                    container.text = before\n                    # Insert as next sibling\n                    if upper:\n                        index = upper.index(container)\n                        upper.insert(result, position=index + 1)\n                return", "R09b"),
    Seed("_insert puts the element before the parent for a tail node", "fault", _EL,
         "            parent.addnext(xelement)\n            parent.tail = text_before", "            parent.addprevious(xelement)\n            parent.tail = text_before", "R09b"),
    Seed("regex arm inserts the span last for a text node", "fault", _P,
         "                        container.text = before\n                        # Insert as first child\n                        container.insert(result, position=0)",
         "                        container.text = before\n                        # Insert as first child\n                        container.append(result)", "R09b"),
    Seed("delete drops the tail when there is a previous sibling with a tail", "fault", _EL,
         "                if prev.tail is None:\n                    prev.tail = tail\n                else:\n                    prev.tail += tail", "                if prev.tail is None:\n                    prev.tail = tail", "R09c"),
    Seed("delete overwrites the parent's text", "fault", _EL,
         "                    parent.__element.text += tail", "                    parent.__element.text = tail", "R09c"),
    Seed("delete defaults to dropping the tail", "fault", _EL,
         "    def delete(self, child: Element | None = None, keep_tail: bool = True) -> None:\n        \"\"\"Delete the given element from the XML tree.",
         "    def delete(self, child: Element | None = None, keep_tail: bool = False) -> None:\n        \"\"\"Delete the given element from the XML tree.", "R09c"),
    Seed("_strip_tags forgets the tail of a stripped tag", "fault", _EL,
         "            if tail is not None:\n                element_result.append(tail)\n            return (element_result, True)", "            return (element_result, True)", "R09c"),
    Seed("_strip_tags puts the tail before the children", "fault", _EL,
         "            for child in children:\n                element_result.append(child)\n            if tail is not None:\n                element_result.append(tail)",
         "            if tail is not None:\n                element_result.append(tail)\n            for child in children:\n                element_result.append(child)", "R09c"),
    Seed("strip_tags overwrites the text again", "fault", _EL,
         "                new.__append(content)\n            element = new", "                if isinstance(content, Element):\n                    new.__append(content)\n                else:\n                    new.text = content\n            element = new", "R09c"),
    Seed("_strip_tags refactored around one content list, tail of kept elements forgotten", "fault", _EL,
         "        text = element_clone.text\n        tail = element_clone.tail\n        if not protected and strip and element.tag in strip:\n            element_result: list[Element | str] = []\n            if text is not None:\n                element_result.append(text)\n            for child in children:\n                element_result.append(child)\n            if tail is not None:\n                element_result.append(tail)\n            return (element_result, True)\n        else:\n            if not modified:\n                return (element, False)\n            element.clear()\n            try:\n                for key, value in element_clone.attributes.items():\n                    element.set_attribute(key, value)\n            except ValueError:\n                sys.stderr.write(f\"strip_tags(): bad attribute in {element_clone}\\n\")\n            if text is not None:\n                element.__append(text)\n            for child in children:\n                element.__append(child)\n            if tail is not None:\n                element.tail = tail\n            return (element, True)\n",
         "        content: list[Element | str] = []\n        if element_clone.text is not None:\n            content.append(element_clone.text)\n        content.extend(children)\n        if not protected and strip and element.tag in strip:\n            if element_clone.tail is not None:\n                content.append(element_clone.tail)\n            return (content, True)\n        if not modified:\n            return (element, False)\n        element.clear()\n        try:\n            for key, value in element_clone.attributes.items():\n                element.set_attribute(key, value)\n        except ValueError:\n            sys.stderr.write(f\"strip_tags(): bad attribute in {element_clone}\\n\")\n        for item in content:\n            element.__append(item)\n        return (element, True)\n", "R09c"),
    Seed("_strip_tags refactored around one content list (tail restored)", "neutral", _EL,
         "        text = element_clone.text\n        tail = element_clone.tail\n        if not protected and strip and element.tag in strip:\n            element_result: list[Element | str] = []\n            if text is not None:\n                element_result.append(text)\n            for child in children:\n                element_result.append(child)\n            if tail is not None:\n                element_result.append(tail)\n            return (element_result, True)\n        else:\n            if not modified:\n                return (element, False)\n            element.clear()\n            try:\n                for key, value in element_clone.attributes.items():\n                    element.set_attribute(key, value)\n            except ValueError:\n                sys.stderr.write(f\"strip_tags(): bad attribute in {element_clone}\\n\")\n            if text is not None:\n                element.__append(text)\n            for child in children:\n                element.__append(child)\n            if tail is not None:\n                element.tail = tail\n            return (element, True)\n",
         "        content: list[Element | str] = []\n        if element_clone.text is not None:\n            content.append(element_clone.text)\n        content.extend(children)\n        if not protected and strip and element.tag in strip:\n            if element_clone.tail is not None:\n                content.append(element_clone.tail)\n            return (content, True)\n        if not modified:\n            return (element, False)\n        element.clear()\n        try:\n            for key, value in element_clone.attributes.items():\n                element.set_attribute(key, value)\n        except ValueError:\n            sys.stderr.write(f\"strip_tags(): bad attribute in {element_clone}\\n\")\n        for item in content:\n            element.__append(item)\n        if element_clone.tail is not None:\n            element.tail = element_clone.tail\n        return (element, True)\n"),
    unparse_seed(_P), unparse_seed(_EL), unparse_seed("src/odfdo/reference.py"), unparse_seed("src/odfdo/style.py"),
]
