"""C17 — whole-table transformations keep what they should (structural clauses).

R17a  set_span checks for an existing span before anything is written
R17b  values change only under merge
R17c  set_span / del_span agree on attributes, tag swap and index pattern; extents are POS - POS + 1
R17d  strip deletes only what it tested empty, scanning from the end and stopping at the first non-empty item
R17e  bulk edits end clean (TOM: transpose, rstrip, optimize_width restore maps and indexes)
R17f  CSV: exporter and importer use the same dialect default and the same cell order
"""

from __future__ import annotations

import ast

from ..core import UNKNOWN, AnalysisError, FuncInfo, call_name, get_arg, is_self_attr, norm, walk_no_nested
from ..paths import canon, cfg_of, enclosing_loops, node_of, structural_guards
from ..tomrun import run_tom

EXPLANATION = (
    "CFG dominance and control-dependence queries on Table.set_span (every write is dominated by the is_spanned scan "
    "whose positive outcome returns False; value writes are control-dependent on `merge`), table comparison between "
    "set_span and del_span (attributes written/removed, tag pair, index pattern, final set_cells call), guard "
    "analysis of the three strip loops (each deletion is control-dependent on an emptiness test of the same item or "
    "on a counter fed only by such tests, scanning reversed with break at the first non-empty item), and the "
    "table-object-model interpreter for the end state of transpose/rstrip/optimize_width. Involution of transpose, "
    "idempotence, 'every non-empty value stays at its coordinates' and the CSV value round trip are not decided."
)
ASSUMPTIONS = [
    "Cell.is_spanned / is_empty mean what their names say (their bodies are value-level)",
    "set_cells(cells, coord, clone=False) writes each cell at coord + its index (C01)",
]

SPAN_ATTRS = {"table:number-columns-spanned", "table:number-rows-spanned"}


def _canon_names(e: ast.AST, mapping: dict[str, str]) -> str:
    """Source text of `e` with the locals named in `mapping` replaced by their role names (layout-free)."""
    import copy
    c = copy.deepcopy(e)
    for x in ast.walk(c):
        if isinstance(x, ast.Name) and x.id in mapping:
            x.id = mapping[x.id]
    return ast.unparse(c).replace(" ", "")


def _coord_roles(fn: FuncInfo) -> dict[str, str]:
    """local name -> role (x, y, z, t) from the unpacking of the converted coordinates; `start` = the (x, y) tuple"""
    roles: dict[str, str] = {}
    for n in walk_no_nested(fn.node):
        if isinstance(n, ast.Assign) and isinstance(n.targets[0], ast.Tuple) and all(isinstance(e, ast.Name) for e in n.targets[0].elts) and isinstance(n.value, ast.Name):
            names = [e.id for e in n.targets[0].elts]
            if len(names) == 4:
                roles.update(dict(zip(names, "xyzt")))
            elif len(names) == 2:
                for nm, r in zip(names, "xy"):
                    roles.setdefault(nm, r)
    for n in walk_no_nested(fn.node):
        if isinstance(n, ast.Assign) and isinstance(n.targets[0], ast.Name) and isinstance(n.value, ast.Tuple) and len(n.value.elts) == 2 \
                and [roles.get(getattr(e, "id", None)) for e in n.value.elts] == ["x", "y"]:
            roles[n.targets[0].id] = "start"
    return roles


def r17abc(ctx):
    repo = ctx.repo
    ctx.rule("R17a", "set_span: the scan for an existing span dominates every write", floor=4)
    ctx.rule("R17b", "set_span: cell values are written or cleared only under `merge`", floor=2)
    ctx.rule("R17c", "set_span and del_span agree (attributes, tag pair, index pattern, final push)", floor=5)
    f = repo.func("Table.set_span")
    cfg = cfg_of(f)
    # the scan: a loop calling is_spanned whose positive outcome leads to `return False`
    scans = [n for n in walk_no_nested(f.node) if isinstance(n, ast.Call) and call_name(n) in ("is_spanned", "_is_spanned")]
    if not scans:
        ctx.instance("R17a", f"{f.file}:{f.ident}", "the area is scanned for an existing span", ok=False)
        ctx.report("R17a", f, f.node, "set_span does not call is_spanned()", "set_span no longer checks the requested area for an existing span before writing: "
                   "overlapping spans can be created")
        return
    # the flag: a local set to False under the positive outcome of is_spanned(); the refusal: `return False` under a test that reads that flag
    flag_sets = [n for n in walk_no_nested(f.node) if isinstance(n, ast.Assign) and isinstance(n.targets[0], ast.Name) and isinstance(n.value, ast.Constant) and n.value.value is False
                 and any(any(x is scans[0] for x in ast.walk(t)) for t, pol in structural_guards(n, stop=f.node) if pol)]
    flags = {n.targets[0].id for n in flag_sets}
    refuse = [n for n in walk_no_nested(f.node) if isinstance(n, ast.Return) and isinstance(n.value, ast.Constant) and n.value.value is False
              and any(isinstance(x, ast.Name) and x.id in flags for t, _ in structural_guards(n, stop=f.node) for x in ast.walk(t))
              and not enclosing_loops(n)]
    ok_scan = bool(refuse) and bool(flag_sets)
    # the scan looks at the whole requested area: it iterates over the matrix of cells that is pushed back at the end, not over a part of it
    push_ = [n for n in walk_no_nested(f.node) if isinstance(n, ast.Call) and call_name(n) == "set_cells" and is_self_attr(n.func) and n.args and isinstance(n.args[0], ast.Name)]
    matrix = push_[-1].args[0].id if push_ else None
    outer_iter = None
    cur = scans[0]
    while cur is not None and cur is not f.node:
        par = getattr(cur, "_parent", None)
        if isinstance(par, ast.For) and cur is not par.iter and cur is not par.target:
            outer_iter = par.iter
        if isinstance(par, (ast.GeneratorExp, ast.ListComp, ast.SetComp)):
            outer_iter = par.generators[0].iter
        cur = par
    whole = matrix is not None and isinstance(outer_iter, ast.Name) and outer_iter.id == matrix
    ctx.instance("R17a", f"{f.file}:{f.ident}", f"the span scan iterates over the whole area (`{matrix}`), got `{norm(outer_iter, 30) if outer_iter is not None else None}`",
                 ok=whole, nontrivial=True, line=scans[0].lineno)
    if not whole:
        ctx.report("R17a", f, scans[0], f"span scan over `{norm(outer_iter, 30) if outer_iter is not None else '?'}` instead of `{matrix}`",
                   "set_span checks only part of the requested area for an existing span (e.g. the last row collected): a span that intersects another row of the area is "
                   "accepted, the two spans overlap, and del_span no longer restores the table")
    if not (refuse and flag_sets):
        # the refusal may be written without a flag: `if any(cell.is_spanned() …): return False`
        direct = [n for n in walk_no_nested(f.node) if isinstance(n, ast.Return) and isinstance(n.value, ast.Constant) and n.value.value is False
                  and any(any(x is scans[0] for x in ast.walk(t)) and pol for t, pol in structural_guards(n, stop=f.node))]
        if direct:
            refuse, ok_scan = direct, True
    ctx.instance("R17a", f"{f.file}:{f.ident}", "is_spanned() positive ⇒ return False (directly or through a flag)", ok=ok_scan, nontrivial=True)
    if not ok_scan:
        ctx.report("R17a", f, scans[0], "span scan does not refuse", "finding an already spanned cell in the area no longer makes set_span return False")
    writes = []
    for n in walk_no_nested(f.node):
        if isinstance(n, ast.Call) and call_name(n) in ("set_attribute", "set_cells", "set_value", "clear", "set_cell", "del_attribute"):
            writes.append(n)
        if isinstance(n, ast.Assign) and isinstance(n.targets[0], ast.Attribute) and n.targets[0].attr == "tag":
            writes.append(n)
    if refuse:
        rn = node_of(cfg, refuse[0])
        # the test guarding the refusal
        tests = [t for t in cfg.nodes if t.kind == "test" and any(x is refuse[0] for x in ast.walk(t.stmt))]
        gate = tests[-1] if tests else rn
        for w in writes:
            ok = cfg.dominates(gate, node_of(cfg, w))
            ctx.instance("R17a", f"{f.file}:{f.ident}", f"write {norm(w, 50)} is dominated by the refusal test", ok=ok, nontrivial=True, line=w.lineno)
            if not ok:
                ctx.report("R17a", f, w, w, "this write can happen before the area was checked for an existing span: a refused set_span leaves the table modified")
    # R17b
    for w in writes:
        if isinstance(w, ast.Call) and call_name(w) in ("set_value", "clear"):
            gs = structural_guards(w, stop=f.node)
            ok = any(pol and ast.unparse(t) == "merge" for t, pol in gs)
            ctx.instance("R17b", f"{f.file}:{f.ident}", f"{norm(w, 40)} only under merge", ok=ok, nontrivial=True, line=w.lineno)
            if not ok:
                ctx.report("R17b", f, w, w, "a cell value is changed by set_span although merging was not asked")
    # R17c
    g = repo.func("Table.del_span")

    def facts(fn: FuncInfo, setter: str):
        attrs = {repo.fold(n.args[0], fn.module) for n in walk_no_nested(fn.node) if isinstance(n, ast.Call) and call_name(n) == setter and n.args}
        tags = [(repo.fold(n.value, fn.module), _loop_pattern(n)) for n in walk_no_nested(fn.node)
                if isinstance(n, ast.Assign) and isinstance(n.targets[0], ast.Attribute) and n.targets[0].attr == "tag"]
        push = [n for n in walk_no_nested(fn.node) if isinstance(n, ast.Call) and call_name(n) == "set_cells" and is_self_attr(n.func)]
        return attrs, tags, push

    sa, st, sp = facts(f, "set_attribute")
    da, dt, dp = facts(g, "del_attribute")
    ok = sa == da == SPAN_ATTRS
    ctx.instance("R17c", f"{f.file}:set_span/del_span", f"attributes set {sorted(map(str, sa))} == removed {sorted(map(str, da))}", ok=ok, nontrivial=True)
    if not ok:
        ctx.report("R17c", g, g.node, f"set {sorted(map(str, sa))} / del {sorted(map(str, da))}", "set_span and del_span do not write/remove the same span attributes")
    ok = {t for t, _ in st} == {"table:covered-table-cell"} and {t for t, _ in dt} == {"table:table-cell"}
    ctx.instance("R17c", f"{f.file}:set_span/del_span", f"tag pair {sorted({str(t) for t, _ in st})} ↔ {sorted({str(t) for t, _ in dt})}", ok=ok, nontrivial=True)
    if not ok:
        ctx.report("R17c", g, g.node, "tag pair", "set_span/del_span do not swap table:covered-table-cell and table:table-cell symmetrically")
    def cells_role(fn, push):
        """the matrix of edited copies = first argument of the final self.set_cells(…)"""
        return push[0].args[0].id if len(push) == 1 and push[0].args and isinstance(push[0].args[0], ast.Name) else None

    cs, cd = cells_role(f, sp), cells_role(g, dp)
    ps = sorted(p.replace(cs, "cells") if cs else p for _, p in st)
    pd = sorted(p.replace(cd, "cells") if cd else p for _, p in dt)
    ok = ps == pd == ["cells[0][1:]", "cells[1:]/*"]
    ctx.instance("R17c", f"{f.file}:set_span/del_span", f"covered cells = {ps} (set) == {pd} (del)", ok=ok, nontrivial=True)
    if not ok:
        ctx.report("R17c", g, g.node, f"index patterns {ps} vs {pd}", "the cells converted by set_span and restored by del_span are not the same set (all of the area except its first cell)")
    for fn, push in ((f, sp), (g, dp)):
        roles = _coord_roles(fn)
        coord = get_arg(push[0], 1, "coord") if len(push) == 1 else None
        ok = len(push) == 1 and isinstance(coord, ast.Name) and roles.get(coord.id) == "start" and repo.fold(get_arg(push[0], 2, "clone"), fn.module) is False
        ctx.instance("R17c", f"{fn.file}:{fn.ident}", "ends with self.set_cells(cells, coord=start, clone=False)", ok=ok, nontrivial=True)
        if not ok:
            ctx.report("R17c", fn, fn.node, "final push", f"{fn.name} does not push the edited copies back with set_cells(cells, coord=start, clone=False)")
    # extents written into the span attributes, traced to their definitions and expressed over the coordinate roles
    roles = _coord_roles(f)

    def def_of(fn, name):
        ds = [n.value for n in walk_no_nested(fn.node) if isinstance(n, ast.Assign) and isinstance(n.targets[0], ast.Name) and n.targets[0].id == name]
        return ds[0] if len(ds) == 1 else None

    wrt = {}
    for n in walk_no_nested(f.node):
        if isinstance(n, ast.Call) and call_name(n) == "set_attribute" and len(n.args) == 2:
            v = n.args[1]
            inner = v.args[0] if isinstance(v, ast.Call) and call_name(v) == "str" and v.args else v
            d = def_of(f, inner.id) if isinstance(inner, ast.Name) else inner
            wrt[repo.fold(n.args[0], f.module)] = _canon_names(d, roles) if d is not None else "?"
    ok = wrt.get("table:number-columns-spanned") == "z-x+1" and wrt.get("table:number-rows-spanned") == "t-y+1"
    ctx.instance("R17c", f"{f.file}:{f.ident}", f"span attributes receive {wrt}", ok=ok, nontrivial=True)
    if not ok:
        ctx.report("R17c", f, f.node, f"span attribute values {wrt}", "columns-spanned / rows-spanned do not receive (z - x + 1) columns and (t - y + 1) rows")
    # del_span recomputes the area from the stored extents: get_cells((x, y, x + cols - 1, y + rows - 1))
    droles = _coord_roles(g)
    for n in walk_no_nested(g.node):
        if isinstance(n, ast.Assign) and isinstance(n.targets[0], ast.Name) and isinstance(n.value, ast.Call) and call_name(n.value) == "get_attribute_integer" and n.value.args:
            a0 = repo.fold(n.value.args[0], g.module)
            if a0 == "table:number-columns-spanned":
                droles[n.targets[0].id] = "nb_cols"
            elif a0 == "table:number-rows-spanned":
                droles[n.targets[0].id] = "nb_rows"
    area = {}
    gc = [n for n in walk_no_nested(g.node) if isinstance(n, ast.Call) and call_name(n) == "get_cells" and n.args and isinstance(n.args[0], ast.Tuple) and len(n.args[0].elts) == 4]
    if gc:
        for k, e in zip("xyzt", gc[0].args[0].elts):
            d = def_of(g, e.id) if isinstance(e, ast.Name) and droles.get(e.id) not in ("x", "y") else e
            area[k] = _canon_names(d, droles) if d is not None else "?"
    else:
        # the same area read cell by cell: get_cell((xx, yy), keep_repeated=False) for xx in range(x, z + 1) for yy in range(y, t + 1)
        single = [n for n in walk_no_nested(g.node) if isinstance(n, ast.Call) and call_name(n) == "get_cell" and is_self_attr(n.func) and n.args
                  and isinstance(n.args[0], ast.Tuple) and len(n.args[0].elts) == 2]
        for n in single[:1]:
            kr = get_arg(n, 2, "keep_repeated")
            plain = kr is not None and repo.fold(kr, g.module) is False
            ctx.instance("R17c", f"{g.file}:{g.ident}", "cells of the area are read one by one without their repeat count", ok=plain, nontrivial=True, line=n.lineno)
            if not plain:
                ctx.report("R17c", g, n, norm(n, 50),
                           "del_span reads the area cell by cell and keeps the repeat count of each copy (no keep_repeated=False): a covered cell stored as a run is written back "
                           "over several positions, the restored area is wider than the span and the cells to its right are overwritten")
                return
            ranges = {}
            cur = n
            while cur is not None and cur is not g.node:
                par = getattr(cur, "_parent", None)
                gens = [(par.target, par.iter)] if isinstance(par, ast.For) and cur is not par.iter else \
                    [(gn.target, gn.iter) for gn in par.generators] if isinstance(par, (ast.ListComp, ast.GeneratorExp)) else []
                for tg, it in gens:
                    if isinstance(tg, ast.Name) and isinstance(it, ast.Call) and call_name(it) == "range" and len(it.args) == 2:
                        ranges.setdefault(tg.id, it.args)
                cur = par
            for (lo_k, hi_k), e in zip((("x", "z"), ("y", "t")), n.args[0].elts):
                if isinstance(e, ast.Name) and e.id in ranges:
                    lo, hi = ranges[e.id]
                    hi = hi.left if isinstance(hi, ast.BinOp) and isinstance(hi.op, ast.Add) and isinstance(hi.right, ast.Constant) and hi.right.value == 1 else None
                    for k, v in ((lo_k, lo), (hi_k, hi)):
                        d = def_of(g, v.id) if isinstance(v, ast.Name) and droles.get(v.id) not in ("x", "y") else v
                        area[k] = _canon_names(d, droles) if d is not None else "?"
    ok = area == {"x": "x", "y": "y", "z": "x+nb_cols-1", "t": "y+nb_rows-1"}
    ctx.instance("R17c", f"{g.file}:{g.ident}", f"area recomputed as {area}", ok=ok, nontrivial=True)
    if not ok:
        ctx.report("R17c", g, g.node, f"del_span area {area}", "del_span does not recompute the spanned area as (x + cols - 1, y + rows - 1)")


def _loop_pattern(n: ast.AST) -> str:
    loops = enclosing_loops(n)
    if len(loops) == 1:
        return ast.unparse(loops[0].iter)
    if len(loops) == 2:
        return ast.unparse(loops[1].iter) + "/*"
    return "?"


def r17d(ctx):
    repo = ctx.repo
    ctx.rule("R17d", "strip loops delete only items they tested empty, from the end, stopping at the first non-empty item", floor=3)
    specs = [("Row.rstrip", "delete"), ("Table.rstrip", "delete"), ("Table._optimize_width_trim_rows", "delete")]
    # shrinking the repeat count of a stored row / cell removes logical rows / cells just as a delete does: it needs the same evidence
    for q, _ in specs:
        f = repo.func(q)
        for c in walk_no_nested(f.node):
            if not (isinstance(c, ast.Call) and call_name(c) == "_set_repeated" and isinstance(c.func, ast.Attribute) and isinstance(c.func.value, (ast.Name, ast.Subscript)) and c.args):
                continue
            item = c.func.value.id if isinstance(c.func.value, ast.Name) else norm(c.func.value, 40)
            src = canon(f, c.func.value)
            if not any(k in src for k in ("_get_rows()", "_get_cells()")):
                continue
            arg = c.args[0]
            if not (isinstance(arg, ast.Constant) and arg.value is None):
                continue  # a computed count is the business of the run arithmetic (C01)
            gs = structural_guards(c, stop=f.node)
            tested = any(pol and isinstance(x, ast.Call) and call_name(x) == "is_empty" and isinstance(x.func, ast.Attribute) and norm(x.func.value, 40) == item for t, pol in gs for x in ast.walk(t))
            ctx.instance("R17d", f"{f.file}:{f.ident}", f"{norm(c, 40)} (all repetitions but one dropped): " + ("only when the item is empty" if tested else "NO emptiness evidence"),
                         ok=tested, nontrivial=True, line=c.lineno)
            if not tested:
                ctx.report("R17d", f, c, c, f"{q} reduces `{item}` ({src}) to a single occurrence without having established that it is empty: when the last row holds content "
                           f"and is repeated N times, N-1 rows of content disappear")
    for q, _ in specs:
        f = repo.func(q)
        dels = [n for n in walk_no_nested(f.node) if isinstance(n, ast.Call) and call_name(n) == "delete" and enclosing_loops(n)]
        for d in dels:
            loop = enclosing_loops(d)[0]
            item = loop.target.id if isinstance(loop.target, ast.Name) else None
            if item is None or not any(isinstance(x, ast.Name) and x.id == item for a in d.args for x in ast.walk(a)):
                continue
            if not any(isinstance(c, ast.Call) and call_name(c) in ("_get_rows", "_get_cells") for c in ast.walk(loop.iter)):
                continue  # column declarations carry no content; they are trimmed by a width counter
            rev = isinstance(loop.iter, ast.Call) and call_name(loop.iter) == "reversed"
            # emptiness test on the same item guarding the delete, or a counter derived from such a test
            gs = structural_guards(d, stop=loop)
            tested = any(call_name(c) == "is_empty" and isinstance(c.func, ast.Attribute) and ast.unparse(c.func.value) == item
                         for t, pol in gs for c in ast.walk(t) if isinstance(c, ast.Call))
            # `if not item.is_empty(): break` before the delete in the same loop body
            brk = False
            for s in loop.body:
                if s is d or any(x is d for x in ast.walk(s)):
                    break
                if isinstance(s, ast.If) and "is_empty" in ast.unparse(s.test) and item in ast.unparse(s.test) and any(isinstance(b, ast.Break) for b in s.body) \
                        and isinstance(s.test, ast.UnaryOp):
                    brk = True
            stops = any(isinstance(b, ast.Break) for b in ast.walk(loop))
            counter = False
            if not (tested or brk):
                # counter pattern: an earlier reversed loop counts is_empty items and breaks at the first non-empty one
                cnt_guard = [t for t, pol in structural_guards(loop, stop=f.node) if pol and isinstance(t, ast.Compare)]
                if cnt_guard:
                    cv = ast.unparse(cnt_guard[0].left)
                    for l2 in walk_no_nested(f.node):
                        if isinstance(l2, ast.For) and l2 is not loop and isinstance(l2.iter, ast.Call) and call_name(l2.iter) == "reversed":
                            inc = [a for a in ast.walk(l2) if isinstance(a, ast.AugAssign) and ast.unparse(a.target) == cv]
                            if inc and all(any("is_empty" in ast.unparse(t) and pol for t, pol in structural_guards(a, stop=l2)) for a in inc) \
                                    and any(isinstance(b, ast.Break) for b in ast.walk(l2)):
                                dec = [a for a in ast.walk(loop) if isinstance(a, ast.AugAssign) and ast.unparse(a.target) == cv and isinstance(a.op, ast.Sub)]
                                counter = bool(dec) and any(isinstance(b, ast.Break) for b in ast.walk(loop))
            ok = rev and stops and (tested or brk or counter)
            how = "emptiness test on the item" if (tested or brk) else ("counter fed by emptiness tests" if counter else "NO emptiness evidence")
            ctx.instance("R17d", f"{f.file}:{f.ident}", f"{norm(d, 40)}: reversed={rev}, stops={stops}, {how}", ok=ok, nontrivial=True, line=d.lineno)
            if not ok:
                ctx.report("R17d", f, d, d, f"{q} deletes {item} without having established that it is empty (reversed scan={rev}, stops at first non-empty={stops}, {how}): "
                           f"non-empty content can be stripped")
    if ctx.rules["R17d"].instances < 3:
        raise AnalysisError("R17d: strip loops not found")


def r17j(ctx):
    """A cell is part of a span when any of the marks of a span is on it.

    set_span refuses to overlap an existing span and the strips never delete a spanned cell; both ask `Cell.is_spanned()`.  A span head
    carries `table:number-columns-spanned` and/or `table:number-rows-spanned` (a vertical merge loaded from a file may carry the second
    only), a covered cell is known by its tag.  Rule: is_spanned tests the tag of covered cells and every span attribute that set_span
    writes and del_span removes; each test alone makes the cell spanned.
    """
    repo = ctx.repo
    ctx.rule("R17j", "Cell.is_spanned tests the covered tag and every span attribute set_span writes", floor=1)
    f = repo.func("Cell.is_spanned")
    ss = repo.func("Table.set_span")
    written = {repo.fold(c.args[0], ss.module) for c in walk_no_nested(ss.node) if isinstance(c, ast.Call) and call_name(c) == "set_attribute" and c.args}
    written = {w for w in written if isinstance(w, str) and w.endswith("-spanned")}
    read = {repo.fold(c.args[0], f.module) for c in walk_no_nested(f.node) if isinstance(c, ast.Call) and call_name(c).startswith("get_attribute") and c.args}
    tags = {x.value for x in walk_no_nested(f.node) if isinstance(x, ast.Constant) and isinstance(x.value, str) and "covered" in x.value}
    conj = [b for b in walk_no_nested(f.node) if isinstance(b, ast.BoolOp) and isinstance(b.op, ast.And)]
    ok = bool(written) and written <= read and bool(tags) and not conj
    ctx.instance("R17j", f"{f.file}:{f.ident}", f"reads {sorted(x for x in read if isinstance(x, str))} and the covered tag; set_span writes {sorted(written)}", ok=ok, nontrivial=True, line=f.node.lineno)
    if not ok:
        lack = sorted(written - read)
        ctx.report("R17j", f, f.node, "Cell.is_spanned " + (f"does not test {lack}" if lack else "combines the marks with `and`" if conj else "does not test the covered tag"),
                   f"Cell.is_spanned does not recognise a cell by each of the marks of a span ({'missing ' + str(lack) if lack else 'marks combined with and' if conj else 'covered tag not tested'}): "
                   f"a span head that carries only that mark is taken for a free cell — set_span overlaps it and the strips delete it, leaving orphan covered cells")


def r17i(ctx):
    """The width a row can be cut to counts every cell that holds something.

    optimize_width() takes the largest `minimized_width()` of the rows as the new table width and trims the column declarations to it;
    force_width() then shortens only rows whose last cell is empty.  minimized_width() must therefore count the last run of repeated cells
    once only when that last cell *is* empty — with the same test force_width uses — and in full otherwise; counted short, a row that ends
    in repeated values stays wider than the columns declared for it (and a later strip cuts values).  Rule: in Row.minimized_width the
    list of run lengths is summed whole; an element of it is overwritten, or part of it left out, only under a positive is_empty test of
    the last cell.
    """
    repo = ctx.repo
    ctx.rule("R17i", "Row.minimized_width sums every run of cells; the last run is reduced to one only when the last cell tests empty", floor=1)
    f = repo.func("Row.minimized_width")
    runs = [a.targets[0].id for a in walk_no_nested(f.node) if isinstance(a, ast.Assign) and isinstance(a.targets[0], ast.Name) and isinstance(a.value, ast.ListComp)]
    if not runs:
        raise AnalysisError("R17i: list of run lengths not found in Row.minimized_width")
    rv = runs[0]
    bad = []

    def guarded_by_empty(n_):
        return any(pol and any(isinstance(x, ast.Call) and call_name(x) == "is_empty" for x in ast.walk(t)) for t, pol in structural_guards(n_, stop=f.node))

    for st in walk_no_nested(f.node):
        # stores into the list
        if isinstance(st, (ast.Assign, ast.AugAssign)):
            tg = st.targets if isinstance(st, ast.Assign) else [st.target]
            if any(isinstance(t, ast.Subscript) and isinstance(t.value, ast.Name) and t.value.id == rv for t in tg) and not guarded_by_empty(st):
                bad.append((st, "overwrites a run length without having tested the last cell empty"))
        if isinstance(st, ast.Call) and isinstance(st.func, ast.Attribute) and isinstance(st.func.value, ast.Name) and st.func.value.id == rv and st.func.attr in ("pop", "remove", "clear") \
                and not guarded_by_empty(st):
            bad.append((st, "drops a run length without having tested the last cell empty"))
        if isinstance(st, ast.Subscript) and isinstance(st.value, ast.Name) and st.value.id == rv and isinstance(st.slice, ast.Slice) and isinstance(st.ctx, ast.Load) and not guarded_by_empty(st):
            bad.append((st, "leaves part of the runs out of the sum without having tested the last cell empty"))
    sums = [c for c in walk_no_nested(f.node) if isinstance(c, ast.Call) and call_name(c) == "sum" and c.args and isinstance(c.args[0], ast.Name) and c.args[0].id == rv]
    if not sums and not bad:
        bad.append((f.node, "does not sum the run lengths"))
    # … and the table takes the largest of these over ALL its stored rows: a row left out of the maximum (blank rows "do not count") keeps its cells while the
    # column declarations are trimmed below it
    g = repo.func("Table._optimize_width_length")
    mw = [c for c in ast.walk(g.node) if isinstance(c, ast.Call) and call_name(c) == "minimized_width"]
    if not mw:
        raise AnalysisError("R17i: Table._optimize_width_length no longer measures rows with minimized_width()")
    filt = [i for n_ in ast.walk(g.node) if isinstance(n_, (ast.GeneratorExp, ast.ListComp, ast.SetComp)) for gen in n_.generators for i in gen.ifs]
    filt += [j for j in ast.walk(g.node) if isinstance(j, (ast.Continue, ast.Break))]
    srcs = [n_ for n_ in ast.walk(g.node) if isinstance(n_, (ast.GeneratorExp, ast.ListComp, ast.SetComp, ast.For))]
    whole = any(any(isinstance(c, ast.Call) and call_name(c) in ("_get_rows", "traverse") for c in ast.walk(n_.generators[0].iter if not isinstance(n_, ast.For) else n_.iter)) for n_ in srcs)
    okw = not filt and whole
    ctx.instance("R17i", f"{g.file}:{g.ident}", "maximum of minimized_width() over every stored row", ok=okw, nontrivial=True, line=g.node.lineno)
    if not okw:
        at = filt[0] if filt else g.node
        ctx.report("R17i", g, at, f"_optimize_width_length: {norm(at, 40)}",
                   f"the target width of optimize_width leaves rows out (`{norm(at, 40)}`): a row that is not measured keeps its cells — force_width only shortens a blank repeated tail — "
                   f"while the column declarations are trimmed to the smaller width, so the row is wider than the declared columns")
    ctx.instance("R17i", f"{f.file}:{f.ident}", "sum of all runs; last run reduced only when the last cell is empty", ok=not bad, nontrivial=True, line=f.node.lineno)
    for n_, why in bad[:2]:
        ctx.report("R17i", f, n_, f"Row.minimized_width {why.split(' without')[0]}: {norm(n_, 40)}",
                   f"Row.minimized_width {why} (`{norm(n_, 50)}`): a row ending in a run of repeated cells that hold a value is measured shorter than it is, optimize_width trims the column "
                   f"declarations to that width and force_width leaves the row alone — the row is wider than the declared columns")


def r17g(ctx):
    """Emptiness drives every strip: a cell that has a value, children or is part of a span is never empty, in both modes."""
    repo = ctx.repo
    ctx.rule("R17g", "Cell.is_empty: value, children and span membership make a cell non-empty regardless of `aggressive`", floor=3)
    f = repo.func("Cell.is_empty")
    wanted = {"value": lambda n: isinstance(n, ast.Attribute) and n.attr == "value" and isinstance(n.value, ast.Name) and n.value.id == "self",
              "children": lambda n: isinstance(n, ast.Attribute) and n.attr == "children" and isinstance(n.value, ast.Name) and n.value.id == "self",
              "is_spanned": lambda n: isinstance(n, ast.Call) and call_name(n) in ("is_spanned", "_is_spanned")}
    for what, pred in wanted.items():
        sites = [n for n in walk_no_nested(f.node) if pred(n)]
        ok = False
        for s_ in sites:
            gs = structural_guards(s_, stop=f.node)
            in_test = None
            cur = s_
            while cur is not None and not isinstance(cur, ast.stmt):
                cur = getattr(cur, "_parent", None)
            # the site must sit in an `if …: return False` test (or a returned conjunction) that no `aggressive` guard controls
            dep_aggr = any("aggressive" in ast.unparse(t) for t, _ in gs)
            same_test_aggr = isinstance(cur, (ast.If, ast.Return)) and "aggressive" in ast.unparse(cur.test if isinstance(cur, ast.If) else cur.value) and \
                _aggr_gates(cur.test if isinstance(cur, ast.If) else cur.value, s_)
            if not dep_aggr and not same_test_aggr:
                ok = True
        ctx.instance("R17g", f"{f.file}:{f.ident}", f"{what} is tested whatever `aggressive` is", ok=ok and bool(sites), nontrivial=True, line=f.node.lineno)
        if not (ok and sites):
            ctx.report("R17g", f, f.node, f"Cell.is_empty: {what} test depends on aggressive (or is gone)",
                       f"a cell's {what} no longer makes it non-empty in every mode: rstrip(aggressive=True) / optimize_width then delete cells that carry "
                       f"content or belong to a span")


def _aggr_gates(test: ast.expr, site: ast.AST) -> bool:
    """In `not aggressive and X` (an And containing both), `aggressive` gates X."""
    for n in ast.walk(test):
        if isinstance(n, ast.BoolOp) and isinstance(n.op, ast.And):
            has_site = any(any(x is site for x in ast.walk(v)) for v in n.values)
            has_aggr = any("aggressive" in ast.unparse(v) and not any(x is site for x in ast.walk(v)) for v in n.values)
            if has_site and has_aggr:
                return True
    return False


def r17e(ctx, tom):
    ctx.rule("R17e", "transpose, rstrip and optimize_width end with restored maps and dropped indexes (TOM)", floor=3)
    bad = {f.ident for rule, f, *_ in tom.findings if rule in ("R02a", "R02b")}
    for q in ("Table.transpose", "Table.rstrip", "Table.optimize_width", "Table.set_span", "Table.del_span", "Row.rstrip"):
        f = ctx.repo.func(q)
        ok = f.ident not in bad
        ctx.instance("R17e", f"{f.file}:{f.ident}", "interpreted with callees inlined: maps clean, no stale index at exit", ok=ok, nontrivial=True)
        if not ok:
            ctx.report("R17e", f, f.node, f"{q} exits with obsolete caches", f"{q} leaves a position map or wrapper index obsolete (see the R02 finding of C02)")


def r17f(ctx):
    repo = ctx.repo
    ctx.rule("R17f", "CSV export/import: same dialect default, row-major order, None ↔ empty string, reader fed the text as written", floor=4)
    ex = repo.func("Table.to_csv")
    im = repo.func("table:import_from_csv")
    d1 = ex.defaults().get("dialect")
    ok = isinstance(d1, ast.Constant) and d1.value == "excel"
    ctx.instance("R17f", f"{ex.file}:{ex.ident}", "export dialect default is 'excel' (what csv.Sniffer falls back to / csv.reader's default)", ok=ok)
    if not ok:
        ctx.report("R17f", ex, ex.node, "dialect default", "to_csv no longer defaults to the excel dialect the importer expects")
    from ..shape import has
    ok = has(ex.node, "for V_ in self.iter_values():\n    REST_") and has(ex.node, "W_.writerow(L_)") and has(ex.node, "if X_ is None:\n    X_ = ''")
    ctx.instance("R17f", f"{ex.file}:{ex.ident}", "one writerow per table row of iter_values(); None written as ''", ok=ok, nontrivial=True)
    if not ok:
        ctx.report("R17f", ex, ex.node, "export loop", "to_csv no longer writes one CSV row per table row with None as the empty string")
    # the exporter writes every value of every row: the only operations on the list handed to writerow() are its creation and append(value)
    wr = [c for c in ast.walk(ex.node) if isinstance(c, ast.Call) and call_name(c) == "writerow" and c.args and isinstance(c.args[0], ast.Name)]
    for w in wr:
        ln = w.args[0].id
        bad_ops = [c for c in ast.walk(ex.node) if isinstance(c, ast.Call) and isinstance(c.func, ast.Attribute) and isinstance(c.func.value, ast.Name) and c.func.value.id == ln
                   and c.func.attr in ("pop", "remove", "clear", "__delitem__")]
        bad_ops += [d for d in ast.walk(ex.node) if isinstance(d, ast.Delete) and any(isinstance(x, ast.Name) and x.id == ln for t in d.targets for x in ast.walk(t))]
        bad_ops += [a for a in ast.walk(ex.node) if isinstance(a, ast.Assign) and any(isinstance(t, ast.Name) and t.id == ln for t in a.targets) and not isinstance(a.value, (ast.List, ast.ListComp))]
        ctx.instance("R17f", f"{ex.file}:{ex.ident}", f"every value appended to `{ln}` is written (nothing popped or cut)", ok=not bad_ops, nontrivial=True, line=w.lineno)
        for b in bad_ops[:1]:
            ctx.report("R17f", ex, b, f"{norm(b, 50)} before writerow({ln})",
                       f"to_csv removes entries from the row it is about to write (`{norm(b, 40)}`): a test of truth on typed values also removes 0, 0.0, False and empty durations, "
                       f"so a row that ends in one of them comes back shorter — the value is None after the round trip")
    ok = has(im.node, "csv.reader(D_, X_)") and (has(im.node, "T_.append_row(R_, clone=False)") or has(im.node, "T_.append_row(R_)"))
    ctx.instance("R17f", f"{im.file}:{im.ident}", "one table row per CSV line, appended in order", ok=ok, nontrivial=True)
    if not ok:
        ctx.report("R17f", im, im.node, "import loop", "import_from_csv no longer appends one row per CSV line in order")
    # what the CSV reader is fed keeps its line ends: the csv module needs them to rebuild a quoted value that spans lines, and to_csv writes
    # such values (a cell holding "a\nb") with the line break inside the quotes
    from .c14 import _lossy_call
    readers = [c for c in walk_no_nested(im.node) if isinstance(c, ast.Call) and call_name(c) in ("reader", "DictReader") and c.args]
    if not readers:
        raise AnalysisError("R17f: csv.reader call not found in import_from_csv")
    defs: dict[str, list[ast.expr]] = {}
    for st in walk_no_nested(im.node):
        if isinstance(st, ast.Assign):
            for t in st.targets:
                if isinstance(t, ast.Name):
                    defs.setdefault(t.id, []).append(st.value)
    for c in readers:
        seen, work, bad = set(), [c.args[0]], []
        while work:
            e = work.pop()
            if id(e) in seen:
                continue
            seen.add(id(e))
            for x in ast.walk(e):
                if isinstance(x, ast.Call) and isinstance(x.func, ast.Attribute) and x.func.attr == "splitlines":
                    keep = (x.args and isinstance(x.args[0], ast.Constant) and x.args[0].value is True) or any(
                        k.arg == "keepends" and isinstance(k.value, ast.Constant) and k.value.value is True for k in x.keywords)
                    if not keep:
                        bad.append((x, "drops the line ends"))
                elif isinstance(x, ast.Call) and _lossy_call(x):
                    bad.append((x, "rewrites the text"))
                elif isinstance(x, ast.Name) and x.id in defs:
                    work.extend(defs[x.id])
        ctx.instance("R17f", f"{im.file}:{im.ident}", f"`{norm(c, 40)}` is fed the text as written (line ends kept, nothing rewritten)", ok=not bad, nontrivial=True, line=c.lineno)
        for x, why in bad[:2]:
            ctx.report("R17f", im, x, f"{norm(x, 50)} feeds csv.reader",
                       f"import_from_csv {why} of what it hands to csv.reader (`{norm(x, 40)}`): a value that to_csv wrote with a line break inside quotes comes back "
                       f"without it (or changed), so exporting to CSV and importing back does not preserve the values")


RAW_SOURCES = {"_get_rows", "_get_cells", "_get_columns"}
ORDER_FREE = {"all", "any", "max", "min", "set", "frozenset"}


def r17h(ctx):
    """Stored items are not logical items.

    `_get_rows()`, `_get_cells()` and `_get_columns()` return one wrapper per XML element; an element with a repeat count stands for several
    logical rows / cells / columns.  Applying an operation to every stored element is fine (it applies to all its repetitions); *collecting*
    one entry per stored element into a positional structure (append/extend/insert, yield, list comprehension, list(), enumerate) is not,
    unless the loop also reads the element's repeat count.  Whole-table transformations (transpose, exports) must read logical items through the
    expanding traversals.  Rule over every loop and comprehension of Table / Row / MDTable whose source is a raw getter.
    """
    repo = ctx.repo
    ctx.rule("R17h", "no positional collection (append/yield/list/enumerate) of one entry per stored row, cell or column without reading its repeat count", floor=10)

    def raw(e, aliases):
        while isinstance(e, ast.Call) and isinstance(e.func, ast.Name) and e.func.id in ("reversed", "list", "iter", "tuple", "sorted") and e.args:
            e = e.args[0]
        if isinstance(e, ast.Call) and call_name(e) in RAW_SOURCES:
            return call_name(e)
        if isinstance(e, ast.Subscript):
            return raw(e.value, aliases)
        if isinstance(e, ast.Name) and e.id in aliases:
            return aliases[e.id]
        return None

    def reads_repeat(nodes, var):
        return any(isinstance(x, ast.Attribute) and x.attr in ("repeated", "_set_repeated") and isinstance(x.value, ast.Name) and x.value.id == var
                   for n in nodes for x in ast.walk(n))

    def mentions(e, names):
        return any(isinstance(x, ast.Name) and x.id in names for x in ast.walk(e))

    n = 0
    for cname in ("Table", "Row", "MDTable"):
        c = repo.cls(cname)
        for name, fs in c.methods.items():
            f = fs[0]
            aliases = {}
            for a in walk_no_nested(f.node):
                if isinstance(a, ast.Assign) and len(a.targets) == 1 and isinstance(a.targets[0], ast.Name) and raw(a.value, aliases):
                    aliases[a.targets[0].id] = raw(a.value, aliases)
            parents = {}
            for x in ast.walk(f.node):
                for ch in ast.iter_child_nodes(x):
                    parents[id(ch)] = x
            for node in walk_no_nested(f.node):
                if isinstance(node, ast.For) and isinstance(node.target, ast.Name):
                    src = raw(node.iter, aliases) or (raw(node.iter.args[0], aliases) if isinstance(node.iter, ast.Call) and call_name(node.iter) == "enumerate" and node.iter.args else None)
                    if not src:
                        continue
                    n += 1
                    var = node.target.id
                    names = {var}
                    for _ in range(2):
                        for a in ast.walk(node):
                            if isinstance(a, ast.Assign) and len(a.targets) == 1 and isinstance(a.targets[0], ast.Name) and mentions(a.value, names):
                                names.add(a.targets[0].id)
                    coll = []
                    for x in [y for st in node.body for y in ast.walk(st)]:
                        if isinstance(x, ast.Call) and isinstance(x.func, ast.Attribute) and x.func.attr in ("append", "extend", "insert") and isinstance(x.func.value, ast.Name) \
                                and x.func.value.id not in names and any(mentions(a, names) for a in x.args):
                            coll.append(x)
                        elif isinstance(x, (ast.Yield, ast.YieldFrom)) and x.value is not None and mentions(x.value, names):
                            coll.append(x)
                    ok = not coll or reads_repeat(node.body, var)
                    ctx.instance("R17h", f"{f.file}:{f.ident}", f"for {var} in {norm(node.iter, 40)}: " + ("applies an operation per stored element" if not coll else
                                 f"collects {norm(coll[0], 40)} " + ("and reads the repeat count" if ok else "WITHOUT reading the repeat count")), ok=ok, nontrivial=bool(coll), line=node.lineno)
                    if not ok:
                        ctx.report("R17h", f, node, f"for {var} in {norm(node.iter, 40)}: {norm(coll[0], 50)}",
                                   f"{cname}.{name} builds one entry per stored {src[5:-1]} element: an element repeated N times stands for N logical {src[5:]}, so the result is "
                                   f"shorter than the table (rows or cells are lost by a transformation built on it); read them through traverse()/get_rows()/get_cells()")
                elif isinstance(node, (ast.ListComp, ast.GeneratorExp, ast.SetComp, ast.DictComp)):
                    g = node.generators[0]
                    src = raw(g.iter, aliases)
                    if not src or not isinstance(g.target, ast.Name):
                        continue
                    n += 1
                    par = parents.get(id(node))
                    order_free = isinstance(node, ast.SetComp) or (isinstance(par, ast.Call) and call_name(par) in ORDER_FREE and isinstance(par.func, ast.Name))
                    elt = node.elt if not isinstance(node, ast.DictComp) else node.value
                    ok = order_free or reads_repeat([elt] + list(g.ifs), g.target.id)
                    ctx.instance("R17h", f"{f.file}:{f.ident}", f"{norm(node, 60)}: " + ("order- and count-free aggregate" if order_free else "positional"), ok=ok, line=node.lineno)
                    if not ok:
                        ctx.report("R17h", f, node, norm(node, 60),
                                   f"{cname}.{name} builds one entry per stored {src[5:-1]} element without its repeat count: repeated elements count once")
    if n == 0:
        raise AnalysisError("R17h: no loop over stored rows/cells/columns found")


_FIXTURE_K = '''
class Row:
    def set_cells(self, cells):
        self.clear()
        self.extend_cells(cells)
    def refill(self, values):
        me = self
        me.clear()
    def set_values(self, values):
        for old in self._get_cells():
            self.delete(old)
        self._indexes.clear()
    def wipe_first(self):
        row = self._get_rows()[0]
        row.clear()
    def clear(self):
        self._element.clear()
'''


def _clear_self_sites(fn: ast.FunctionDef):
    """calls of the element-level clear() on the object itself (or a plain alias of it), or on a row/column it stores"""
    alias = {"self"}
    stored = set()
    for n in walk_no_nested(fn):
        if isinstance(n, ast.Assign) and len(n.targets) == 1 and isinstance(n.targets[0], ast.Name):
            if isinstance(n.value, ast.Name) and n.value.id in alias:
                alias.add(n.targets[0].id)
            if any(isinstance(x, ast.Call) and call_name(x) in ("_get_rows", "_get_columns", "get_row", "get_column", "_get_row2_base") for x in ast.walk(n.value)):
                stored.add(n.targets[0].id)
        if isinstance(n, ast.For) and isinstance(n.target, ast.Name) and any(isinstance(x, ast.Call) and call_name(x) in ("_get_rows", "_get_columns") for x in ast.walk(n.iter)):
            stored.add(n.target.id)
    return [n for n in walk_no_nested(fn) if isinstance(n, ast.Call) and isinstance(n.func, ast.Attribute) and n.func.attr == "clear" and not n.args
            and isinstance(n.func.value, ast.Name) and n.func.value.id in alias | stored]


def r17k(ctx):
    """Replacing the cells of a row leaves the row itself alone.

    "Creating a cell span and deleting it restores the table": set_span and del_span push the edited cells back with
    Table.set_cells(…, clone=False), which hands each row its new cells through Row.set_cells.  Element.clear() is lxml's clear: it removes the
    children *and every attribute* — the row's style, its visibility, its repeat count.  A row (or table, or column) method that empties the
    container with it before refilling therefore changes more than the cells it was asked to replace, and nothing puts the attributes back: a
    span over whole rows comes back from del_span with unstyled rows.  Rule (expected count 0, fixture evaluated on every run): no method of
    Table, Row, RowGroup or Column other than `clear` itself calls clear() on the object or on a row/column it stores.
    """
    repo = ctx.repo
    ctx.rule("R17k", "no method of a table container empties the container with the element-level clear(), which also removes its attributes", floor=120)
    tree = ast.parse(_FIXTURE_K)
    got = sorted(fn.name for fn in ast.walk(tree) if isinstance(fn, ast.FunctionDef) and fn.name != "clear" and _clear_self_sites(fn))
    if got != ["refill", "set_cells", "wipe_first"]:
        raise AnalysisError(f"R17k fixture: detector broken: {got}")
    n = 0
    for cn in ("Table", "Row", "RowGroup", "Column"):
        c = repo.cls(cn)
        for name, fs in sorted(c.methods.items()):
            for f in fs:
                if f.cls is not c or name == "clear" or f.kind == "nested":
                    continue
                n += 1
                bad = _clear_self_sites(f.node)
                ctx.instance("R17k", f"{f.file}:{f.ident}", "does not clear() the container", ok=not bad, nontrivial=bool(bad) or name.startswith(("set_", "insert_", "append_", "extend_", "del", "_")), line=f.node.lineno)
                for b in bad[:1]:
                    ctx.report("R17k", f, b, norm(b, 40),
                               f"{f.ident} empties the {cn.lower()} with `{norm(b, 30)}`: the element-level clear() removes the attributes too (style, repeat count, visibility), "
                               f"so replacing the cells changes the {cn.lower()} itself — set_span followed by del_span gives back rows without their style")


# texts Python writes for a number (str of int, Decimal and float): what to_csv() can put in a numeric field
_R17L_NUMERALS = ("0", "-3", "42", "1.5", "-0.25", "1E-7", "1.2E-7", "-1.2E-7", "1E+30", "1e-07", "1.5e+30", "123456789012345678901234567890")
_STR_PREDICATES = {"isdigit", "isdecimal", "isnumeric", "isalnum", "isalpha", "startswith", "endswith", "isascii"}


def r17l(ctx):
    """The CSV importer tries to read as a number every text the exporter writes for one.

    "Exporting to CSV and importing back preserves the values": to_csv() hands Python numbers to the csv writer, which writes `str(value)` — for a
    Decimal or a float that can be scientific notation (`1.2E-7`, `1e-07`) as well as plain digits.  The importer guesses the type of each
    field by trying int() and float() on the text.  A filter in front of those attempts (a pattern, a digits-only predicate) decides which
    texts are tried at all; if it rejects one of the forms the exporter writes, that number comes back as a string.  Rule: in
    `_get_python_value`, every condition the int()/float()/Decimal() attempts depend on is either a type test, or a constant pattern that
    accepts all the reference numerals (checked by matching the pattern, a constant of the source, against them); a str predicate on the text
    is not accepted, and the attempts exist.
    """
    import re as _re
    repo = ctx.repo
    ctx.rule("R17l", "the CSV importer attempts the numeric constructors on every numeral the exporter can write (no narrower filter in front)", floor=2)
    f = repo.func("table:_get_python_value")
    data = f.node.args.args[0].arg if f.node.args.args else None
    tries = [n for n in walk_no_nested(f.node) if isinstance(n, ast.Call) and isinstance(n.func, ast.Name) and n.func.id in ("int", "float", "Decimal") and n.args]
    if not any(n.func.id in ("float", "Decimal") for n in tries) or not any(n.func.id == "int" for n in tries):
        ctx.instance("R17l", f"{f.file}:{f.ident}", "int() and float() are attempted", ok=False, nontrivial=True, line=f.node.lineno)
        ctx.report("R17l", f, f.node, "numeric attempts missing", f"{f.ident} no longer tries both int() and float()/Decimal() on the field: numbers written by to_csv() come back as text")
        return
    mod = repo.modules[f.module] if isinstance(f.module, str) else f.module

    def pattern_of(e):
        """constant pattern of `X.match(…)` / `re.match(pat, …)`; (pattern, method) or None"""
        if not (isinstance(e, ast.Call) and isinstance(e.func, ast.Attribute) and e.func.attr in ("match", "fullmatch", "search")):
            return None
        recv = e.func.value
        if isinstance(recv, ast.Name) and recv.id == "re" and e.args:
            pat = repo.fold(e.args[0], f.module)
            return (pat, e.func.attr) if isinstance(pat, str) else None
        if isinstance(recv, ast.Name):
            for st in mod.tree.body:
                if isinstance(st, ast.Assign) and any(isinstance(t, ast.Name) and t.id == recv.id for t in st.targets) and isinstance(st.value, ast.Call) \
                        and call_name(st.value) == "compile" and st.value.args:
                    pat = repo.fold(st.value.args[0], f.module)
                    return (pat, e.func.attr) if isinstance(pat, str) else None
        return None

    for n in tries:
        bad = None
        for t, pol in structural_guards(n, stop=f.node):
            if isinstance(t, ast.Call) and call_name(t) == "isinstance":
                continue
            hit = None
            for x in ast.walk(t):
                po = pattern_of(x)
                if po is not None:
                    pat, meth = po
                    rx = _re.compile(pat)
                    rejected = [s_ for s_ in _R17L_NUMERALS if bool(getattr(rx, meth)(s_)) != pol]
                    if rejected:
                        hit = f"the pattern {pat!r} {'rejects' if pol else 'diverts'} {', '.join(rejected[:3])}"
                elif isinstance(x, ast.Call) and isinstance(x.func, ast.Attribute) and x.func.attr in _STR_PREDICATES:
                    hit = f"`{norm(x, 30)}` is a character-class test, which scientific notation, signs or the decimal point fail"
                elif isinstance(x, ast.Call) and isinstance(x.func, ast.Attribute) and x.func.attr in ("match", "fullmatch", "search"):
                    hit = f"`{norm(x, 30)}` is a pattern that cannot be read from the source"
            if hit:
                bad = (t, hit)
                break
        ctx.instance("R17l", f"{f.file}:{f.ident}", f"{norm(n, 20)} is attempted for every reference numeral", ok=bad is None, nontrivial=True, line=n.lineno)
        if bad:
            ctx.report("R17l", f, bad[0], f"{n.func.id}: {norm(bad[0], 40)}",
                       f"{f.ident} attempts `{norm(n, 20)}` only under `{norm(bad[0], 50)}`: {bad[1]} — a number that to_csv() writes in that form is imported as a string, so the CSV "
                       f"round trip changes the value")


def r17m(ctx):
    """The emptiness test that decides a strip is the one the strip applies.

    "Stripping removes only empty trailing rows and cells, is idempotent": Table.rstrip asks each row `is_empty(aggressive)` and, for the rows
    it keeps, `rstrip(aggressive)`; Row asks each cell.  With `aggressive` a styled cell without value counts as empty.  The two levels agree
    only if the flag travels all the way down: a level that asks the default question judges styled rows non-empty while the level below
    removes all their cells — the strip leaves cell-less rows behind and a second call removes them (not idempotent).  Rule: every function
    that has an `aggressive` parameter passes it to every callee that declares one (is_empty, rstrip, … of Table, Row and Cell).
    """
    repo = ctx.repo
    ctx.rule("R17m", "the `aggressive` flag of the emptiness tests and strips is forwarded to every callee that takes it", floor=6)
    byname: dict[str, list[FuncInfo]] = {}
    for g in repo.all_funcs():
        byname.setdefault(g.name, []).append(g)
    n = 0
    for f in repo.all_funcs():
        if "aggressive" not in {a.arg for a in f.all_params()}:
            continue
        for c in walk_no_nested(f.node):
            if not isinstance(c, ast.Call):
                continue
            cands = [g for g in byname.get(call_name(c), []) if "aggressive" in {a.arg for a in g.all_params()} and g.cls is not None and g.cls.name in ("Table", "Row", "Cell")]
            if not cands or not isinstance(c.func, ast.Attribute):
                continue
            n += 1
            fw = [k.value for k in c.keywords if k.arg == "aggressive"] + [a for a in c.args if isinstance(a, ast.Name) and a.id == "aggressive"]
            ok = any(isinstance(v, ast.Name) and v.id == "aggressive" for v in fw)
            ctx.instance("R17m", f"{f.file}:{f.ident}", f"{norm(c, 50)}: flag forwarded", ok=ok, nontrivial=True, line=c.lineno)
            if not ok:
                ctx.report("R17m", f, c, norm(c, 50),
                           f"{f.ident} takes `aggressive` but asks `{norm(c, 40)}` without it: this level judges by the default rule while the level below strips by the flag — rows made of "
                           f"styled empty cells are kept by Table.rstrip(aggressive=True) and emptied by Row.rstrip, so a second call removes more (not idempotent)")
    if n < 6:
        raise AnalysisError(f"R17m: only {n} call(s) that should forward `aggressive` found")


def run(ctx):
    tom = run_tom(ctx.repo)
    r17abc(ctx)
    r17d(ctx)
    r17e(ctx, tom)
    r17f(ctx)
    r17g(ctx)
    r17h(ctx)
    r17i(ctx)
    r17j(ctx)
    r17k(ctx)
    r17l(ctx)
    r17m(ctx)
    # span and area operations write back through Table.set_cells / set_row: a row copy that still carries a repeat count is written N times
    # (the one-row-only obligation R01a of C01 is a necessary condition here too)
    from .c01 import r01a
    r01a(ctx, tom)
    # del_span, set_span and transpose(coord) read their area through the ranged traversals and write the cells back: a cell copy that still carries the
    # repeat count of the run it was cut from overwrites its neighbours (run arithmetic of the expanding traversals, shared with C08)
    from .c08 import r08c
    r08c(ctx)
    # del_span and the area reads get their rectangle through Table.get_cells: a bound of 0 taken for "no bound" widens it to whole rows (rule shared with C19)
    from .c19 import r19l
    r19l(ctx)
    # optimize_width measures a row by its last cell: a covered cell is a cell (rule shared with C01)
    from .c01 import r01l
    r01l(ctx)
    # set_span, set_cells, set_values and transpose(coord) write cell after cell through Row.set_cell: each write must leave the row's position map in step with its XML,
    # or the next cell of the same call lands on the wrong column (position-map protocol, shared with C02)
    from .c02 import r02ab
    r02ab(ctx, tom)
    from .round12 import r17n
    r17n(ctx)


from ..selftest import Seed, unparse_seed  # noqa: E402

_T = "src/odfdo/table.py"
_R = "src/odfdo/row.py"
SEEDS = [
    Seed("Cell.value forgets the currency type", "fault", "src/odfdo/cell.py",
         "        if value_type in {\"float\", \"percentage\", \"currency\"}:", "        if value_type in {\"float\", \"percentage\"}:", "R17n"),
    Seed("Cell.value names its numeric types in a tuple", "neutral", "src/odfdo/cell.py",
         "        if value_type in {\"float\", \"percentage\", \"currency\"}:", "        if value_type in (\"currency\", \"float\", \"percentage\"):"),
    Seed("Row.is_empty asks its cells the default question", "fault", _R,
         "        return all(cell.is_empty(aggressive=aggressive) for cell in self._get_cells())", "        return all(cell.is_empty() for cell in self._get_cells())", "R17m"),
    Seed("the CSV importer tries numbers only on plain decimal text", "fault", _T,
         "    # An int ?\n    try:\n        return int(data)\n    except ValueError:\n        pass\n    # A float ?\n    try:\n        return float(data)\n    except ValueError:\n        pass\n",
         "    if re.match(r\"^[+-]?\\d+(\\.\\d*)?$\", data):\n        try:\n            return int(data)\n        except ValueError:\n            pass\n        try:\n            return float(data)\n        except ValueError:\n            pass\n", "R17l"),
    Seed("the CSV importer skips the numeric attempts for text that cannot be a number", "neutral", _T,
         "    # An int ?\n    try:\n        return int(data)\n    except ValueError:\n        pass\n    # A float ?\n    try:\n        return float(data)\n    except ValueError:\n        pass\n",
         "    if re.search(r\"\\d\", data):\n        try:\n            return int(data)\n        except ValueError:\n            pass\n        try:\n            return float(data)\n        except ValueError:\n            pass\n"),
    Seed("Row.set_cells empties the row with clear() before refilling", "fault", _R,
         "        if start == 0 and clone is False and (len(cells) >= self.width):\n            self._delete_cells()", "        if start == 0 and clone is False and (len(cells) >= self.width):\n            self.clear()", "R17k"),
    Seed("optimize_width measures non-blank rows only", "fault", _T, "        return max(row.minimized_width() for row in self._get_rows())",
         "        return max((row.minimized_width() for row in self._get_rows() if not row.is_empty()), default=1)", "R17i"),
    Seed("optimize_width tolerates a table without rows", "neutral", _T, "        return max(row.minimized_width() for row in self._get_rows())",
         "        return max((row.minimized_width() for row in self._get_rows()), default=1)"),
    Seed("is_spanned looks at the column span only", "fault", "src/odfdo/cell.py",
         '        if self.get_attribute("table:number-rows-spanned") is not None:  # noqa: SIM103\n            return True\n        return False', '        return False', "R17j"),
    Seed("to_csv drops trailing falsy values of a row", "fault", _T, "                    line.append(value)\n                csv_writer.writerow(line)  # type: ignore",
         "                    line.append(value)\n                while line and not line[-1]:\n                    line.pop()\n                csv_writer.writerow(line)  # type: ignore", "R17f", count=2),
    Seed("minimized_width always counts the last run once", "fault", _R,
         "            cell = self.last_cell()\n            if cell is not None and cell.is_empty(aggressive=True):\n                repeated[-1] = 1\n            min_width = sum(repeated)",
         "            min_width = sum(repeated[:-1]) + 1", "R17i"),
    Seed("minimized_width reduces the last run without the test", "fault", _R,
         "            if cell is not None and cell.is_empty(aggressive=True):\n                repeated[-1] = 1\n", "            repeated[-1] = 1\n", "R17i"),
    Seed("minimized_width tests emptiness through a local", "neutral", _R,
         "            if cell is not None and cell.is_empty(aggressive=True):\n                repeated[-1] = 1\n", "            blank = cell is not None and cell.is_empty(aggressive=True)\n            if cell is not None and cell.is_empty(aggressive=True) and blank:\n                repeated[-1] = 1\n"),
    Seed("import_from_csv splits lines without keeping their ends", "fault", _T, '    data = content.splitlines(True)\n', '    data = content.splitlines()\n', "R17f"),
    Seed("import_from_csv normalises CRLF before reading", "fault", _T, '    data = content.splitlines(True)\n', '    data = content.replace("\\r\\n", "\\n").splitlines(True)\n', "R17f"),
    Seed("import_from_csv keeps line ends by keyword", "neutral", _T, '    data = content.splitlines(True)\n', '    text = content\n    data = text.splitlines(keepends=True)\n'),
    Seed("set_span scans only the last collected row", "fault", _T, '        for row in cells:\n            for cell in row:\n                if cell.is_spanned():\n                    good = False\n                    break\n            if not good:\n                break\n        if not good:\n            return False\n', '        if any(cell.is_spanned() for cell in row_cells):\n            return False\n', "R17a"),
    Seed("set_span scans the whole matrix with any()", "neutral", _T, '        for row in cells:\n            for cell in row:\n                if cell.is_spanned():\n                    good = False\n                    break\n            if not good:\n                break\n        if not good:\n            return False\n', '        if any(cell.is_spanned() for row in cells for cell in row):\n            return False\n'),
    Seed("optimize_width un-repeats the last row whatever it holds", "fault", _T,
         "            if last_row.is_empty(aggressive=False):\n                last_row._set_repeated(None)", "            last_row._set_repeated(None)", "R17d"),
    Seed("transpose reads the stored row elements", "fault", _T, "        if coord is None:\n            for row in self.traverse():\n                data.append(list(row.traverse()))",
         "        if coord is None:\n            for row in self._get_rows():\n                data.append(list(row.traverse()))", "R17h"),
    Seed("Row.get_sub_elements reads the stored cell elements", "fault", _R, "        return [cell.children for cell in self.traverse()]", "        return [cell.children for cell in self._get_cells()]", "R17h"),
    Seed("optimize_width takes the maximum of a list", "neutral", _T, "        return max(row.minimized_width() for row in self._get_rows())", "        return max([row.minimized_width() for row in self._get_rows()])"),
    Seed("set_span writes the span attributes before checking", "fault", _T,
         "        # check for previous span\n        good = True\n        # Check boundaries and empty cells",
         "        # check for previous span\n        good = True\n        self.get_cell((x, y), clone=False).set_attribute(\"table:number-columns-spanned\", str(z - x + 1))\n        # Check boundaries and empty cells", "R17a"),
    Seed("set_span ignores the scan result", "fault", _T, "        if not good:\n            return False\n        # Check boundaries\n", "        # Check boundaries\n", "R17a"),
    Seed("set_span clears cells without merge", "fault", _T,
         "        cols = z - x + 1\n        cells[0][0].set_attribute(\"table:number-columns-spanned\", str(cols))",
         "        for cell in cells[0][1:]:\n            cell.clear()\n        cols = z - x + 1\n        cells[0][0].set_attribute(\"table:number-columns-spanned\", str(cols))", "R17b"),
    Seed("set_span swaps cols and rows", "fault", _T,
         "        cells[0][0].set_attribute(\"table:number-columns-spanned\", str(cols))\n        rows = t - y + 1\n        cells[0][0].set_attribute(\"table:number-rows-spanned\", str(rows))",
         "        cells[0][0].set_attribute(\"table:number-columns-spanned\", str(rows := t - y + 1))\n        cells[0][0].set_attribute(\"table:number-rows-spanned\", str(cols))", "R17c"),
    Seed("del_span forgets the rows attribute", "fault", _T, "        cells[0][0].del_attribute(\"table:number-rows-spanned\")\n", "", "R17c"),
    Seed("del_span restores only the first row", "fault", _T,
         "        for cell in cells[0][1:]:\n            cell.tag = \"table:table-cell\"\n        for row in cells[1:]:\n            for cell in row:\n                cell.tag = \"table:table-cell\"",
         "        for cell in cells[0][1:]:\n            cell.tag = \"table:table-cell\"", "R17c"),
    Seed("set_span extent off by one", "fault", _T, "        cols = z - x + 1\n", "        cols = z - x\n", "R17c"),
    Seed("del_span area off by one", "fault", _T, "        z = x + nb_cols - 1\n", "        z = x + nb_cols\n", "R17c"),
    Seed("set_span pushes clones", "fault", _T,
         "        # replace cells in table\n        self.set_cells(cells, coord=start, clone=False)\n        return True\n\n    def del_span(",
         "        # replace cells in table\n        self.set_cells(cells, coord=end, clone=False)\n        return True\n\n    def del_span(", "R17c"),
    Seed("Row.rstrip deletes without testing", "fault", _R,
         "            if not cell.is_empty(aggressive=aggressive):  # type: ignore\n                break\n            self.delete(cell)",
         "            if cell.style is not None:\n                break\n            self.delete(cell)", "R17d"),
    Seed("Table.rstrip deletes every trailing styled row", "fault", _T,
         "            if row.is_empty(aggressive=aggressive):\n                row.parent.delete(row)  # type: ignore\n            else:\n                break",
         "            if row.is_empty(aggressive=aggressive) or row.style:\n                row.parent.delete(row)  # type: ignore", "R17d"),
    Seed("Row.rstrip scans from the left", "fault", _R, "        for cell in reversed(self._get_cells()):\n            if not cell.is_empty(", "        for cell in self._get_cells():\n            if not cell.is_empty(", "R17d"),
    Seed("trim_rows counts without stopping", "fault", _T,
         "            if row.is_empty(aggressive=False):\n                count += 1\n            else:\n                break\n        if count > 0:",
         "            if row.is_empty(aggressive=False):\n                count += 1\n        if count > 0:", "R17d"),
    Seed("transpose forgets the rebuild", "fault", _T, "                self.append_row(row, clone=False)\n            self._compute_table_cache()\n        else:",
         "                row.y = None\n                self._append(row)\n        else:", "R17e"),
    Seed("aggressive emptiness ignores span membership", "fault", "src/odfdo/cell.py",
         "        if self.value is not None or self.children or self.is_spanned():\n            return False\n        if not aggressive and self.style is not None:  # noqa: SIM103\n            return False\n        return True",
         "        if self.value is not None or self.children:\n            return False\n        if aggressive:\n            return True\n        return self.style is None and not self.is_spanned()", "R17g"),
    Seed("emptiness ignores children", "fault", "src/odfdo/cell.py",
         "        if self.value is not None or self.children or self.is_spanned():", "        if self.value is not None or self.is_spanned():", "R17g"),
    unparse_seed(_T), unparse_seed(_R), unparse_seed("src/odfdo/cell.py"),
]
